"""Same root cause as demo_2, away from the end state: reductions performed for a token that is then
rejected are not rolled back, so a terminal that accepts() promised (and that a parse of the same token
sequence takes) is refused afterwards.

  start: "p" m "y" | "q" m "w"
  m: a | c
  a: X
  c: X Z

After P X the LALR state holds  a: X .  (lookahead {Y, W} - merged from both contexts) and  c: X . Z
accepts() == {Y, Z}.  Feeding W is rejected - but only after reducing X to a to m.  Z is now refused,
although the parser/fork has successfully consumed exactly [P, X] and parse("p x z y") is fine.
"""
import sys, os; sys.path.insert(0, os.getcwd())
from lark import Lark, Token
from lark.exceptions import UnexpectedToken

parser = Lark('''
start: "p" m "y" | "q" m "w"
m: a | c
a: X
c: X Z
X: "x"
Z: "z"
%ignore " "
''', parser='lalr')
expected = parser.parse("p x z y")

ip = parser.parse_interactive('')
ip.feed_token(Token('P', 'p'))
ip.feed_token(Token('X', 'x'))
promised = ip.accepts()
assert 'Z' in promised and 'W' not in promised, promised

try:
    ip.feed_token(Token('W', 'w'))
    print("W accepted?!"); sys.exit(1)
except UnexpectedToken:
    pass                                   # correctly rejected

fork = ip.copy()                           # fork of a parser that has consumed exactly [P, X]
try:
    fork.feed_token(Token('Z', 'z'))
    fork.feed_token(Token('Y', 'y'))
    res = fork.feed_eof()
except UnexpectedToken as e:
    print("FAIL: after a REJECTED token, the fork that consumed [P, X] refuses %r, which accepts() had promised %r;"
          % (e.token.type, sorted(promised)))
    print("      accepts() is now %r; parse('p x z y') = %r" % (sorted(ip.accepts()), expected))
    sys.exit(1)
if res != expected:
    print("FAIL: result differs", res, expected); sys.exit(1)
print("ok")
