"""copy() / as_immutable() / ImmutableInteractiveParser.feed_token deep-copy the value stack recursively
(copy.deepcopy -> Tree.__deepcopy__ -> deepcopy(children) -> ...).  With an ordinary left-recursive rule the
partial tree on the stack is as deep as the number of items read, so forking raises RecursionError after
~250 items, while parse() (iterative) and the unforked interactive parser handle the same input fine.
"""
import sys, os; sys.path.insert(0, os.getcwd())
from lark import Lark

parser = Lark('start: start "+" A | A\nA: "a"\n%ignore " "\n', parser='lalr')
text = ' + '.join(['a'] * 400)
expected = parser.parse(text)            # fine

ip = parser.parse_interactive(text)
ip.exhaust_lexer()                       # fine
try:
    fork = ip.copy()
except RecursionError:
    print("FAIL: InteractiveParser.copy() raised RecursionError after 400 items of  start: start \"+\" A | A ;"
          " parse() of the same text succeeds")
    sys.exit(1)
assert fork.feed_eof() == expected
print("ok")
