"""accepts() must be exactly the set of terminals whose token can be fed successfully.
It silently drops every terminal whose *name* is not str.isupper():
  - terminals that come along with an imported rule are named  <module>__NAME  (e.g. python__DEC_NUMBER)
  - anonymous keyword terminals made of caseless letters are named after the keyword itself (e.g. "中")
"""
import sys, os; sys.path.insert(0, os.getcwd())
from lark import Lark, Token
from lark.exceptions import UnexpectedToken

CASES = [
    # (grammar, tokens fed before the check)
    ('start: "a" number\n%import python.number\n', [('A', 'a')]),
    ('start: "a" "中" "b"\n', [('A', 'a')]),
]

bad = False
for grammar, prefix in CASES:
    parser = Lark(grammar, parser='lalr')
    ip = parser.parse_interactive('')
    for type_, value in prefix:
        ip.feed_token(Token(type_, value))

    really_accepted = set()
    for name in [t.name for t in parser.terminals] + ['$END']:
        fork = ip.copy()
        try:
            fork.feed_token(Token(name, ''))
        except UnexpectedToken:
            continue
        really_accepted.add(name)

    reported = ip.accepts()
    if reported != really_accepted:
        bad = True
        print("grammar %r after %r:" % (grammar, prefix))
        print("   accepts() returned        :", sorted(reported))
        print("   tokens that can be fed    :", sorted(really_accepted))

if bad:
    print("FAIL: accepts() is not the set of terminals for which feed_token succeeds")
    sys.exit(1)
print("ok")
