"""resume_parse() after an error does not continue as the parse would when a postlexer is used:
every resume calls lexer.lex() again, PostLexConnector.lex() calls postlex.process() again, and
Indenter.process() resets indent_level/paren_level.  The indentation context of the text consumed so far
is lost, so the rest of the input is tokenised differently (spurious _INDENT, missing _DEDENT).

Text "a\n  b b\n  c\n": the second "b" is an unexpected NAME.  Dropping that one token and resuming must
give the same tree as parsing "a\n  b\n  c\n".
"""
import sys, os; sys.path.insert(0, os.getcwd())
from lark import Lark
from lark.indenter import Indenter
from lark.exceptions import UnexpectedInput, UnexpectedToken

grammar = r'''
?start: _NL* tree
tree: NAME _NL [_INDENT tree+ _DEDENT]
%import common.CNAME -> NAME
%import common.WS_INLINE
%declare _INDENT _DEDENT
%ignore WS_INLINE
_NL: /(\r?\n[\t ]*)+/
'''

class TreeIndenter(Indenter):
    NL_type = '_NL'
    OPEN_PAREN_types = []
    CLOSE_PAREN_types = []
    INDENT_type = '_INDENT'
    DEDENT_type = '_DEDENT'
    tab_len = 8

parser = Lark(grammar, parser='lalr', postlex=TreeIndenter())
expected = parser.parse("a\n  b\n  c\n")

try:
    parser.parse("a\n  b b\n  c\n")
    print("no error?!"); sys.exit(1)
except UnexpectedToken as e:
    assert e.token == 'b' and e.token.column == 5, e
    ip = e.interactive_parser          # error state; the offending token has been consumed from the lexer

try:
    res = ip.resume_parse()
except UnexpectedInput as e2:
    print("FAIL: resume_parse() after dropping the extra NAME raised:\n%s" % e2)
    print("      (the new lex() call reset the Indenter to indent_level [0]: 'c' was tokenised as a deeper block"
          " - extra _INDENT - and one closing _DEDENT is missing)")
    sys.exit(1)
if res != expected:
    print("FAIL: resumed result differs:\n%s\nexpected\n%s" % (res.pretty(), expected.pretty()))
    sys.exit(1)
print("ok")
