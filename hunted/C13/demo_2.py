"""A token that is REJECTED by feed_token still changes the parser: the reductions made on the way are kept.
If they reach the end state (complete parse on the stack), '$END' is not accepted any more, because the
end state has no '$END' action and acceptance is only detected inside a '$END'-triggered reduction.

  grammar:  start: "a" | "(" start ")"
  tokens :  A   -> accepts() == {'$END'}  (and, because of LALR lookahead merging, RPAR is in choices())
  feed RPAR -> UnexpectedToken (correct), but now feed_eof() fails as well, accepts() == set().

Consequences checked here:
  1. the token sequence [A] followed by feed_eof no longer gives parse("a")
  2. a fork taken from that state cannot finish its own token sequence [A]
  3. Lark.parse("a )", on_error=skip) - i.e. resume_parse() after dropping the offending token, with an
     EMPTY remaining input - raises instead of returning parse("a")
"""
import sys, os; sys.path.insert(0, os.getcwd())
from lark import Lark, Token
from lark.exceptions import UnexpectedToken, UnexpectedInput

parser = Lark('start: "a" | "(" start ")"\n%ignore " "\n', parser='lalr', keep_all_tokens=True)
expected = parser.parse("a")
problems = []

ip = parser.parse_interactive('')
ip.feed_token(Token('A', 'a'))
before = ip.accepts()
try:
    ip.feed_token(Token('RPAR', ')'))
    problems.append("RPAR was accepted at top level?!")
except UnexpectedToken:
    pass                       # rejected, as it should be
after = ip.accepts()
if before != after:
    problems.append("a rejected token changed accepts(): %r -> %r" % (sorted(before), sorted(after)))

fork = ip.copy()
for name, p in (('original', ip), ('fork', fork)):
    try:
        res = p.feed_eof()
        if res != expected:
            problems.append("%s: result %r != parse('a') %r" % (name, res, expected))
    except UnexpectedToken as e:
        problems.append("%s: token sequence [A] + feed_eof raised UnexpectedToken(%r); parse('a') gives %r"
                        % (name, e.token.type, expected))

try:
    res = parser.parse("a )", on_error=lambda e: True)     # drop the bad token, resume
    if res != expected:
        problems.append("on_error/resume_parse result %r != %r" % (res, expected))
except UnexpectedInput as e:
    problems.append("parse('a )', on_error=skip): resume_parse() with nothing left to read raised %s(%r)"
                    % (type(e).__name__, getattr(e, 'token', None)))

if problems:
    print("FAIL")
    for p in problems:
        print(" -", p)
    sys.exit(1)
print("ok")
