"""Forks are not independent when a postlexer is configured: copy() duplicates the LexerThread/LexerState,
but all copies lex through the one PostLex object (lark.indenter.Indenter keeps indent_level/paren_level
on itself and process() resets them).  Letting a fork read its input changes what the ORIGINAL parser
reads afterwards.
"""
import sys, os; sys.path.insert(0, os.getcwd())
from lark import Lark
from lark.indenter import Indenter
from lark.exceptions import UnexpectedInput

grammar = r'''
?start: _NL* tree
tree: NAME _NL [_INDENT tree+ _DEDENT]
%import common.CNAME -> NAME
%import common.WS_INLINE
%declare _INDENT _DEDENT
%ignore WS_INLINE
_NL: /(\r?\n[\t ]*)+/
'''

class TreeIndenter(Indenter):
    NL_type = '_NL'
    OPEN_PAREN_types = []
    CLOSE_PAREN_types = []
    INDENT_type = '_INDENT'
    DEDENT_type = '_DEDENT'
    tab_len = 8

parser = Lark(grammar, parser='lalr', postlex=TreeIndenter())
text = "a\n  b\n  c\n"
expected = parser.parse(text)

def run(with_fork):
    ip = parser.parse_interactive(text)
    tokens = ip.lexer_thread.lex(ip.parser_state)
    for _ in range(4):                 # NAME a, _NL, _INDENT, NAME b   (we are inside the indented block)
        ip.feed_token(next(tokens))
    if with_fork:
        fork = ip.copy()               # own LexerThread, own ParserState ...
        try:
            fork.exhaust_lexer()       # ... but lexing goes through the shared Indenter
            fork.feed_eof()
        except UnexpectedInput:
            pass                       # (the fork itself is derailed as well, see demo_4; not the point here)
    for tok in tokens:                 # the original goes on reading ITS OWN lexer thread
        ip.feed_token(tok)
    return ip.feed_eof()

assert run(False) == expected
try:
    res = run(True)
except UnexpectedInput as e:
    print("FAIL: the original parser was derailed by the further evolution of its fork:\n%s" % e)
    sys.exit(1)
if res != expected:
    print("FAIL: result differs", res); sys.exit(1)
print("ok")
