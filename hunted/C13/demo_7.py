"""ImmutableInteractiveParser ("operations create a new instance instead of changing it in-place") inherits
resume_parse() and iter_parse() unchanged from InteractiveParser:
  - resume_parse() runs the main loop on the instance's own ParserState/LexerThread, i.e. it consumes the
    immutable parser itself; forks taken from it afterwards start from the consumed state.
  - iter_parse() advances the instance's own lexer while feed_token() (overridden) never advances its parser
    state, so with the default contextual lexer valid input is reported as an UnexpectedToken.
"""
import sys, os; sys.path.insert(0, os.getcwd())
from lark import Lark, Token
from lark.exceptions import UnexpectedInput

parser = Lark('start: A B C\nA: "a"\nB: "b"\nC: "c"\n%ignore " "\n', parser='lalr')
expected = parser.parse('a b c')
problems = []

imm = parser.parse_interactive('a b c').as_immutable()
before = imm.accepts()
res = imm.resume_parse()
assert res == expected
after = imm.accepts()
if before != after:
    problems.append("resume_parse() changed the immutable parser in place: accepts() %r -> %r"
                    % (sorted(before), sorted(after)))
try:
    imm.feed_token(Token('A', 'a'))          # a fork of the (supposedly untouched) start state
except UnexpectedInput as e:
    problems.append("a fork taken after resume_parse() no longer starts from the immutable parser's state: %r rejected"
                    % e.token)

imm = parser.parse_interactive('a b c').as_immutable()
try:
    list(imm.iter_parse())
except UnexpectedInput as e:
    problems.append("iter_parse() on an ImmutableInteractiveParser rejects valid input: %s %r"
                    % (type(e).__name__, e.token))

if problems:
    print("FAIL")
    for p in problems:
        print(" -", p)
    sys.exit(1)
print("ok")
