"""A terminal introduced with %declare (its tokens come from a postlexer) is kept in the tree.
Transformer.transform() calls the terminal's callback; the embedded transformer never does,
because token callbacks are collected only for terminals that have a definition."""
import sys, os; sys.path.insert(0, os.getcwd())
from lark import Lark, Transformer, Token

class PostLex:
    always_accept = ('MARK',)
    def process(self, stream):
        for t in stream:
            yield t
            if t.type == 'A':
                yield Token.new_borrow_pos('MARK', 'm', t)

class T(Transformer):
    def MARK(self, tok):
        return 'marked'
    def A(self, tok):
        return 'a-seen'

g = '''
%declare MARK
start: A MARK
A: "a"
'''
post = T().transform(Lark(g, parser='lalr', postlex=PostLex()).parse("a"))
emb = Lark(g, parser='lalr', postlex=PostLex(), transformer=T()).parse("a")
if post != emb:
    print("transform-afterwards:", repr(post))
    print("embedded            :", repr(emb))
    sys.exit(1)
