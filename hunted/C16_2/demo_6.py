"""`?start: NUM` makes Lark.parse() return a bare Token.  Transformer, Transformer_NonRecursive and
Transformer_InPlaceRecursive (and the embedded transformer) apply the NUM callback to it;
Transformer_InPlace.transform() crashes with AttributeError."""
import sys, os; sys.path.insert(0, os.getcwd())
from lark import Lark, Transformer
from lark.visitors import Transformer_NonRecursive, Transformer_InPlace, Transformer_InPlaceRecursive

g = '''
?start: NUM
NUM: /[0-9]+/
'''
def make(base):
    class T(base):
        def NUM(self, tok): return int(tok)
    return T()

results = {'embedded': Lark(g, parser='lalr', transformer=make(Transformer)).parse("7")}
for base in (Transformer, Transformer_NonRecursive, Transformer_InPlace, Transformer_InPlaceRecursive):
    parsed = Lark(g, parser='lalr').parse("7")
    try:
        results[base.__name__] = make(base).transform(parsed)
    except Exception as e:
        results[base.__name__] = 'raised %s: %s' % (type(e).__name__, e)
if len({repr(r) for r in results.values()}) != 1:
    for k, v in results.items():
        print("%-30s %r" % (k, v))
    sys.exit(1)
