"""Embedded transformer looks up (and calls) callbacks for inlined `_rules`, which never
appear in the tree, so Transformer.transform() never calls them.  A private helper method of the
transformer (or even one of Transformer's own private methods) that happens to share its name
with an inlined rule is therefore called as a rule callback, only in embedded mode."""
import sys, os; sys.path.insert(0, os.getcwd())
from lark import Lark, Transformer

def both(grammar, text, T):
    post = T().transform(Lark(grammar, parser='lalr').parse(text))
    try:
        emb = Lark(grammar, parser='lalr', transformer=T()).parse(text)
    except Exception as e:
        emb = 'raised %s: %s' % (type(e).__name__, e)
    return post, emb

bad = 0

# (a) user transformer with a private helper named like an inlined rule
class T(Transformer):
    def _pair(self, items):          # private helper, not meant as a callback
        return tuple(items)
    def start(self, children):
        return self._pair(children)

g = '''
start: _pair
_pair: A B
A: "a"
B: "b"
'''
post, emb = both(g, "ab", T)
if post != emb:
    bad = 1
    print("(a) transform-afterwards:", repr(post))
    print("(a) embedded            :", repr(emb))

# (b) no user callbacks at all: the inlined rule is named like one of Transformer's own private methods
g = '''
start: _transform_children
_transform_children: A
A: "a"
'''
post, emb = both(g, "a", Transformer)
if post != emb:
    bad = 1
    print("(b) transform-afterwards:", repr(post))
    print("(b) embedded            :", repr(emb))

sys.exit(bad)
