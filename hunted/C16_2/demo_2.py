"""Transformer(visit_tokens=False): transform() leaves tokens alone, but the same instance
given to Lark(transformer=...) has its terminal callbacks called anyway."""
import sys, os; sys.path.insert(0, os.getcwd())
from lark import Lark, Transformer

class T(Transformer):
    def NUM(self, tok):
        return int(tok)

g = '''
start: NUM
NUM: /[0-9]+/
'''
post = T(visit_tokens=False).transform(Lark(g, parser='lalr').parse("7"))
emb = Lark(g, parser='lalr', transformer=T(visit_tokens=False)).parse("7")
if post != emb:
    print("transform-afterwards:", repr(post))
    print("embedded            :", repr(emb))
    sys.exit(1)
