"""Transformer_NonRecursive: when a callback returns Discard, the parent still pops
len(tree.children) values off the stack, so it swallows results that belong to its preceding
sibling.  The other three variants agree with each other."""
import sys, os; sys.path.insert(0, os.getcwd())
import copy
from lark import Tree, Token, Discard, Transformer
from lark.visitors import Transformer_NonRecursive, Transformer_InPlace, Transformer_InPlaceRecursive

def make(base):
    class T(base):
        def x(self, ch): return Discard
        def a(self, ch): return ('a', tuple(ch))
        def b(self, ch): return ('b', tuple(ch))
        def root(self, ch): return ('root', tuple(ch))
    return T()

tree = Tree('root', [Tree('a', [Token('N', '1')]),
                     Tree('b', [Tree('x', []), Token('N', '2')])])

results = {base.__name__: make(base).transform(copy.deepcopy(tree))
           for base in (Transformer, Transformer_NonRecursive, Transformer_InPlace, Transformer_InPlaceRecursive)}
if len({repr(r) for r in results.values()}) != 1:
    for k, v in results.items():
        print("%-30s %r" % (k, v))
    sys.exit(1)
