"""Root node discarded: Transformer, Transformer_NonRecursive and Transformer_InPlaceRecursive
return None, Transformer_InPlace leaks the Discard sentinel."""
import sys, os; sys.path.insert(0, os.getcwd())
from lark import Tree, Discard, Transformer
from lark.visitors import Transformer_NonRecursive, Transformer_InPlace, Transformer_InPlaceRecursive

def make(base):
    class T(base):
        def start(self, ch): return Discard
    return T()

results = {base.__name__: make(base).transform(Tree('start', []))
           for base in (Transformer, Transformer_NonRecursive, Transformer_InPlace, Transformer_InPlaceRecursive)}
if len({repr(r) for r in results.values()}) != 1:
    for k, v in results.items():
        print("%-30s %r" % (k, v))
    sys.exit(1)
