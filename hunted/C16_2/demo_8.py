"""lark.visitors.InlineTransformer (deprecated but still shipped): transform() passes children
as *args, the embedded transformer passes them as one list."""
import sys, os; sys.path.insert(0, os.getcwd())
from lark import Lark
from lark.visitors import InlineTransformer

class T(InlineTransformer):
    def start(self, a, b):
        return (str(a), str(b))

g = 'start: A B\nA: "a"\nB: "b"'
post = T().transform(Lark(g, parser='lalr').parse("ab"))
try:
    emb = Lark(g, parser='lalr', transformer=T()).parse("ab")
except Exception as e:
    emb = 'raised %s: %s' % (type(e).__name__, e)
if post != emb:
    print("transform-afterwards:", repr(post))
    print("embedded            :", repr(emb))
    sys.exit(1)
