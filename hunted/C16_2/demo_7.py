"""Tree with a shared subtree object (Tree.iter_subtrees documents that lark trees may be DAGs):
Transformer_InPlace calls a parent's child callback before that child's own children were
transformed (order of iter_subtrees is not children-first when a node is reachable at two depths)."""
import sys, os; sys.path.insert(0, os.getcwd())
from lark import Tree, Token, Transformer
from lark.visitors import Transformer_NonRecursive, Transformer_InPlace, Transformer_InPlaceRecursive

def make(base):
    class T(base):
        def N(self, tok): return int(tok)
        def b(self, ch): return ('b', tuple(ch))
        def a(self, ch): return ('a', tuple(ch))
        def root(self, ch): return ('root', tuple(ch))
    return T()

def mktree():
    b = Tree('b', [Token('N', '1')])
    return Tree('root', [Tree('a', [b]), b])

results = {base.__name__: make(base).transform(mktree())
           for base in (Transformer, Transformer_NonRecursive, Transformer_InPlace, Transformer_InPlaceRecursive)}
if len({repr(r) for r in results.values()}) != 1:
    for k, v in results.items():
        print("%-30s %r" % (k, v))
    sys.exit(1)
