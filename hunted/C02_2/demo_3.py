"""C02: constructing the LALR parser for a legal, conflict-free (LR(0)-ish) grammar raises RecursionError.

    a1: B a2 | X      a2: B a3 | X    ...    aN: B a1 | X        (language: B* X)

There is no conflict of any kind, so construction must succeed and parse() must accept every B* X.
But the `includes` relation of the DeRemer-Pennello computation forms one ring through the N states, and
lalr_analysis.traverse() (the digraph SCC walk) is recursive with one Python frame per relation edge, so
for N around 1000 the constructor dies with RecursionError (not a GrammarError, and the Earley parser builds
the same grammar fine).  A plain chain of unit rules a1: a2, a2: a3, ... does the same, depending on set order.
"""
import sys, os; sys.path.insert(0, os.getcwd())
from lark import Lark
from lark.exceptions import GrammarError, UnexpectedInput

N = 1500
lines = ['start: a1']
for i in range(1, N + 1):
    lines.append('a%d: B a%d | X' % (i, i % N + 1))
lines += ['B: "b"', 'X: "x"']
GRAMMAR = '\n'.join(lines)

bad = []
for lexer in ('basic', 'contextual'):
    try:
        p = Lark(GRAMMAR, parser='lalr', lexer=lexer)
    except GrammarError as e:
        bad.append('%s: conflict-free grammar rejected: %s' % (lexer, str(e)[:100]))
        continue
    except RecursionError as e:
        import traceback
        fr = traceback.extract_tb(e.__traceback__)[-1]
        bad.append('%s: construction raised RecursionError in %s:%s for a conflict-free grammar of %d rules'
                   % (lexer, os.path.basename(fr.filename), fr.name, 2 * N + 1))
        continue
    for s in ('x', 'bbbx'):
        try:
            p.parse(s)
        except UnexpectedInput:
            bad.append('%s: sentence %r rejected' % (lexer, s))

if bad:
    print('\n'.join(bad))
    sys.exit(1)
print('ok')
