"""C02: parse() never returns on a 2-token sentence when a reduce/reduce conflict is won, by priority,
by a unit-cycle rule.

    start: A n1
    n1.2: B | n1

The state {start -> A n1 . , n1 -> n1 .} has two rules competing for $END; n1 (priority 2) is the strict
winner, so construction succeeds.  The grammar has no shift/reduce conflict and "ab" is a sentence (A B),
but the parser reduces n1 -> n1 for ever: parse("ab") neither accepts nor rejects.
"""
import sys, os; sys.path.insert(0, os.getcwd())
import signal
from lark import Lark
from lark.exceptions import UnexpectedInput, GrammarError

GRAMMAR = '''
start: A n1
n1.2: B | n1
A: "a"
B: "b"
'''

class Hang(Exception):
    pass

def on_alarm(*a):
    raise Hang()

signal.signal(signal.SIGALRM, on_alarm)

bad = []
for lexer in ('basic', 'contextual'):
    try:
        p = Lark(GRAMMAR, parser='lalr', lexer=lexer)
    except GrammarError:
        continue            # reporting the conflict would be fine
    signal.alarm(5)
    try:
        p.parse('ab')       # a sentence of the grammar: accepted -> fine
    except UnexpectedInput as e:
        bad.append('%s: the sentence "ab" was rejected: %s' % (lexer, type(e).__name__))
    except Hang:
        bad.append('%s: parse("ab") did not return within 5 s (endless reduce of n1 -> n1)' % lexer)
    finally:
        signal.alarm(0)

if bad:
    print('\n'.join(bad))
    sys.exit(1)
print('ok')
