"""C02: a token whose type is the NAME OF A RULE is consumed by the LALR parser as if it were that rule.

The parse table keeps shifts (on terminals) and gotos (on nonterminals) in one dict keyed by symbol name,
and ParserState.feed_token looks the incoming token's type up in it without checking that it names a terminal.
So the token string  [a, X]  (where `a` is a rule, not a terminal) is accepted by a grammar whose language
is {Y Y X}; the automaton of the grammar has no transition that consumes a token `a`.
"""
import sys, os; sys.path.insert(0, os.getcwd())
from lark import Lark, Token
from lark.exceptions import UnexpectedInput

GRAMMAR = '''
start: a X
a: Y Y
X: "x"
Y: "y"
'''

def retype(tok):          # a lexer callback may set any token type (documented use of lexer_callbacks)
    return Token.new_borrow_pos('a', tok.value, tok)

bad = []
for lexer in ('basic', 'contextual'):
    # 1. through parse(): the lexer delivers the token string [a, X]
    p = Lark(GRAMMAR, parser='lalr', lexer=lexer, lexer_callbacks={'Y': retype})
    try:
        tree = p.parse('yx')
        bad.append('%s: parse() accepted the token string [a, X], which is not in the language {Y Y X}: %r' % (lexer, tree))
    except UnexpectedInput:
        pass

    # 2. through the interactive parser: accepts() says only Y can be consumed, feed_token consumes `a` anyway
    p = Lark(GRAMMAR, parser='lalr', lexer=lexer)
    ip = p.parse_interactive('')
    acc = ip.accepts()
    try:
        ip.feed_token(Token('a', '?'))
        consumed = True
    except UnexpectedInput:
        consumed = False
    if consumed and 'a' not in acc:
        bad.append('%s: accepts()=%r but feed_token(Token("a")) was consumed (stack depth %d)'
                   % (lexer, sorted(acc), len(ip.parser_state.state_stack)))

if bad:
    print('\n'.join(bad))
    sys.exit(1)
print('ok')
