# Tabs: CPython moves a tab to the next multiple of 8; the Indenter counts every tab as
# tab_len columns regardless of its position (spaces + tabs*tab_len).
# Line 2 is indented by 7 blanks + TAB  = column 8  (Indenter: 15)
# Line 3 is indented by 9 blanks        = column 9  (Indenter: 9)
# CPython: line 3 is nested deeper than line 2 (INDENT).  Indenter: a dedent -> DedentError/DEDENT.
import sys, os, io, tokenize; sys.path.insert(0, os.getcwd())
from lark import Lark
from lark.indenter import PythonIndenter

p = Lark.open_from_package('lark', 'python.lark', ['grammars'], parser='lalr',
                           postlex=PythonIndenter(), start='file_input')
src = "if x:\n       \tif y:\n         z\n"
compile(src, 'src', 'exec')          # CPython: fine
cpy = [tokenize.tok_name[t.type] for t in tokenize.generate_tokens(io.StringIO(src).readline)
       if t.type in (tokenize.INDENT, tokenize.DEDENT)]
try:
    lrk = [t.type.strip('_') for t in p.lex(src) if t.type in ('_INDENT', '_DEDENT')]
except Exception as e:
    print("CPython emits %r, Indenter raises %s: %s" % (cpy, type(e).__name__, e)); sys.exit(1)
if lrk != cpy:
    print("CPython emits %r, Indenter emits %r" % (cpy, lrk)); sys.exit(1)
print("ok")
