# With use_bytes=True the Token's str content is the repr "b'\\n  '" (only .value holds the
# bytes).  Indenter.handle_NL works on the str content, finds no '\n' in it and raises
# IndexError on the first newline: no INDENT/DEDENT structure is produced for bytes input.
import sys, os; sys.path.insert(0, os.getcwd())
from lark import Lark
from lark.indenter import Indenter

class TreeIndenter(Indenter):
    NL_type = '_NL'
    OPEN_PAREN_types = []
    CLOSE_PAREN_types = []
    INDENT_type = '_INDENT'
    DEDENT_type = '_DEDENT'
    tab_len = 8

grammar = r"""
start: (_NL | stmt)*
stmt: NAME _NL | NAME ":" _NL _INDENT stmt+ _DEDENT
NAME: /[a-z]+/
_NL: /(\r?\n[\t ]*)+/
%ignore /[\t ]+/
%declare _INDENT _DEDENT
"""
text = "a:\n  b\nc\n"
ref = [t.type for t in Lark(grammar, parser='lalr', lexer='basic', postlex=TreeIndenter()).lex(text)]
pb = Lark(grammar, parser='lalr', lexer='basic', postlex=TreeIndenter(), use_bytes=True)
try:
    got = [t.type for t in pb.lex(text.encode('ascii'))]
except Exception as e:
    print("bytes input: %s: %s   (str input gives %r)" % (type(e).__name__, e, ref)); sys.exit(1)
if got != ref:
    print("bytes input gives %r, str input gives %r" % (got, ref)); sys.exit(1)
print("ok")
