# A _NEWLINE token of python.lark may END with a comment (last line of the file is a
# comment without trailing newline).  Indenter.handle_NL then counts the blanks/tabs
# INSIDE THE COMMENT TEXT as indentation.
# CPython ignores comment-only lines for indentation: both sources compile fine and
# produce no INDENT / no error for the comment line.
import sys, os; sys.path.insert(0, os.getcwd())
from lark import Lark
from lark.indenter import PythonIndenter

p = Lark.open_from_package('lark', 'python.lark', ['grammars'], parser='lalr',
                           postlex=PythonIndenter(), start='file_input')
bad = []

src1 = "x = 1\n# a b c d"            # comment at column 0, 4 blanks inside the comment
compile(src1, 'src1', 'exec')        # CPython: fine
kinds = [t.type for t in p.lex(src1) if t.type in ('_INDENT', '_DEDENT')]
if kinds != []:
    bad.append("src1 %r: expected no INDENT/DEDENT, got %r" % (src1, kinds))

src2 = "if x:\n    y\n  # comment"   # comment line indented by 2, block indented by 4
compile(src2, 'src2', 'exec')        # CPython: fine
try:
    kinds = [t.type for t in p.lex(src2) if t.type in ('_INDENT', '_DEDENT')]
    if kinds != ['_INDENT', '_DEDENT']:
        bad.append("src2 %r: expected [_INDENT, _DEDENT], got %r" % (src2, kinds))
except Exception as e:
    bad.append("src2 %r: %s: %s" % (src2, type(e).__name__, e))

if bad:
    print("\n".join(bad)); sys.exit(1)
print("ok")
