# When a parse is resumed after an error (Lark.parse(..., on_error=...), or
# InteractiveParser.resume_parse()/exhaust_lexer() after tokens were already consumed),
# the rest of the SAME token stream is run through Indenter.process() again, which resets
# indent_level/paren_level.  The levels opened before the error are forgotten: their
# DEDENTs are never emitted (INDENT/DEDENT unbalanced at the end of the stream).
import sys, os; sys.path.insert(0, os.getcwd())
from lark import Lark
from lark.indenter import Indenter

class TreeIndenter(Indenter):
    NL_type = '_NL'
    OPEN_PAREN_types = []
    CLOSE_PAREN_types = []
    INDENT_type = '_INDENT'
    DEDENT_type = '_DEDENT'
    tab_len = 8

grammar = r"""
start: (_NL | stmt)*
stmt: NAME _NL | NAME ":" _NL _INDENT stmt+ _DEDENT
NAME: /[a-z]+/
_NL: /(\r?\n[\t ]*)+/
%ignore /[\t ]+/
%declare _INDENT _DEDENT
"""
p = Lark(grammar, parser='lalr', postlex=TreeIndenter())

text = "a:\n  b\n  c !\nd\n"        # the stray '!' is skipped by on_error
expected = p.parse(text.replace('!', ''))
try:
    got = p.parse(text, on_error=lambda e: True)
except Exception as e:
    print("after skipping the bad character the DEDENT closing block 'a:' is never emitted:")
    print("%s: %s" % (type(e).__name__, e)); sys.exit(1)
if got != expected:
    print("different tree:\n%s\nexpected:\n%s" % (got.pretty(), expected.pretty())); sys.exit(1)
print("ok")
