# Form feed at the start of a line: CPython resets the column to 0 at a form feed and goes on
# counting, so "\f  z" is indented by 2 and stays inside the block.  python.lark's _NEWLINE
# (/\r?\n[\t ]*/) stops at the form feed, the rest is %ignore'd, so the Indenter sees column 0
# and closes the block: z ends up OUTSIDE the if.
import sys, os, io, tokenize; sys.path.insert(0, os.getcwd())
from lark import Lark
from lark.indenter import PythonIndenter

p = Lark.open_from_package('lark', 'python.lark', ['grammars'], parser='lalr',
                           postlex=PythonIndenter(), start='file_input')
src = "if x:\n  y\n\f  z\n"
compile(src, 'src', 'exec')          # CPython: fine
def shape_cpy(src):
    out = []
    for t in tokenize.generate_tokens(io.StringIO(src).readline):
        if t.type in (tokenize.INDENT, tokenize.DEDENT): out.append(tokenize.tok_name[t.type])
        elif t.type == tokenize.NAME: out.append(t.string)
    return out
def shape_lark(src):
    out = []
    for t in p.lex(src):
        if t.type in ('_INDENT', '_DEDENT'): out.append(t.type.strip('_'))
        elif t.type in ('NAME', 'IF'): out.append(str(t))
    return out
a, b = shape_cpy(src), shape_lark(src)
if a != b:
    print("source %r:\n CPython  %r\n Indenter %r" % (src, a, b)); sys.exit(1)
print("ok")
