# A closing bracket without an opening one makes the Indenter fail an `assert`
# (AssertionError, not a LarkError / DedentError); under `python -O` paren_level silently
# becomes -1 and a later, properly bracketed newline is no longer suppressed.
import sys, os; sys.path.insert(0, os.getcwd())
from lark import Lark
from lark.exceptions import LarkError
from lark.indenter import PythonIndenter

p = Lark.open_from_package('lark', 'python.lark', ['grammars'], parser='lalr',
                           postlex=PythonIndenter(), start='file_input')
src = "x )\ny = (1,\n   2)\n"
try:
    kinds = [t.type for t in p.lex(src)]
except LarkError as e:
    print("ok (LarkError)", e); sys.exit(0)
except AssertionError as e:
    print("source %r: AssertionError from Indenter._process" % src); sys.exit(1)
n_nl = kinds.count('_NEWLINE')
if '_INDENT' in kinds or '_DEDENT' in kinds or n_nl != 2:
    print("source %r: newline inside the brackets of line 2 not suppressed: %r" % (src, kinds)); sys.exit(1)
print("ok")
