# Indenter.process() resets indent_level/paren_level when it is CALLED, but the tokens are
# produced lazily by the generator it returns.  A stream that was created first and consumed
# after another (abandoned) stream of the same Indenter starts with the other stream's levels:
# it emits a DEDENT that no INDENT opened.
import sys, os; sys.path.insert(0, os.getcwd())
from lark import Lark
from lark.indenter import Indenter

class TreeIndenter(Indenter):
    NL_type = '_NL'
    OPEN_PAREN_types = []
    CLOSE_PAREN_types = []
    INDENT_type = '_INDENT'
    DEDENT_type = '_DEDENT'
    tab_len = 8

grammar = r"""
start: (_NL | stmt)*
stmt: NAME _NL | NAME ":" _NL _INDENT stmt+ _DEDENT
NAME: /[a-z]+/
_NL: /(\r?\n[\t ]*)+/
%ignore /[\t ]+/
%declare _INDENT _DEDENT
"""
p = Lark(grammar, parser='lalr', lexer='basic', postlex=TreeIndenter())

flat = "a\nb\n"
reference = [t.type for t in p.lex(flat)]             # ['NAME', '_NL', 'NAME', '_NL']

s1 = p.lex(flat)                                      # created, not consumed yet
s2 = p.lex("a:\n  b:\n    c\n")
for _ in range(4):                                    # NAME COLON _NL _INDENT ... then abandoned
    next(s2)
got = [t.type for t in s1]
if got != reference:
    print("stream for %r: expected %r, got %r" % (flat, reference, got)); sys.exit(1)
print("ok")
