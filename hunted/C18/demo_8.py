# Indentation of the FIRST line: CPython's tokenizer emits an INDENT for an indented first
# line (-> "unexpected indent").  With the Indenter, leading blanks that are not preceded
# by a newline token are invisible: no INDENT is produced, and the same line preceded by an
# empty line DOES get one.
import sys, os, io, tokenize; sys.path.insert(0, os.getcwd())
from lark import Lark
from lark.indenter import PythonIndenter

p = Lark.open_from_package('lark', 'python.lark', ['grammars'], parser='lalr',
                           postlex=PythonIndenter(), start='file_input')
src = "  x = 1\ny = 2\n"
cpy = [tokenize.tok_name[t.type] for t in tokenize.generate_tokens(io.StringIO(src).readline)
       if t.type in (tokenize.INDENT, tokenize.DEDENT)]
lrk = [t.type.strip('_') for t in p.lex(src) if t.type in ('_INDENT', '_DEDENT')]
lrk2 = [t.type.strip('_') for t in p.lex("\n" + src) if t.type in ('_INDENT', '_DEDENT')]
if lrk != cpy:
    print("source %r: CPython emits %r, Indenter emits %r (and %r when an empty line is put in front)"
          % (src, cpy, lrk, lrk2))
    sys.exit(1)
print("ok")
