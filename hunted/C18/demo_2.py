# A _NEWLINE token of python.lark can consist of a comment only (no '\n' at all): a trailing
# comment on the last line of a file without final newline.  Indenter.handle_NL does
# token.rsplit('\n', 1)[1] and dies with IndexError instead of emitting nothing.
import sys, os; sys.path.insert(0, os.getcwd())
from lark import Lark
from lark.indenter import PythonIndenter

p = Lark.open_from_package('lark', 'python.lark', ['grammars'], parser='lalr',
                           postlex=PythonIndenter(), start='file_input')
src = "x = 1 # comment"
compile(src, 'src', 'exec')          # CPython: fine
try:
    kinds = [t.type for t in p.lex(src)]
except Exception as e:
    print("lexing %r raised %s: %s" % (src, type(e).__name__, e)); sys.exit(1)
if '_INDENT' in kinds or '_DEDENT' in kinds:
    print("unexpected INDENT/DEDENT: %r" % kinds); sys.exit(1)
print("ok", kinds)
