# A whitespace-only last line (no trailing newline) is a blank line: CPython's tokenizer
# emits no INDENT for it.  The Indenter emits an INDENT (and a DEDENT at end of input).
import sys, os, io, tokenize; sys.path.insert(0, os.getcwd())
from lark import Lark
from lark.indenter import PythonIndenter

p = Lark.open_from_package('lark', 'python.lark', ['grammars'], parser='lalr',
                           postlex=PythonIndenter(), start='file_input')
src = "x = 1\n  "
compile(src, 'src', 'exec')          # CPython: fine
cpy = [tokenize.tok_name[t.type] for t in tokenize.generate_tokens(io.StringIO(src).readline)
       if t.type in (tokenize.INDENT, tokenize.DEDENT)]
lrk = [t.type.strip('_') for t in p.lex(src) if t.type in ('_INDENT', '_DEDENT')]
if lrk != cpy:
    print("source %r: CPython emits %r, Indenter emits %r" % (src, cpy, lrk)); sys.exit(1)
print("ok")
