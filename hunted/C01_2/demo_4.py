import sys, os; sys.path.insert(0, os.getcwd())
from lark import Lark
from lark.exceptions import UnexpectedInput, GrammarError

def accepts(p, text):
    try:
        p.parse(text); return True
    except UnexpectedInput:
        return False

# X is declared without a pattern (empty language), so L(start) = {"b"}.
g = 'start: X "a" | "b"\n%declare X'
bad = []
for lexer in ['basic', 'dynamic', 'dynamic_complete']:
    p = Lark(g, parser='earley', lexer=lexer)
    for text, expected in [('b', True), ('a', False)]:
        try:
            got = accepts(p, text)
        except Exception as e:
            bad.append('lexer=%s text=%r: expected accept=%s, got crash %s: %s' % (lexer, text, expected, type(e).__name__, e))
            continue
        if got != expected:
            bad.append('lexer=%s text=%r: expected accept=%s, got accept=%s' % (lexer, text, expected, got))
for b in bad: print(b)
sys.exit(1 if bad else 0)
