import sys, os; sys.path.insert(0, os.getcwd())
from lark import Lark
from lark.exceptions import UnexpectedInput, GrammarError

def accepts(p, text):
    try:
        p.parse(text); return True
    except UnexpectedInput:
        return False

# T is the concatenation of the regular language {a,b} with {c}: L(T) = {ac, bc}
g = 'start: T\nT: /a|b/ "c"'
bad = []
for lexer in ['basic', 'dynamic', 'dynamic_complete']:
    p = Lark(g, parser='earley', lexer=lexer)
    for text, expected in [('ac', True), ('bc', True), ('a', False), ('b', False)]:
        got = accepts(p, text)
        if got != expected:
            bad.append('lexer=%s text=%r: expected accept=%s, got accept=%s (T compiled to regexp %r)'
                       % (lexer, text, expected, got, p.get_terminal('T').pattern.to_regexp()))
for b in bad: print(b)
sys.exit(1 if bad else 0)
