import sys, os; sys.path.insert(0, os.getcwd())
from lark import Lark
from lark.exceptions import UnexpectedInput, GrammarError

def accepts(p, text):
    try:
        p.parse(text); return True
    except UnexpectedInput:
        return False

# Only fixed strings. L(T) = {ac, abcd, abc, abbcd}; the whole input "abcd" is in L(T) and is the
# longest match of T at position 0, yet every lexer only ever sees the leftmost-first match "abc".
g = 'start: T\nT: ("a"|"ab") ("c"|"bcd")'
bad = []
for lexer in ['basic', 'dynamic', 'dynamic_complete']:
    p = Lark(g, parser='earley', lexer=lexer)
    for text, expected in [('abcd', True), ('abc', True), ('ac', True), ('abbcd', True), ('abd', False)]:
        got = accepts(p, text)
        if got != expected:
            bad.append('lexer=%s text=%r: expected accept=%s, got accept=%s' % (lexer, text, expected, got))
for b in bad: print(b)
sys.exit(1 if bad else 0)
