import sys, os; sys.path.insert(0, os.getcwd())
from lark import Lark
from lark.exceptions import UnexpectedInput, GrammarError

def accepts(p, text):
    try:
        p.parse(text); return True
    except UnexpectedInput:
        return False

import re
assert re.compile('a # c', re.X).fullmatch('a')   # a perfectly valid verbose regexp
g = 'start: T\nT: /a # c/x'
bad = []
for lexer in ['basic', 'dynamic', 'dynamic_complete']:
    try:
        p = Lark(g, parser='earley', lexer=lexer)
    except Exception as e:
        bad.append('lexer=%s: construction failed with %s: %s' % (lexer, type(e).__name__, e)); continue
    if not accepts(p, 'a'):
        bad.append('lexer=%s: "a" rejected' % lexer)
for b in bad: print(b)
sys.exit(1 if bad else 0)
