import sys, os; sys.path.insert(0, os.getcwd())
from lark import Lark
from lark.exceptions import UnexpectedInput, GrammarError

def accepts(p, text):
    try:
        p.parse(text); return True
    except UnexpectedInput:
        return False

import signal, time
class Timeout(Exception): pass
def on_alarm(*a): raise Timeout()
signal.signal(signal.SIGALRM, on_alarm)
# A tiny well-formed grammar: 30 repetitions of a two-way choice. Construction time grows ~2**n
# (n=14: ~5s, n=16: ~30s, n=18: ~135s), because the group is inlined and the alternatives multiplied out.
g = 'start: ("a"|"b")~30'
signal.alarm(60)
t0 = time.time()
try:
    p = Lark(g, parser='earley')
    signal.alarm(0)
except Timeout:
    print('constructing Lark(%r, parser="earley") did not finish within 60s (exponential in the repeat count)' % g)
    sys.exit(1)
ok = accepts(p, 'ab'*15) and not accepts(p, 'a'*29)
sys.exit(0 if ok else 1)
