import sys, os; sys.path.insert(0, os.getcwd())
from lark import Lark
from lark.exceptions import UnexpectedInput, GrammarError

def accepts(p, text):
    try:
        p.parse(text); return True
    except UnexpectedInput:
        return False

# Only fixed strings. L(T) = {a, abc, ab}; "abc" = T("ab") "c" is a sentence of start.
# dynamic_complete is documented to try every possible tokenization.
g = 'start: T "c"\nT: "a" "bc"? | "ab"'
p = Lark(g, parser='earley', lexer='dynamic_complete')
bad = []
for text, expected in [('abc', True), ('abcc', True), ('ac', True), ('abbc', False)]:
    got = accepts(p, text)
    if got != expected:
        bad.append('dynamic_complete text=%r: expected accept=%s, got accept=%s' % (text, expected, got))
for b in bad: print(b)
sys.exit(1 if bad else 0)
