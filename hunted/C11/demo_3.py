"""C11: a stand-alone / cached parser given a postlex differs from Lark(grammar, postlex=...).

`postlex` is in _LOAD_ALLOWED_OPTIONS ("These options are only used outside of load_grammar"), so it may be
passed to Lark_StandAlone(postlex=...) and it is left out of the cache key.  But Lark.__init__ uses
postlex.always_accept as `terminals_to_keep` for Grammar.compile(): a terminal that is only mentioned in
always_accept survives in the direct build, and has been pruned from the serialized terminals of a parser
that was generated/cached without that postlex.  The contextual lexer then silently skips the unknown name,
and the input is rejected.
"""
import sys, os; sys.path.insert(0, os.getcwd())
import io, types, tempfile, shutil

root = tempfile.mkdtemp()
tempfile.tempdir = root

from lark import Lark
from lark.tools.standalone import gen_standalone

GRAMMAR = r'''
start: NAME+
NAME: /[a-z]+/
COMMENT: /#[^\n]*/
%ignore " "
'''

def make_postlex(base):
    class DropComments(base):
        always_accept = ('COMMENT',)
        def process(self, stream):
            for t in stream:
                if t.type != 'COMMENT':
                    yield t
    return DropComments()

def run(parser, text):
    try:
        t = parser.parse(text)
        return ('tree', str(t.data), [(tok.type, str(tok), tok.start_pos) for tok in t.children])
    except Exception as e:
        return ('error', type(e).__name__, getattr(e, 'pos_in_stream', None))

try:
    import lark.lark
    direct = Lark(GRAMMAR, parser='lalr', postlex=make_postlex(lark.lark.PostLex))

    # stand-alone module, generated the only way the tool allows (no postlex), used the documented way
    out = io.StringIO()
    gen_standalone(Lark(GRAMMAR, parser='lalr'), out=out)
    mod = types.ModuleType('standalone_demo')
    sys.modules['standalone_demo'] = mod
    exec(compile(out.getvalue(), 'standalone_demo.py', 'exec'), mod.__dict__)
    standalone = mod.Lark_StandAlone(postlex=make_postlex(mod.PostLex))

    # cache: filled by a build without postlex, then served to a build with postlex (postlex is not part of the key)
    Lark(GRAMMAR, parser='lalr', cache=True)
    cached = Lark(GRAMMAR, parser='lalr', cache=True, postlex=make_postlex(lark.lark.PostLex))

    bad = 0
    for text in ['a b', 'a #comment', '#c']:
        ref = run(direct, text)
        for name, p in (('standalone', standalone), ('cached', cached)):
            got = run(p, text)
            if got != ref:
                bad += 1
                print('input=%r\n   direct: %r\n   %s: %r' % (text, ref, name, got))
finally:
    tempfile.tempdir = None
    shutil.rmtree(root, ignore_errors=True)

if bad:
    print('FAIL: %d differences between Lark(grammar, postlex=P) and the stand-alone / cached parser with postlex=P' % bad)
    sys.exit(1)
print('ok')
