"""C11: a parser served from the cache is the parser of a *different* grammar.

The cache key is sha256(grammar text + options + version).  It does not contain the location of the
grammar, although relative imports (%import .other) are resolved against that location.  Two grammar
files with identical text that live in different directories, next to different `other.lark` files,
therefore share one cache entry; verify_used_files() only re-checks the files of the first grammar
(which are unchanged), so the second Lark.open(..., cache=True) silently returns the first parser.
"""
import sys, os; sys.path.insert(0, os.getcwd())
import tempfile, shutil

root = tempfile.mkdtemp()
tempfile.tempdir = root          # keep lark's cache files (tempfile.gettempdir()) inside our scratch dir

from lark import Lark
from lark.exceptions import UnexpectedInput

MAIN = 'start: X+\n%import .other (X)\n'
for d, other in (('proj_a', 'X: "a"\n'), ('proj_b', 'X: "b"\n')):
    os.mkdir(os.path.join(root, d))
    with open(os.path.join(root, d, 'main.lark'), 'w') as f:
        f.write(MAIN)
    with open(os.path.join(root, d, 'other.lark'), 'w') as f:
        f.write(other)

def run(parser, text):
    try:
        t = parser.parse(text)
        return ('tree', str(t.data), [(tok.type, str(tok), tok.start_pos) for tok in t.children])
    except UnexpectedInput as e:
        return ('error', type(e).__name__, e.pos_in_stream)

try:
    Lark.open(os.path.join(root, 'proj_a', 'main.lark'), parser='lalr', cache=True)             # fills the cache
    cached = Lark.open(os.path.join(root, 'proj_b', 'main.lark'), parser='lalr', cache=True)    # same options
    direct = Lark.open(os.path.join(root, 'proj_b', 'main.lark'), parser='lalr')                # same options, no cache
    bad = 0
    for text in ['b', 'bb', 'a']:
        r1, r2 = run(direct, text), run(cached, text)
        if r1 != r2:
            bad += 1
            print('input=%r\n   direct (proj_b/main.lark): %r\n   cached (proj_b/main.lark): %r' % (text, r1, r2))
finally:
    tempfile.tempdir = None
    shutil.rmtree(root, ignore_errors=True)

if bad:
    print('FAIL: the cached parser of proj_b/main.lark behaves like the grammar in proj_a (%d differences)' % bad)
    sys.exit(1)
print('ok')
