"""C11: the cache key is an ambiguous concatenation, so different option sets share one cache entry.

lark.py builds the key from  grammar + ''.join(k + str(v) for k, v in options.items()) + version.
{start: 'x', lexer: 'basic'}  and  {start: 'xlexerbasic'}  both give "...startxlexerbasic", so the second
Lark(...) is served the parser that was built for the first one: other start symbol, other lexer.
"""
import sys, os; sys.path.insert(0, os.getcwd())
import tempfile, shutil

root = tempfile.mkdtemp()
tempfile.tempdir = root

from lark import Lark
from lark.exceptions import UnexpectedInput

GRAMMAR = 'x: "a"\nxlexerbasic: "b"\n'

def run(parser, text):
    try:
        return ('tree', str(parser.parse(text).data))
    except UnexpectedInput as e:
        return ('error', type(e).__name__, e.pos_in_stream)

try:
    Lark(GRAMMAR, parser='lalr', cache=True, start='x', lexer='basic')         # fills the cache
    cached = Lark(GRAMMAR, parser='lalr', cache=True, start='xlexerbasic')
    direct = Lark(GRAMMAR, parser='lalr', start='xlexerbasic')
    bad = 0
    for text in ['b', 'a']:
        r1, r2 = run(direct, text), run(cached, text)
        if r1 != r2:
            bad += 1
            print('input=%r\n   direct: %r\n   cached: %r' % (text, r1, r2))
    if (cached.options.start, cached.options.lexer) != (direct.options.start, direct.options.lexer):
        print('options of cached parser: start=%r lexer=%r; of direct parser: start=%r lexer=%r' % (
            cached.options.start, cached.options.lexer, direct.options.start, direct.options.lexer))
finally:
    tempfile.tempdir = None
    shutil.rmtree(root, ignore_errors=True)

if bad:
    print('FAIL: cached parser was built for other options (%d differences)' % bad)
    sys.exit(1)
print('ok')
