"""C11 (minor): trees of a loaded / cached / stand-alone parser are labelled with another type than the original's.

NonTerminal.serialize() stores str(self.name), so after Lark.load the rule names are plain str, while the
parser built from the grammar labels its trees with Token('RULE', name).  The trees compare equal, but
repr()/print of the same parse differs and `tree.data.type` only works on the original.
"""
import sys, os; sys.path.insert(0, os.getcwd())
import io
from lark import Lark

GRAMMAR = 'start: A\nA: "a"\n'
direct = Lark(GRAMMAR, parser='lalr')
buf = io.BytesIO()
Lark(GRAMMAR, parser='lalr').save(buf)
buf.seek(0)
loaded = Lark.load(buf)

t1, t2 = direct.parse('a'), loaded.parse('a')
if repr(t1) != repr(t2) or type(t1.data) is not type(t2.data):
    print('direct: %r   (data is %s)' % (t1, type(t1.data).__name__))
    print('loaded: %r   (data is %s)' % (t2, type(t2.data).__name__))
    print('FAIL: same input, differently labelled tree')
    sys.exit(1)
print('ok')
