"""C11: a parser restored with Lark.load(Lark.save(...)) rejects input that the original accepts.

Pattern.flags is a frozenset in the original, but is serialized as a list.  After loading,
lexer._create_unless evaluates `strtok.pattern.flags <= retok.pattern.flags` on two *lists*
(lexicographic order, ['i'] <= ['s'] is True) instead of on sets (subset, {'i'} <= {'s'} is False).
The case-insensitive keyword "a"i is therefore wrongly treated as embedded in NAME and dropped
from the scanner, so the upper-case spelling "A" can no longer be lexed.
"""
import sys, os; sys.path.insert(0, os.getcwd())
import io
from lark import Lark
from lark.exceptions import UnexpectedInput

GRAMMAR = r'''
start: (A | NAME)+
A: "a"i
NAME: /[a-z]+/s
%ignore " "
'''

def run(parser, text):
    try:
        t = parser.parse(text)
        return ('tree', t, [(tok.type, str(tok), tok.start_pos) for tok in t.children])
    except UnexpectedInput as e:
        return ('error', type(e).__name__, e.pos_in_stream)

bad = 0
for lexer in ('contextual', 'basic'):
    direct = Lark(GRAMMAR, parser='lalr', lexer=lexer)
    buf = io.BytesIO()
    Lark(GRAMMAR, parser='lalr', lexer=lexer).save(buf)
    buf.seek(0)
    loaded = Lark.load(buf)
    for text in ['a', 'A', 'abc A']:
        r1, r2 = run(direct, text), run(loaded, text)
        if r1 != r2:
            bad += 1
            print('lexer=%s input=%r\n   direct: %r\n   loaded: %r' % (lexer, text, r1, r2))

if bad:
    print('FAIL: the loaded parser is not observationally equal to the original (%d differences)' % bad)
    sys.exit(1)
print('ok')
