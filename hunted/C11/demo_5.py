"""C11: `python -m lark.tools.standalone -d grammar.lark` generates a module that cannot be imported.

With debug=True the LALR analysis keeps a ParseTable whose states are sets of RulePtr objects instead of an
IntParseTable.  ParseTableBase.serialize() writes those keys as they are, and gen_standalone() prints the
data with repr(): the generated module contains  {<start : * A>, ...}: {...}  and is a SyntaxError, while
Lark(grammar, parser='lalr', debug=True) parses normally.
"""
import sys, os; sys.path.insert(0, os.getcwd())
import subprocess, tempfile, shutil

root = tempfile.mkdtemp()
try:
    gfile = os.path.join(root, 'g.lark')
    with open(gfile, 'w') as f:
        f.write('start: "a"+\n')
    out = os.path.join(root, 'standalone_dbg.py')
    r = subprocess.run([sys.executable, '-m', 'lark.tools.standalone', '-d', gfile, '-o', out],
                       capture_output=True, text=True, env=dict(os.environ, PYTHONPATH=os.getcwd()))
    if r.returncode != 0:
        print('generator failed:', r.stderr[-500:])
        sys.exit(1)

    from lark import Lark
    direct = Lark(open(gfile), parser='lalr', debug=True, lexer='contextual', maybe_placeholders=False)
    ref = direct.parse('aa')

    sys.path.insert(0, root)
    try:
        import standalone_dbg
        got = standalone_dbg.Lark_StandAlone().parse('aa')
    except Exception as e:
        print('direct parser: %r' % ref)
        print('FAIL: stand-alone module generated with -d is unusable: %s: %s' % (type(e).__name__, str(e)[:200]))
        sys.exit(1)
    if str(got) != str(ref):
        print('FAIL: direct %r != standalone %r' % (ref, got))
        sys.exit(1)
finally:
    shutil.rmtree(root, ignore_errors=True)
print('ok')
