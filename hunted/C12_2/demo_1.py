"""C12: the cache key ignores `postlex`, but the cached data depends on postlex.always_accept
(Grammar.compile keeps otherwise-unused terminals named there).  A cache file written by a
build without the postlexer is served to a build with it, and the parser is not the one an
uncached build gives."""
import sys, os; sys.path.insert(0, os.getcwd())
import tempfile, logging
from lark import Lark, logger
logger.setLevel(logging.CRITICAL)

GRAMMAR = r'''
start: "a" "b"
COMMENT: /#[^\n]*\n/
'''

class DropComments:
    always_accept = ('COMMENT',)
    def process(self, stream):
        for tok in stream:
            if tok.type != 'COMMENT':
                yield tok

TEXT = "a#note\nb"

def attempt(**kw):
    try:
        return ('ok', Lark(GRAMMAR, parser='lalr', **kw).parse(TEXT))
    except Exception as e:
        return ('raised', type(e).__name__)

expected = attempt(postlex=DropComments())            # uncached reference

fn = os.path.join(tempfile.mkdtemp(), 'cache.bin')
Lark(GRAMMAR, parser='lalr', cache=fn)                  # history: same grammar built without postlex
got = attempt(postlex=DropComments(), cache=fn)       # same cache path, now with postlex

print('uncached, postlex=DropComments():', expected)
print('cached,   postlex=DropComments():', got)
if expected != got:
    print('VIOLATION: cache written for a different option set (no postlex) was served')
    sys.exit(1)
sys.exit(0)
