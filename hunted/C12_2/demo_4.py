"""C12: the cache key is sha256(grammar + ''.join(k+str(v) for options) + ...) with no separators,
so (grammar, options) pairs collide.  G1 built with start='x' and G2 = G1+'startx' built with the
default start hash alike; the second build is served the first one's parser."""
import sys, os; sys.path.insert(0, os.getcwd())
import tempfile, logging
from lark import Lark, logger
logger.setLevel(logging.CRITICAL)

G1 = 'start: "a"\nx: "b"\n//'
G2 = G1 + 'startx'            # the same two rules; only the trailing comment differs

def attempt(text, **kw):
    try:
        return ('ok', Lark(G2, parser='lalr', **kw).parse(text))
    except Exception as e:
        return ('raised', type(e).__name__)

fn = os.path.join(tempfile.mkdtemp(), 'cache.bin')
Lark(G1, start='x', parser='lalr', cache=fn)      # history: other grammar, other options, same cache path

bad = False
for text in ('a', 'b'):
    expected = attempt(text)
    got = attempt(text, cache=fn)
    print(repr(text), 'uncached:', expected, '| cached:', got)
    bad |= expected != got
if bad:
    print('VIOLATION: cache written for another grammar/option set was served')
    sys.exit(1)
sys.exit(0)
