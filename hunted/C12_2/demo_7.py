"""C12: for a grammar given as a string, `%import .mod` is resolved against the directory of the
running script (__main__.__file__), but that directory is not part of the cache key (source_path is
just '<string>') and cache=True derives the file name from the key alone.  Two programs in different
directories with the same grammar text but their own mod.lark therefore share one cache file, and the
second is served the first one's parser (its own mod.lark is never looked at)."""
import sys, os, subprocess, tempfile

LARK_DIR = os.getcwd()          # the library under test (run from its checkout)
root = tempfile.mkdtemp()
tmpdir = os.path.join(root, 'tmp'); os.mkdir(tmpdir)

SCRIPT = r'''
import sys; sys.path.insert(0, %r)
import logging
from lark import Lark, logger
logger.setLevel(logging.CRITICAL)
kw = dict(cache=True) if sys.argv[1] == 'cached' else {}
p = Lark('start: X\n%%import .mod.X\n', parser='lalr', **kw)
out = []
for text in ('one', 'two'):
    try:
        p.parse(text); out.append(text + ':ok')
    except Exception as e:
        out.append(text + ':' + type(e).__name__)
print(' '.join(out))
''' % LARK_DIR

def project(name, word):
    d = os.path.join(root, name); os.mkdir(d)
    with open(os.path.join(d, 'mod.lark'), 'w') as f:
        f.write('X: "%s"\n' % word)
    with open(os.path.join(d, 'main.py'), 'w') as f:
        f.write(SCRIPT)
    return os.path.join(d, 'main.py')

def run(script, mode):
    env = dict(os.environ, TMPDIR=tmpdir)      # keep cache=True files inside our scratch dir
    return subprocess.run([sys.executable, script, mode], env=env, capture_output=True, text=True, cwd=root).stdout.strip()

main1, main2 = project('proj1', 'one'), project('proj2', 'two')
run(main1, 'cached')                            # history: proj1 builds with cache=True
expected = run(main2, 'uncached')
got = run(main2, 'cached')
print('proj2 uncached :', expected)
print('proj2 cached   :', got)
if expected != got or not expected:
    print('VIOLATION: proj2 was served the parser cached for proj1 (other imported-file content)')
    sys.exit(1)
sys.exit(0)
