"""C12 (minor): a parser loaded from a complete, valid cache file is observably different from the
uncached build: rule names come back as plain str instead of Token('RULE', ...), so Tree.data has
another type and repr and loses its Token attributes (.type, .line, ...)."""
import sys, os; sys.path.insert(0, os.getcwd())
import tempfile, logging
from lark import Lark, logger
logger.setLevel(logging.CRITICAL)

GRAMMAR = 'start: "a"\n'
def observe(**kw):
    p = Lark(GRAMMAR, parser='lalr', **kw)
    t = p.parse('a')
    return (repr(t), type(t.data).__name__, getattr(t.data, 'type', None))

expected = observe()
fn = os.path.join(tempfile.mkdtemp(), 'cache.bin')
miss = observe(cache=fn)
hit = observe(cache=fn)
print('uncached  :', expected)
print('cache miss:', miss)
print('cache hit :', hit)
if not (expected == miss == hit):
    print('VIOLATION: the cached parser is distinguishable from the uncached one')
    sys.exit(1)
sys.exit(0)
