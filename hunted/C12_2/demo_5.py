"""C12: staleness of imports is judged only by re-hashing the paths used last time.  If the import
now resolves elsewhere (a file appeared earlier on the search path, or the file used before was
deleted and a later one takes over) the cache is still served, with the old file's content."""
import sys, os; sys.path.insert(0, os.getcwd())
import tempfile, logging
from lark import Lark, logger
logger.setLevel(logging.CRITICAL)

root = tempfile.mkdtemp()
d1, d2 = os.path.join(root, 'd1'), os.path.join(root, 'd2')
os.mkdir(d1); os.mkdir(d2)
fn = os.path.join(root, 'cache.bin')
GRAMMAR = 'start: X\n%import foo.X\n'

def write(d, body):
    with open(os.path.join(d, 'foo.lark'), 'w') as f:
        f.write(body)

def attempt(text, **kw):
    try:
        return ('ok', Lark(GRAMMAR, parser='lalr', import_paths=[d1, d2], **kw).parse(text))
    except Exception as e:
        return ('raised', type(e).__name__)

bad = False

# (a) a file appears earlier on the search path
write(d2, 'X: "old"\n')
attempt('old', cache=fn)                       # cache built from d2/foo.lark
write(d1, 'X: "new"\n')                        # now d1/foo.lark is the one imported
for text in ('old', 'new'):
    expected, got = attempt(text), attempt(text, cache=fn)
    print('(a)', repr(text), 'uncached:', expected, '| cached:', got)
    bad |= expected != got

# (b) the file used before is deleted; the import falls through to the next one
os.remove(fn)
write(d1, 'X: "one"\n'); write(d2, 'X: "two"\n')
attempt('one', cache=fn)                       # cache built from d1/foo.lark
os.remove(os.path.join(d1, 'foo.lark'))        # now d2/foo.lark is the one imported
for text in ('one', 'two'):
    expected, got = attempt(text), attempt(text, cache=fn)
    print('(b)', repr(text), 'uncached:', expected, '| cached:', got)
    bad |= expected != got

if bad:
    print('VIOLATION: stale cache served after the imported file content changed')
    sys.exit(1)
sys.exit(0)
