"""C12: with the cache file absent, Lark(..., cache=...) must behave like the uncached build.
An option that cannot be pickled (edit_terminals=<lambda>, a closure in import_paths, a local
custom lexer class...) is written into the cache payload, so the constructor raises PicklingError
(only IOError is caught around the save) and leaves a truncated cache file behind, every time."""
import sys, os; sys.path.insert(0, os.getcwd())
import tempfile, logging
from lark import Lark, logger
logger.setLevel(logging.CRITICAL)

GRAMMAR = 'start: WORD\nWORD: /[a-z]+/\n'
edit = lambda t: None        # a harmless edit_terminals callback

def attempt(**kw):
    try:
        return ('ok', Lark(GRAMMAR, parser='lalr', edit_terminals=edit, **kw).parse('abc'))
    except Exception as e:
        return ('raised', type(e).__name__)

expected = attempt()
fn = os.path.join(tempfile.mkdtemp(), 'cache.bin')
got1 = attempt(cache=fn)      # cache file absent
got2 = attempt(cache=fn)      # cache file now truncated by the failed save
print('uncached           :', expected)
print('cache file absent  :', got1)
print('cache file damaged :', got2, '(size %s)' % (os.path.getsize(fn) if os.path.exists(fn) else None))
if not (expected == got1 == got2):
    print('VIOLATION: Lark() raises only because cache= was given')
    sys.exit(1)
sys.exit(0)
