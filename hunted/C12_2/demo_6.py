"""C12: only the first line of the cache file (the key) is checked; the pickled payload has no
integrity check.  A corrupted byte inside it that still unpickles is accepted: Lark() returns a
parser for a different grammar and leaves the damaged file in place.  (About 4% of all single-bit
flips of the file behave like this; others make parse() raise IndexError/AssertionError later.)"""
import sys, os; sys.path.insert(0, os.getcwd())
import tempfile, logging
from lark import Lark, logger
logger.setLevel(logging.CRITICAL)

GRAMMAR = 'start: "hello" WORD\nWORD: /[a-z]+/\n%ignore " "\n'

def behaviour(**kw):
    p = Lark(GRAMMAR, parser='lalr', **kw)
    out = []
    for text in ('hello w', 'hellp w'):
        try:
            out.append((text, 'ok', p.parse(text)))
        except Exception as e:
            out.append((text, 'raised', type(e).__name__))
    return out

expected = behaviour()
fn = os.path.join(tempfile.mkdtemp(), 'cache.bin')
Lark(GRAMMAR, parser='lalr', cache=fn)
data = open(fn, 'rb').read()
i = data.index(b'hello')
damaged = data[:i+4] + bytes([data[i+4] ^ 0x1f]) + data[i+5:]      # one byte: 'o' -> 'p'
assert damaged[i:i+5] == b'hellp' and len(damaged) == len(data)
open(fn, 'wb').write(damaged)

got = behaviour(cache=fn)
print('uncached :', expected)
print('cached   :', got)
replaced = open(fn, 'rb').read() != damaged
print('damaged file replaced:', replaced)
if got != expected or not replaced:
    print('VIOLATION: a corrupted cache file was trusted')
    sys.exit(1)
sys.exit(0)
