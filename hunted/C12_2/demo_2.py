"""C12: the cache key ignores `edit_terminals`, but its effect is baked into the cached terminals.
A cache file written with one edit_terminals (or none) is served to a build that asks for another."""
import sys, os; sys.path.insert(0, os.getcwd())
import tempfile, logging
from lark import Lark, logger
logger.setLevel(logging.CRITICAL)

GRAMMAR = r'''
start: WORD
WORD: /[a-z]+/
'''

def upper_only(t):          # module level, so it can be pickled
    if t.name == 'WORD':
        t.pattern.value = '[A-Z]+'

def attempt(text, **kw):
    try:
        return ('ok', Lark(GRAMMAR, parser='lalr', **kw).parse(text))
    except Exception as e:
        return ('raised', type(e).__name__)

fn = os.path.join(tempfile.mkdtemp(), 'cache.bin')
Lark(GRAMMAR, parser='lalr', cache=fn, edit_terminals=upper_only)   # history: built with edit_terminals

bad = False
for text in ('abc', 'ABC'):
    expected = attempt(text)                 # uncached, no edit_terminals
    got = attempt(text, cache=fn)            # cached, no edit_terminals
    print(repr(text), 'uncached:', expected, '| cached:', got)
    bad |= expected != got
if bad:
    print('VIOLATION: cache written for a different option set (edit_terminals) was served')
    sys.exit(1)
sys.exit(0)
