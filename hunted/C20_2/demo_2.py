"""C20: rules legally named _ambig / _iambig are confused with the transformer's
internal marker trees: the rule node is dropped / re-labelled as an ambiguity, or
the transformation crashes."""
import sys, os; sys.path.insert(0, os.getcwd())
from lark import Lark, Tree, Token
from lark.parsers.earley_forest import TreeForestTransformer

failures = []

def run(grammar, text, expected):
    root = Lark(grammar, parser='earley', ambiguity='forest').parse(text)
    if root.is_ambiguous:
        failures.append('%r: root unexpectedly ambiguous' % grammar)
    for resolve in (False, True):
        try:
            got = TreeForestTransformer(resolve_ambiguity=resolve).transform(root)
        except Exception as e:
            failures.append('%r resolve_ambiguity=%s: %s: %s' % (grammar, resolve, type(e).__name__, e))
            continue
        if got != expected:
            failures.append('%r resolve_ambiguity=%s:\n        got      %r\n        expected %r' % (grammar, resolve, got, expected))

X, Y = Token('X', 'x'), Token('Y', 'y')
# single derivation start(_ambig(x)); the _ambig rule node disappears
run('start: _ambig\n_ambig: "x"\n', 'x', Tree('start', [Tree('_ambig', [X])]))
# single derivation start(_iambig(x), y); AmbiguousIntermediateExpander takes it for an intermediate ambiguity
run('start: _iambig "y"\n_iambig: "x"\n', 'xy', Tree('start', [Tree('_iambig', [X]), Y]))

if failures:
    print('forest of an unambiguous, acyclic grammar is not transformed to its single derivation tree:')
    for f in failures:
        print('  ', f)
    sys.exit(1)
print('ok')
