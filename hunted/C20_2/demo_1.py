"""C20: TreeForestTransformer cannot transform the forest of a grammar whose rule
is named like one of the transformer's own attributes (data, visit, transform,
callbacks, tree_class, ...).  _call_rule_func looks the rule name up with getattr()
on the transformer and calls whatever it finds."""
import sys, os; sys.path.insert(0, os.getcwd())
from lark import Lark, Tree, Token
from lark.parsers.earley_forest import TreeForestTransformer

failures = []
for name in ('data', 'visit', 'transform', 'callbacks', 'tree_class'):
    grammar = 'start: %s\n%s: "x"\n' % (name, name)
    for lexer in ('basic', 'dynamic'):
        root = Lark(grammar, parser='earley', lexer=lexer, ambiguity='forest').parse('x')
        expected = Tree('start', [Tree(name, [Token('X', 'x')])])   # the single derivation
        for resolve in (False, True):
            try:
                got = TreeForestTransformer(resolve_ambiguity=resolve).transform(root)
            except Exception as e:
                failures.append('rule %r, lexer=%s, resolve_ambiguity=%s: %s: %s' % (name, lexer, resolve, type(e).__name__, e))
                continue
            if got != expected:
                failures.append('rule %r, lexer=%s, resolve_ambiguity=%s: got %r expected %r' % (name, lexer, resolve, got, expected))

if failures:
    print('TreeForestTransformer fails on an unambiguous, acyclic grammar:')
    for f in failures:
        print('  ', f)
    sys.exit(1)
print('ok')
