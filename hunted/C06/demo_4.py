"""C06 (bytes): "every token satisfies text[start_pos:end_pos] == token ... for str and bytes input".
With use_bytes=True the Token (a str subclass) is built as str(<bytes>), i.e. its string content is
the *repr* "b'a\\n'" of the matched bytes.  Hence text[start_pos:end_pos] == token is False for every
token of every bytes parse (only token.value holds the bytes), and len(token) != end_pos - start_pos,
contradicting the Token docstring (end_pos is 'basically start_pos + len(token)')."""
import sys, os; sys.path.insert(0, os.getcwd())
import warnings; warnings.simplefilter('ignore')
from lark import Lark

GRAMMAR = r'''
start: A+
A: /a\n?/
'''
TEXT = b"a\na"
bad = []
for parser, lexer in [('lalr', 'basic'), ('lalr', 'contextual'), ('earley', 'dynamic'), ('earley', 'dynamic_complete')]:
    tree = Lark(GRAMMAR, parser=parser, lexer=lexer, use_bytes=True).parse(TEXT)
    for tok in tree.children:
        src = TEXT[tok.start_pos:tok.end_pos]
        if not (src == tok) or len(tok) != tok.end_pos - tok.start_pos:
            bad.append("%s/%s: text[%d:%d] = %r but token compares unequal: str(token) = %r, len(token) = %d"
                       % (parser, lexer, tok.start_pos, tok.end_pos, src, str(tok), len(tok)))
if bad:
    print("bytes input: token is not equal to the source slice it claims to cover")
    print("\n".join(bad))
    sys.exit(1)
print("ok")
