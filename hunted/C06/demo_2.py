"""C06: with ambiguity='explicit' the Earley tree builder shares sub-trees between
alternatives.  PropagatePositions writes the container_* span of an inlined ``?rule`` onto
the (shared) child's meta, so another alternative that uses the very same child directly
inherits the wrong, too-wide span: here 'd' matched only "b" (offset 1..2) but reports 0..3,
overlapping the parentheses of its own parent."""
import sys, os; sys.path.insert(0, os.getcwd())
from lark import Lark, Tree

GRAMMAR = r'''
start: a | "(" d ")"
d: b
?a: "(" b ")"
b: B
B: "b"
'''
TEXT = "(b)"
bad = []
for lexer in ('basic', 'dynamic', 'dynamic_complete'):
    tree = Lark(GRAMMAR, parser='earley', lexer=lexer, ambiguity='explicit', propagate_positions=True).parse(TEXT)
    for d in tree.find_data('d'):
        got = (d.meta.start_pos, d.meta.end_pos, d.meta.column, d.meta.end_column)
        if got != (1, 2, 2, 3):
            bad.append("%s: rule 'd' matched text[1:2] but meta (start_pos,end_pos,column,end_column) = %r" % (lexer, got))
if bad:
    print("shared sub-tree carries another alternative's container span:")
    print("\n".join(bad))
    sys.exit(1)
print("ok")
