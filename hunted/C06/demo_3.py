"""C06: with ambiguity='explicit', an '_ambig' child has no meta of its own and is skipped when
the parent's span is computed.  A rule whose first (or last, or only) child is ambiguous
therefore gets a span that does not cover the tokens of that child."""
import sys, os; sys.path.insert(0, os.getcwd())
from lark import Lark

GRAMMAR = r'''
start: x C
x: a | b
a: B
b: B
B: "b"
C: "c"
%ignore /\s+/
'''
TEXT = "b\nc"
bad = []
for lexer in ('basic', 'dynamic', 'dynamic_complete'):
    tree = Lark(GRAMMAR, parser='earley', lexer=lexer, ambiguity='explicit', propagate_positions=True).parse(TEXT)
    assert tree.data == 'start' and tree.children[0].data == '_ambig'
    m = tree.meta
    got = (m.start_pos, m.end_pos, m.line, m.column)
    if got != (0, 3, 1, 1):
        bad.append("%s: 'start' matched text[0:3] (line 1, col 1) but meta (start_pos,end_pos,line,column) = %r; "
                   "its first child spans %d..%d" % (lexer, got, tree.children[0].children[0].meta.start_pos,
                                                     tree.children[0].children[0].meta.end_pos))
if bad:
    print("parent of an _ambig node ignores that child's tokens:")
    print("\n".join(bad))
    sys.exit(1)
print("ok")
