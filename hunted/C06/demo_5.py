"""C06 with the stock Indenter post-lexer (lalr, basic and contextual lexers).
The INDENT/DEDENT tokens it inserts borrow the *whole* position of the newline token
(Token.new_borrow_pos) while carrying a different value, so
  * text[start_pos:end_pos] != token for INDENT ('  ' vs '\n  ') and DEDENT ('' vs '\n'), and
  * with propagate_positions the block that starts with INDENT begins at the start of the newline
    token that the *previous sibling* ('header') already consumed: sibling spans overlap."""
import sys, os; sys.path.insert(0, os.getcwd())
from lark import Lark, Token, Tree
from lark.indenter import Indenter

class MyIndenter(Indenter):
    NL_type = '_NL'
    OPEN_PAREN_types = []
    CLOSE_PAREN_types = []
    INDENT_type = 'INDENT'
    DEDENT_type = 'DEDENT'
    tab_len = 8

GRAMMAR = r'''
start: suite+
suite: header block
header: NAME ":" _NL
block: INDENT stmt+ DEDENT
stmt: NAME _NL
NAME: /[a-z]+/
_NL: /(\r?\n[\t ]*)+/
%declare INDENT DEDENT
%ignore " "
'''
TEXT = "a:\n  b\n  c\nd:\n  e\n"
bad = []
for lexer in ('basic', 'contextual'):
    tree = Lark(GRAMMAR, parser='lalr', lexer=lexer, postlex=MyIndenter(), propagate_positions=True).parse(TEXT)
    for sub in tree.iter_subtrees():
        for c in sub.children:
            if isinstance(c, Token) and TEXT[c.start_pos:c.end_pos] != c:
                bad.append("%s: token %s %r claims text[%d:%d] = %r" % (lexer, c.type, str(c), c.start_pos, c.end_pos, TEXT[c.start_pos:c.end_pos]))
        kids = [c for c in sub.children if isinstance(c, Tree) and not c.meta.empty]
        for a, b in zip(kids, kids[1:]):
            if a.meta.end_pos > b.meta.start_pos:
                bad.append("%s: in '%s', child '%s' spans %d..%d but next sibling '%s' starts at %d (overlap)"
                           % (lexer, sub.data, a.data, a.meta.start_pos, a.meta.end_pos, b.data, b.meta.start_pos))
if bad:
    print("Indenter tokens are not exact source coordinates:")
    print("\n".join(bad))
    sys.exit(1)
print("ok")
