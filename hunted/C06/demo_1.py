"""C06: a node's span must run from the first to the last token its rule matched, filtered
tokens included.  When a child is an inlined ``?rule`` that collapses to a bare Token
(``?atom: "(" NAME ")"``), the filtered tokens the inlined rule consumed are forgotten, so
every enclosing rule reports a span that is too small (same for lalr and earley)."""
import sys, os; sys.path.insert(0, os.getcwd())
from lark import Lark

GRAMMAR = r'''
start: atom
?atom: "(" NAME ")"
NAME: /[a-z]+/
%ignore /\s+/
'''
TEXT = "(\nab\n)"          # 'start' matched all of it: offsets 0..6, line 1 col 1 .. line 3 col 2

bad = []
for parser, lexer in [('lalr', 'basic'), ('lalr', 'contextual'), ('earley', 'basic'), ('earley', 'dynamic')]:
    tree = Lark(GRAMMAR, parser=parser, lexer=lexer, propagate_positions=True).parse(TEXT)
    m = tree.meta
    got = (m.start_pos, m.end_pos, m.line, m.column, m.end_line, m.end_column)
    want = (0, len(TEXT), 1, 1, 3, 2)
    if got != want:
        bad.append("%s/%s: 'start' matched text[0:%d] but meta says %r (expected %r)" % (parser, lexer, len(TEXT), got, want))

if bad:
    print("propagate_positions loses the filtered tokens of an inlined ?rule that collapses to a Token:")
    print("\n".join(bad))
    sys.exit(1)
print("ok")
