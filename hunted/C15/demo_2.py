# C15: str and bytes input must give the same tree.  With the stock Indenter post-lexer
# (lark.indenter.Indenter) a bytes parse crashes with IndexError, because Indenter.handle_NL
# does  token.rsplit('\n', 1)[1]  on the Token's *str* content, which for bytes input is the
# repr "b'\\n  '" and contains no newline character.
import sys, os; sys.path.insert(0, os.getcwd())
from lark import Lark
from lark.indenter import Indenter

class TreeIndenter(Indenter):
    NL_type = '_NL'
    OPEN_PAREN_types = []
    CLOSE_PAREN_types = []
    INDENT_type = '_INDENT'
    DEDENT_type = '_DEDENT'
    tab_len = 8

grammar = r'''
?start: _NL* tree
tree: NAME _NL [_INDENT tree+ _DEDENT]
NAME: /[a-z]+/
_NL: /(\r?\n[\t ]*)+/
%declare _INDENT _DEDENT
%ignore " "
'''
text = "a\n  b\n  c\n"

def shape(t):
    from lark import Tree
    if isinstance(t, Tree):
        return (str(t.data), [shape(c) for c in t.children])
    v = t.value
    return (t.type, v.decode('ascii') if isinstance(v, bytes) else v, t.start_pos, t.line, t.column)

bad = False
for lexer in ('basic', 'contextual'):
    ps = Lark(grammar, parser='lalr', lexer=lexer, postlex=TreeIndenter())
    pb = Lark(grammar, parser='lalr', lexer=lexer, postlex=TreeIndenter(), use_bytes=True)
    rs = shape(ps.parse(text))
    try:
        rb = shape(pb.parse(text.encode('ascii')))
    except Exception as e:
        rb = ('EXCEPTION', type(e).__name__, str(e))
    print(lexer, "str  :", rs)
    print(lexer, "bytes:", rb)
    if rs != rb:
        bad = True
if bad:
    print("FAIL: Indenter post-lexer gives a different outcome for bytes input than for str input")
    sys.exit(1)
print("ok")
