# C15: str and bytes must agree for ASCII input.  The same terminal regexp is compiled as a
# str pattern (Unicode semantics) or as a bytes pattern (ASCII semantics).  For the ASCII control
# characters \x1c-\x1f these differ: str-mode \s matches them, bytes-mode \s does not.
import sys, os; sys.path.insert(0, os.getcwd())
from lark import Lark
from lark.exceptions import UnexpectedInput

grammar = r'''
start: "a"+
%ignore /\s+/
'''
def run(p, inp):
    try:
        return ('ok', len(p.parse(inp).children))
    except UnexpectedInput as e:
        return ('error', type(e).__name__, e.pos_in_stream)
bad = False
text = "a\x1ca"
assert text.isascii()
for parser, lexer in [('lalr', 'contextual'), ('lalr', 'basic'), ('earley', 'dynamic')]:
    rs = run(Lark(grammar, parser=parser, lexer=lexer), text)
    rb = run(Lark(grammar, parser=parser, lexer=lexer, use_bytes=True), text.encode('ascii'))
    print(parser, lexer, "str:", rs, "bytes:", rb)
    if rs != rb:
        bad = True
if bad:
    print("FAIL: ASCII input %r accepted as str, rejected as bytes" % text)
    sys.exit(1)
print("ok")
