# C15: error position of an end-of-input rejection must be an offset/line/column in the
# underlying buffer.  For a TextSlice window that is empty (or holds only ignored text)
# the LALR parser fabricates the '$END' token at (pos 0, line 1, column 1) -- a position
# that is not even inside the window -- instead of the window start.
import sys, os; sys.path.insert(0, os.getcwd())
from lark import Lark, TextSlice
from lark.exceptions import UnexpectedInput

grammar = r'''
start: "a"+
%ignore " "
'''
buf = "xx\nyy  zz"          # window [5, 7) == "  "  (only ignored text), line 2 column 3
a, b = 5, 7
bad = []
for lexer in ('basic', 'contextual'):
    p = Lark(grammar, parser='lalr', lexer=lexer)

    try:
        p.parse(buf[a:b])
        raise SystemExit("substring unexpectedly accepted")
    except UnexpectedInput as e:
        sub = (type(e).__name__, e.pos_in_stream, e.line, e.column)     # (UnexpectedToken, 0, 1, 1)

    try:
        p.parse(TextSlice(buf, a, b))
        raise SystemExit("window unexpectedly accepted")
    except UnexpectedInput as e:
        win = (type(e).__name__, e.pos_in_stream, e.line, e.column)

    expected = (sub[0], sub[1] + a, 2, 3)     # substring result shifted by the window start
    print(lexer, "substring:", sub, "window:", win, "expected for window:", expected)
    if win != expected:
        bad.append(lexer)

    # for comparison: a *lexing* error at the very same spot is reported in buffer coordinates
    try:
        p.parse(TextSlice("xx\nyy?zz", 5, 6))
    except UnexpectedInput as e:
        print("   (UnexpectedCharacters at same spot ->", e.pos_in_stream, e.line, e.column, ")")

if bad:
    print("FAIL: $END error of an empty/ignored-only window is reported at 0/1/1, not at the window start:", bad)
    sys.exit(1)
print("ok")
