# C15: str and bytes must agree for ASCII input.  A grammar whose *text* is pure ASCII (so the
# "Grammar must be ascii only, when use_bytes=True" check passes) may still denote a character
# above U+00FF through an escape.  As str the ASCII input parses; with use_bytes=True the parser is
# constructed without complaint, and the first parse() dies with a raw UnicodeEncodeError from
# Scanner._build_mres (pattern.encode('latin-1')) instead of parsing or raising a lark error.
import sys, os; sys.path.insert(0, os.getcwd())
from lark import Lark
from lark.exceptions import LarkError

grammar = r'''
start: (A | EURO)+
A: "a"
EURO: "\u20ac"
'''
assert grammar.isascii()
bad = False
for lexer in ('basic', 'contextual'):
    rs = Lark(grammar, parser='lalr', lexer=lexer).parse('aa')
    try:
        pb = Lark(grammar, parser='lalr', lexer=lexer, use_bytes=True)   # accepted
        rb = pb.parse(b'aa')
        rb = [t.value.decode() for t in rb.children]
    except LarkError as e:
        rb = 'proper lark error: %r' % e
        continue
    except Exception as e:
        rb = '%s: %s' % (type(e).__name__, e)
    print(lexer, "str:", [t.value for t in rs.children], "bytes:", rb)
    if rb != [t.value for t in rs.children]:
        bad = True
if bad:
    print("FAIL: ASCII input parses as str, raw UnicodeEncodeError at parse time as bytes")
    sys.exit(1)
print("ok")
