# C15: str and bytes must agree for ASCII input.  With the dynamic Earley lexer and
# use_bytes=True the terminal regexps are encoded with UTF-8 (EarleyRegexpMatcher), whereas the
# basic/contextual Scanner encodes them with latin-1.  A regexp holding a non-ASCII character
# (written with an ASCII escape, so the "grammar must be ascii" check passes) followed by a
# quantifier then means something else: /\xe9?a/ becomes b'\xc3\xa9?a' (a mandatory \xc3 byte),
# so the plain ASCII input "a" is accepted as str and rejected as bytes.
import sys, os; sys.path.insert(0, os.getcwd())
from lark import Lark
from lark.exceptions import UnexpectedInput

grammar = r'''
start: /\xe9?a/
'''
def run(p, inp):
    try:
        t = p.parse(inp)
        v = t.children[0].value
        return ('ok', t.children[0].type, v.decode('latin-1') if isinstance(v, bytes) else v)
    except UnexpectedInput as e:
        return ('error', type(e).__name__, e.pos_in_stream)

bad = False
for parser, lexer in [('lalr', 'contextual'), ('earley', 'basic'), ('earley', 'dynamic'), ('earley', 'dynamic_complete')]:
    rs = run(Lark(grammar, parser=parser, lexer=lexer), 'a')
    rb = run(Lark(grammar, parser=parser, lexer=lexer, use_bytes=True), b'a')
    print(parser, lexer, "str:", rs, "bytes:", rb)
    if rs != rb:
        bad = True
if bad:
    print("FAIL: ASCII input 'a' parses as str but is rejected as bytes with the dynamic lexer")
    sys.exit(1)
print("ok")
