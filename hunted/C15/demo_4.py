# C15: a TextSlice window must behave like the extracted substring.  ParsingFrontend.parse()
# deliberately lets a TextSlice through to the dynamic Earley lexers when the slice covers the
# complete text (it only rejects partial slices), but xearley then iterates over / regex-matches
# the TextSlice object itself and dies with "TypeError: 'TextSlice' object is not iterable".
import sys, os; sys.path.insert(0, os.getcwd())
from lark import Lark, TextSlice

grammar = r'''
start: "a"+
%ignore " "
'''
text = "a a"
bad = False
for lexer in ('dynamic', 'dynamic_complete'):
    p = Lark(grammar, parser='earley', lexer=lexer)
    expected = p.parse(text)
    ts = TextSlice(text, 0, len(text))
    assert ts.is_complete_text()
    try:
        got = p.parse(ts)
    except Exception as e:
        got = '%s: %s' % (type(e).__name__, e)
    print(lexer, "str:", expected, "| complete TextSlice:", got)
    if got != expected:
        bad = True
if bad:
    print("FAIL: a complete-text TextSlice passes the frontend's check but crashes in the dynamic lexer")
    sys.exit(1)
print("ok")
