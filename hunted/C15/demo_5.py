# C15: "a window's results equal those of the extracted substring shifted by the window start".
# The lexer matches with  mre.match(buffer, pos, endpos):  endpos is a hard boundary (look-ahead,
# $ and \b cannot see past the window end) but the window start is not: look-behind, ^ and \b
# see the enclosing buffer in front of the window.  So a window is rejected although the
# extracted substring is accepted.  (NOTE: lark's own test-suite documents this asymmetry as
# inherited from python's re module, so this is probably by design.)
import sys, os; sys.path.insert(0, os.getcwd())
from lark import Lark, TextSlice
from lark.exceptions import UnexpectedInput

def run(p, inp):
    try:
        t = p.parse(inp)
        return ('ok', [(c.type, str(c)) for c in t.children])
    except UnexpectedInput as e:
        return ('error', type(e).__name__, e.pos_in_stream)

bad = False
for regexp in (r'(?<!x)ab', r'^ab', r'\bab'):
    p = Lark('start: /%s/' % regexp, parser='lalr')
    buf = "xab"
    sub = run(p, buf[1:3])
    win = run(p, TextSlice(buf, 1, 3))
    print(regexp, "substring:", sub, "window:", win)
    if sub[0] != win[0]:
        bad = True
    # the end of the window, in contrast, is opaque:
    p2 = Lark(r'start: /ab(?!x)/', parser='lalr')
    assert run(p2, "ab")[0] == run(p2, TextSlice("abx", 0, 2))[0] == 'ok'
if bad:
    print("FAIL: text before the window start influences the result")
    sys.exit(1)
print("ok")
