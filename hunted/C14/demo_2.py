"""scan() lexes each attempt against the whole remaining text (maximal munch), so a token that
reaches past the end of a valid match kills it: positions whose snippet parses are skipped,
and a reported match is not the longest one that parses.

  "foo: bar":  NAME "foo" at (0, 3) is a complete `start`, parse("foo") succeeds, but the lexer
               produces LABEL "foo:" there, the attempt fails and scan() reports only (5, 8).
  "aab":       parse("aa") succeeds, but scan() reports (0, 1): the second "a" is lexed as AB.
"""
import sys, os; sys.path.insert(0, os.getcwd())
from lark import Lark
from lark.exceptions import UnexpectedInput

failed = False

G1 = r'''
start: NAME | LABEL NUM
NAME: /[a-z]+/
LABEL: /[a-z]+:/
NUM: /[0-9]+/
%ignore " "
'''
G2 = r'''
start: (A | AB C)+
A: "a"
AB: "ab"
C: "c"
'''

def parses(p, s):
    try:
        p.parse(s)
        return True
    except UnexpectedInput:
        return False

for lexer in ('contextual', 'basic'):
    p = Lark(G1, parser='lalr', lexer=lexer)
    text = "foo: bar"
    got = [m.range for m in p.scan(text)]
    first_start = got[0][0] if got else len(text)
    if first_start > 0 and parses(p, text[0:3]):
        print("[%s] scan(%r) -> %r: position 0 was skipped although parse(%r) succeeds"
              % (lexer, text, got, text[0:3]))
        failed = True

    p = Lark(G2, parser='lalr', lexer=lexer)
    text = "aab"
    got = [m.range for m in p.scan(text)]
    if got and got[0] == (0, 1) and parses(p, text[0:2]):
        print("[%s] scan(%r) -> %r: first match is not the longest, parse(%r) succeeds"
              % (lexer, text, got, text[0:2]))
        failed = True

sys.exit(1 if failed else 0)
