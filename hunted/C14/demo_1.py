"""scan() jumps over a valid match start when the attempt made at an earlier candidate
position first lexes an %ignore'd span and then succeeds further right.

search_start() finds the "b" at 0.  The lexer, started at 0, prefers the ignored /ba/ (0..2),
then lexes A at 2 and the attempt succeeds with range (2, 3).  scan() resumes at 3, so the
"a" at position 1 is never tried, although
  * parse(text[1:2]) succeeds,
  * scan() of the very same text from position 1 yields (1, 2), and
  * scan("ba") (same text minus the last char) does report (1, 2).
"""
import sys, os; sys.path.insert(0, os.getcwd())
from lark import Lark
from lark.utils import TextSlice

GRAMMAR = r'''
start: A | B
A: "a"
B: "b"
%ignore /ba/
'''

failed = False
for lexer in ('contextual', 'basic'):
    p = Lark(GRAMMAR, parser='lalr', lexer=lexer)
    text = "baa"
    got = [m.range for m in p.scan(text)]
    # every position that scan() skipped before/between its matches
    covered = set()
    for s, e in got:
        covered.update(range(s, e))
    for pos in range(len(text)):
        if pos in covered:
            continue
        nxt = min([s for s, e in got if s > pos], default=len(text))
        # does a match start exactly at the skipped position (and fit before the next reported match)?
        first = next(iter(p.scan(TextSlice(text, pos, len(text)))), None)
        if first is not None and first.range[0] == pos and first.range[1] <= nxt:
            s, e = first.range
            assert p.parse(text[s:e]) == first.value      # the snippet parses on its own, too
            print("[%s] scan(%r) -> %r, but skipped position %d starts the match %r (parse(%r) succeeds)"
                  % (lexer, text, got, pos, first.range, text[s:e]))
            failed = True
    print("[%s] for comparison scan('ba') -> %r" % (lexer, [m.range for m in p.scan("ba")]))

sys.exit(1 if failed else 0)
