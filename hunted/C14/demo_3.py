"""search_start() only searches terminals that are not %ignore'd, but the lexer decides whether a
token is ignored *after* its callback ran.  A match whose first token comes from an ignored
terminal that a lexer callback re-types to a real terminal is therefore never found:
parse(text) succeeds on the whole text while scan(text) yields nothing.
"""
import sys, os; sys.path.insert(0, os.getcwd())
from lark import Lark

GRAMMAR = r'''
start: DOC NAME
NAME: /[a-z]+/
COMMENT: /#[^\n]*/
%declare DOC
%ignore COMMENT
%ignore /[ \n]+/
'''

def comment(t):
    # "##..." comments are documentation, and part of the grammar; plain "#..." comments are ignored
    return t.update(type='DOC') if t.startswith('##') else t

failed = False
for lexer in ('contextual', 'basic'):
    p = Lark(GRAMMAR, parser='lalr', lexer=lexer, lexer_callbacks={'COMMENT': comment})
    text = "## doc\nfoo"
    tree = p.parse(text)                       # works: start(DOC, NAME)
    got = [(m.range, m.value) for m in p.scan(text)]
    if got != [((0, len(text)), tree)]:
        print("[%s] parse(%r) = %r but scan() -> %r" % (lexer, text, tree, got))
        failed = True

sys.exit(1 if failed else 0)
