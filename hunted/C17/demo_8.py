"""C17: "for all ways of splitting a grammar into modules".

Two mutually recursive rules, each in its own module:

    m.lark:   %import .n.b
              a: "(" b ")" | "x"
    n.lark:   %import .m.a
              b: a "+" a
    main:     %import .m.a
              start: a

By hand:  a: "(" b ")" | "x"     b: a "+" a     start: a      (parses "(x+x)")
lark imports eagerly and without a visited-set, so loading never terminates: RecursionError.
"""
import sys, os; sys.path.insert(0, os.getcwd())
from lark import Lark

MODS = {'m.lark': '%import .n.b\na: "(" b ")" | "x"\n', 'n.lark': '%import .m.a\nb: a "+" a\n'}

def loader(base_path, grammar_path):
    name = grammar_path.replace(os.sep, '/')
    if name in MODS:
        return name, MODS[name]
    raise IOError(name)

Lark('a: "(" b ")" | "x"\nb: a "+" a\nstart: a\n').parse('(x+x)')
try:
    Lark('%import .m.a\nstart: a\n', import_paths=[loader]).parse('(x+x)')
except BaseException as e:
    print('hand-written grammar parses "(x+x)"; the modular grammar fails with %s: %s' % (type(e).__name__, str(e)[:100]))
    sys.exit(1)
print('ok')
