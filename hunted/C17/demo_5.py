"""C17: an explicitly imported rule builds the same tree as the written-out rule.

Module m:      a: "x" -> foo
                | "y"
Main grammar:  %import .m.a
               start: a

By hand:       a: "x" -> foo | "y"       start: a      =>  start(foo())

Only *transitively* imported rules are documented to receive the module__ prefix; `a` is
imported by name, and its alternative "y" is indeed labelled `a`.  But the alias of the
other alternative is renamed like a dependency: lark builds start(m__foo()).  Whether the
label is prefixed even depends on unrelated imports: if the module also happens to have a
rule called foo and it is imported too, the alias label stays `foo`.
"""
import sys, os; sys.path.insert(0, os.getcwd())
from lark import Lark, Tree

MODS = {'m.lark': 'a: "x" -> foo\n | "y"\nfoo: "z"\n'}

def loader(base_path, grammar_path):
    name = grammar_path.replace(os.sep, '/')
    if name in MODS:
        return name, MODS[name]
    raise IOError(name)

hand = Lark('a: "x" -> foo\n | "y"\nstart: a\n')
imp = Lark('%import .m.a\nstart: a\n', import_paths=[loader])
imp2 = Lark('%import .m (a, foo)\nstart: a | foo\n', import_paths=[loader])
bad = []
for text in ('x', 'y'):
    want, got, got2 = hand.parse(text), imp.parse(text), imp2.parse(text)
    if got != want:
        bad.append('input %r: "%%import .m.a" builds %r, hand-written grammar builds %r (and "%%import .m (a, foo)" builds %r)' % (text, got, want, got2))
if bad:
    print('\n'.join(bad))
    sys.exit(1)
print('ok')
