"""C17: template instantiation must mean what textual substitution means.

    !start: t{"x"} b
    b: t{"x"}
    t{a}: a

By hand:   !start: t1 b     b: t1     t1: "x"
t1 is not a '!' rule, so it filters its anonymous token: start(t1(), b(t1())).

In lark the argument symbol is built while the *using* rule is processed; when that rule is
a '!' rule the symbol is marked "keep", the marked symbol is substituted into the template
body, and the instance is cached under "t{X}".  So the non-'!' template instance keeps the
token - also for rule b, which is not a '!' rule either.  Listing rule b before start gives
the other result: what a template instance builds depends on the order of the rules.
"""
import sys, os; sys.path.insert(0, os.getcwd())
from lark import Lark, Tree

def plain(t):
    if isinstance(t, Tree):
        return (str(t.data), [plain(c) for c in t.children])
    return (str(t.type), str(t))

def relabel(t):
    name, ch = t
    if isinstance(ch, list):
        return ('t' if name == 't1' else name, [relabel(c) for c in ch])
    return t

bad = []
for parser in ('earley', 'lalr'):
    hand = relabel(plain(Lark('!start: t1 b\nb: t1\nt1: "x"\n', parser=parser).parse('xx')))
    g1 = plain(Lark('!start: t{"x"} b\nb: t{"x"}\nt{a}: a\n', parser=parser).parse('xx'))
    g2 = plain(Lark('b: t{"x"}\n!start: t{"x"} b\nt{a}: a\n', parser=parser).parse('xx'))
    if g1 != hand:
        bad.append('%s: "!start" listed first: %r, written out by hand: %r' % (parser, g1, hand))
    if g2 != hand:
        bad.append('%s: "b" listed first: %r, written out by hand: %r' % (parser, g2, hand))
    if g1 != g2:
        bad.append('%s: the same grammar with its rules listed in another order builds a different tree' % parser)

if bad:
    print('\n'.join(bad))
    sys.exit(1)
print('ok')
