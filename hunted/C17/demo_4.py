"""C17: %extend of an imported template must mean what extending the written-out template means.

Module m:      lst{x}: x+
Main grammar:  %import .m.lst
               %extend lst{x}: "[" x "]"
               start: lst{A}
               A: "a"

By hand:       lst{x}: x+
               %extend lst{x}: "[" x "]"        (accepted, parses "[a]")

With the import, lark renames the parameters of the imported template (x -> m__x) but
compares them with the un-renamed parameters of the %extend statement, and rejects the
grammar with "Cannot extend rule with different parameters" although they are identical.
"""
import sys, os; sys.path.insert(0, os.getcwd())
from lark import Lark

MODS = {'m.lark': 'lst{x}: x+\n'}

def loader(base_path, grammar_path):
    name = grammar_path.replace(os.sep, '/')
    if name in MODS:
        return name, MODS[name]
    raise IOError(name)

hand = Lark('lst{x}: x+\n%extend lst{x}: "[" x "]"\nstart: lst{A}\nA: "a"\n')
want = [hand.parse('[a]'), hand.parse('aa')]
try:
    imp = Lark('%import .m.lst\n%extend lst{x}: "[" x "]"\nstart: lst{A}\nA: "a"\n', import_paths=[loader])
    got = [imp.parse('[a]'), imp.parse('aa')]
except Exception as e:
    print('hand-written grammar is accepted and parses "[a]"; the grammar that imports the template fails: %s: %s' % (type(e).__name__, e))
    sys.exit(1)
if got != want:
    print('trees differ: %r vs %r' % (got, want))
    sys.exit(1)
print('ok')
