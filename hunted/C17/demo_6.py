"""C17: importing with and without renaming.

Module m:      a: "x"
Main grammar:  %import .m.a
               %import .m.a -> a2
               start: a a2

By hand this is two copies of the rule:  a: "x"   a2: "x"   start: a a2.
lark merges the import statements of one module into a single {name: alias} dict, so the
second statement silently replaces the first one; `a` is never defined and the grammar is
rejected with "Rule 'a' used but not defined".
"""
import sys, os; sys.path.insert(0, os.getcwd())
from lark import Lark

MODS = {'m.lark': 'a: "x"\n'}

def loader(base_path, grammar_path):
    name = grammar_path.replace(os.sep, '/')
    if name in MODS:
        return name, MODS[name]
    raise IOError(name)

want = Lark('a: "x"\na2: "x"\nstart: a a2\n').parse('xx')
try:
    got = Lark('%import .m.a\n%import .m.a -> a2\nstart: a a2\n', import_paths=[loader]).parse('xx')
except Exception as e:
    print('hand-written grammar builds %r; grammar with the two import statements fails: %s: %s' % (want, type(e).__name__, e))
    sys.exit(1)
if got != want:
    print('trees differ: %r vs %r' % (got, want))
    sys.exit(1)
print('ok')
