"""C17: template instantiation must mean what textual substitution means.

    start: t{"x"} t{X}
    t{a}: a
    X: "x"

By hand:   start: t1 t2     t1: "x"     t2: X     X: "x"
t1 drops its anonymous token, t2 keeps the named token X.

lark names a template instance after the *names* of the argument symbols; the anonymous
"x" gets the name of the terminal X, so both usages map to the single instance "t{X}" and
whichever usage comes first decides whether the token is kept in *both*.
"""
import sys, os; sys.path.insert(0, os.getcwd())
from lark import Lark, Tree

def plain(t):
    if isinstance(t, Tree):
        return (str(t.data), [plain(c) for c in t.children])
    return (str(t.type), str(t))

def relabel(t):   # hand-written instances are called t1/t2, lark labels instances 't'
    name, ch = t
    if isinstance(ch, list):
        return ('t' if name in ('t1', 't2') else name, [relabel(c) for c in ch])
    return t

bad = []
for parser in ('earley', 'lalr'):
    for first, second, h1, h2 in [('t{"x"}', 't{X}', 't1', 't2'), ('t{X}', 't{"x"}', 't2', 't1')]:
        templ = Lark('start: %s %s\nt{a}: a\nX: "x"\n' % (first, second), parser=parser)
        hand = Lark('start: %s %s\nt1: "x"\nt2: X\nX: "x"\n' % (h1, h2), parser=parser)
        got, want = plain(templ.parse('xx')), relabel(plain(hand.parse('xx')))
        if got != want:
            bad.append('%s: start: %s %s  ->  %r, written out by hand -> %r' % (parser, first, second, got, want))

if bad:
    print('\n'.join(bad))
    sys.exit(1)
print('ok')
