"""C17: %import with renaming must mean what textual renaming means.

Module m:      a: _X        _X: "x"
Main grammar:  %import .m.a
               %import .m._X -> Y
               start: a Y

Written out by hand (with the rename applied) this is
               a: Y    Y: "x"    start: a Y
where Y has no leading underscore, so the token is kept everywhere.
lark decides "filter this terminal out" from the name the terminal had *before*
the rename, so inside the imported rule `a` the token Y is silently dropped, while the
very same terminal Y is kept in `start`.  (Symmetrically, X -> _Y is kept inside
imported rules although _Y is a filtered name.)
"""
import sys, os; sys.path.insert(0, os.getcwd())
from lark import Lark, Tree, Token

MODS = {'m.lark': 'a: _X\n_X: "x"\n', 'k.lark': 'a: X\nX: "x"\n'}

def loader(base_path, grammar_path):
    name = grammar_path.replace(os.sep, '/')
    if name in MODS:
        return name, MODS[name]
    raise IOError(name)

def plain(t):
    if isinstance(t, Tree):
        return (str(t.data), [plain(c) for c in t.children])
    return (str(t.type), str(t))

bad = []
for parser in ('earley', 'lalr'):
    imported = Lark('%import .m.a\n%import .m._X -> Y\nstart: a Y\n', import_paths=[loader], parser=parser)
    by_hand = Lark('a: Y\nY: "x"\nstart: a Y\n', parser=parser)
    got, want = plain(imported.parse('xx')), plain(by_hand.parse('xx'))
    if got != want:
        bad.append('%s: %%import .m._X -> Y: imported grammar builds %r, hand-written grammar builds %r' % (parser, got, want))

    imported = Lark('%import .k.a\n%import .k.X -> _Y\nstart: a _Y\n', import_paths=[loader], parser=parser)
    by_hand = Lark('a: _Y\n_Y: "x"\nstart: a _Y\n', parser=parser)
    got, want = plain(imported.parse('xx')), plain(by_hand.parse('xx'))
    if got != want:
        bad.append('%s: %%import .k.X -> _Y: imported grammar builds %r, hand-written grammar builds %r' % (parser, got, want))

if bad:
    print('\n'.join(bad))
    sys.exit(1)
print('ok')
