"""C17: the same module named once as a library import and once as a relative import.

    %import .m.a
    %import m.b
    start: a b

Both statements resolve to the same m.lark (found through import_paths).  By hand:
a: "x"   b: "y"   start: a b.   lark keys its import table by the dotted path only and then
trips over its own `assert base_path == import_base_path`: AssertionError, not a GrammarError.
"""
import sys, os; sys.path.insert(0, os.getcwd())
from lark import Lark

MODS = {'m.lark': 'a: "x"\nb: "y"\n'}

def loader(base_path, grammar_path):
    name = grammar_path.replace(os.sep, '/')
    if name in MODS:
        return name, MODS[name]
    raise IOError(name)

want = Lark('a: "x"\nb: "y"\nstart: a b\n').parse('xy')
for g in ('%import .m.a\n%import .m.b\nstart: a b\n', '%import m.a\n%import m.b\nstart: a b\n'):
    assert Lark(g, import_paths=[loader]).parse('xy') == want
try:
    got = Lark('%import .m.a\n%import m.b\nstart: a b\n', import_paths=[loader]).parse('xy')
except Exception as e:
    print('each import style works on its own; mixed they fail with %s: %s' % (type(e).__name__, e))
    sys.exit(1)
if got != want:
    print('trees differ'); sys.exit(1)
print('ok')
