"""C17: trees are the same up to the module__name prefix of transitively imported rules.

    _m.lark:  a: b
              b: "x"
    main:     %import ._m.a
              start: a

By hand (and with the very same module saved as m.lark): start(a(<prefix>__b())).
The prefix is glued in front of the name, so for a module whose file name starts with an
underscore every dependency `b` becomes `_m__b` - a name with a leading underscore, i.e. an
inlined rule.  The node for b disappears from the tree.  (mangle() takes care to move the
underscore of `_b` to the front, but not to keep one of the module name away from it.)
"""
import sys, os; sys.path.insert(0, os.getcwd())
from lark import Lark, Tree

TEXT = 'a: b\nb: "x"\n'
MODS = {'_m.lark': TEXT, 'm.lark': TEXT}

def loader(base_path, grammar_path):
    name = grammar_path.replace(os.sep, '/')
    if name in MODS:
        return name, MODS[name]
    raise IOError(name)

def shape(t):
    return [shape(c) for c in t.children] if isinstance(t, Tree) else str(t)

want = shape(Lark('a: b\nb: "x"\nstart: a\n').parse('x'))
got_m = shape(Lark('%import .m.a\nstart: a\n', import_paths=[loader]).parse('x'))
got__m = Lark('%import ._m.a\nstart: a\n', import_paths=[loader]).parse('x')
assert got_m == want
if shape(got__m) != want:
    print('module saved as m.lark: tree shape %r (as hand-written); same module saved as _m.lark: %r' % (want, got__m))
    sys.exit(1)
print('ok')
