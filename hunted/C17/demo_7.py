"""C17: %extend means what adding an alternative with '|' means (docs: "add a new option
... like when separated with |").

    start: a
    a: X -> one
    %extend a: Y -> two
    X: "x"
    Y: /x/

By hand:   a: X -> one | Y -> two      => for input "x" Earley resolves the ambiguity in
favour of the first alternative: start(one(x)).
lark inserts the new alternatives *in front of* the existing ones, so the extended grammar
builds start(two(x)).
"""
import sys, os; sys.path.insert(0, os.getcwd())
from lark import Lark

hand = Lark('start: a\na: X -> one\n | Y -> two\nX: "x"\nY: /x/\n')
ext = Lark('start: a\na: X -> one\n%extend a: Y -> two\nX: "x"\nY: /x/\n')
want, got = hand.parse('x'), ext.parse('x')
if got != want:
    print('%%extend builds %r, the rule written out with | builds %r' % (got, want))
    sys.exit(1)
print('ok')
