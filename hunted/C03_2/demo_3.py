"""C03: every engine must return the same tree for an unambiguous grammar.

`_ambig` is a legal (underscore-prefixed, hence inlined) rule name.  LALR and
CYK inline it as documented: start(x(A, A), B).  The Earley forest-to-tree
conversion uses Tree.data == '_ambig' as an internal marker:
ForestToParseTree.transform_symbol_node() -> _collapse_ambig() mistakes the
user's `_ambig` node for an ambiguity node and replaces it by its children, so
the parent then inlines the *child* `x` instead, and the x node disappears:
start(A, A, B).  (If `_ambig` derives a single token, Earley crashes with
AttributeError instead.)
"""
import sys, os; sys.path.insert(0, os.getcwd())
from lark import Lark, Tree, Token

GRAMMAR = r'''
start: _ambig B
_ambig: x
x: A A
A: "a"
B: "b"
'''

expected = Tree('start', [Tree('x', [Token('A', 'a'), Token('A', 'a')]), Token('B', 'b')])

bad = []
for parser, lexer in [('lalr', 'basic'), ('lalr', 'contextual'), ('cyk', 'basic'),
                      ('earley', 'basic'), ('earley', 'dynamic'), ('earley', 'dynamic_complete')]:
    try:
        tree = Lark(GRAMMAR, parser=parser, lexer=lexer).parse("aab")
    except Exception as e:
        tree = '%s: %s' % (type(e).__name__, e)
    print('%-24s %s' % (parser + '/' + lexer, tree))
    if tree != expected:
        bad.append((parser, lexer))

if bad:
    print("engines disagree / rule x is lost from the tree for:", bad)
    print("expected everywhere:", expected)
    sys.exit(1)
print("ok")
