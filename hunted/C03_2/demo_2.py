"""C03: CYK must return the same tree as Earley/LALR for an unambiguous grammar.

    start: a0 X0 | a1 X1 | ...      a0: c    a1: c   ...     c: d     d: Z W

Every input "zw<letter i>" has exactly one derivation; Earley and LALR return
start(a<i>(c(d(Z, W))), X<i>).  CYK's conversion to Chomsky normal form removes
unit rules one at a time; cyk.UnitSkipRule.__eq__ compares only the list of
skipped rules (not lhs/rhs), so when `a_i -> d [skipped c->d]` is removed,
`_remove_unit_rule` also deletes the equal-looking `a_j -> d [skipped c->d]`,
and the rule a_j silently loses its only production: CYK rejects a valid input.

Which a_j is lost depends on set iteration order (string hashing), so the same
grammar is tried with a few different spellings of the rule names.
"""
import sys, os; sys.path.insert(0, os.getcwd())
from lark import Lark

N = 12
def grammar(tag):
    g = "start: " + " | ".join('%s%d X%d' % (tag, i, i) for i in range(N)) + "\n"
    g += "".join('%s%d: c\n' % (tag, i) for i in range(N))
    g += 'c: d\nd: Z W\nZ: "z"\nW: "w"\n'
    g += "".join('X%d: "%s"\n' % (i, chr(ord('A') + i)) for i in range(N))
    return g

failures = []
TAGS = [x + y for y in ['', 'a', 'b', 'e'] for x in 'abefghkmnpqrstuvwy']   # 72 spellings; the first few nearly always suffice
for tag in TAGS:
    g = grammar(tag)
    earley = Lark(g, parser='earley')
    lalr = Lark(g, parser='lalr')
    cyk = Lark(g, parser='cyk')
    for i in range(N):
        text = 'zw' + chr(ord('A') + i)
        expected = earley.parse(text)
        assert expected == lalr.parse(text)
        try:
            got = cyk.parse(text)
        except Exception as e:
            got = '%s: %s' % (type(e).__name__, e)
        if got != expected:
            failures.append((tag, text, expected, got))
    if failures:
        break

if failures:
    for tag, text, expected, got in failures:
        print("rule names %s0..%s%d, input %r:" % (tag, tag, N - 1, text))
        print("   earley/lalr:", expected)
        print("   cyk        :", got)
    sys.exit(1)
print("ok")
