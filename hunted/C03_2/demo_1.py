"""C03: a named, non-underscore terminal must be kept in the tree.

Rule `y: A+` refers to the NAMED terminal A, so its tokens must appear as
children of y.  Because another rule uses the anonymous literal "a"+ (which is
the same pattern and therefore gets the terminal name A, but with
filter_out=True), EBNF_to_BNF.rules_cache hands y the helper rule that was built
for `"a"+` (Terminal.__eq__/__hash__ ignore filter_out), and every A token of y
is dropped.
"""
import sys, os; sys.path.insert(0, os.getcwd())
from lark import Lark, Tree, Token

GRAMMAR = r'''
start: x y
x: "a"+ B
y: A+
A: "a"
B: "b"
'''

# reference: the same grammar where x does not use the anonymous literal
REFERENCE = r'''
start: x y
x: _A+ B
y: A+
_A: "a"
A: "a"
B: "b"
'''

bad = []
for parser, lexer in [('earley', 'dynamic'), ('earley', 'basic'), ('lalr', 'basic'), ('lalr', 'contextual'), ('cyk', 'basic')]:
    tree = Lark(GRAMMAR, parser=parser, lexer=lexer).parse("aabaa")
    expected = Tree('start', [Tree('x', [Token('B', 'b')]),
                              Tree('y', [Token('A', 'a'), Token('A', 'a')])])
    if tree != expected:
        bad.append((parser, lexer, tree))

if bad:
    for parser, lexer, tree in bad:
        print("%s/%s: named terminal A dropped from rule y: %r" % (parser, lexer, tree))
    print("expected: start(x(B), y(A, A))")
    sys.exit(1)
print("ok")
