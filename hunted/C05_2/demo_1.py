"""C05: with ambiguity='resolve' the chosen tree is not priority-optimal when the grammar contains a
unit-rule cycle (a -> b -> a), although the optimal derivation itself is acyclic and the grammar has
no empty alternatives.

ForestSumVisitor reaches the symbol node of `b` for the first time from inside `a` (a: b), where the
only way on (b: a) leads back to the `a` node that is still in progress (priority -inf).  The resulting
under-estimate of `b` (-inf, or the value of its other alternatives) is kept (single_visit=True) and
is then used where `b` is referenced from outside the cycle.
"""
import sys, os; sys.path.insert(0, os.getcwd())
from lark import Lark, Token

def total(t, prio):
    if isinstance(t, Token):
        return 0
    return prio.get(str(t.data), 0) + sum(total(c, prio) for c in t.children)

CASES = [
    # (grammar, rule priorities).  Going round the cycle a -> b -> a never gains priority, so the maximum exists.
    ('start: x | b\n x.-10: a\n a: b | "x"\n b: a\n',
     {'x': -10}),
    ('start: x | b | c\n x.-10: a\n a.2: b | "x"\n b.-3: a | "x"\n c.-2: "x"\n',
     {'x': -10, 'a': 2, 'b': -3, 'c': -2}),
]
bad = False
for g, prio in CASES:
    chosen = Lark(g, parser='earley', ambiguity='resolve', keep_all_tokens=True).parse("x")
    forest = Lark(g, parser='earley', ambiguity='explicit', keep_all_tokens=True).parse("x")
    derivations = forest.children if forest.data == '_ambig' else [forest]
    best = max(derivations, key=lambda t: total(t, prio))
    print(g)
    print("  resolve  ->", chosen, " total priority", total(chosen, prio))
    if total(chosen, prio) < total(best, prio):
        bad = True
        print("  NOT OPTIMAL: lark's own ambiguity='explicit' lists", best, "with total priority", total(best, prio))
if bad:
    print("FAIL: ambiguity='resolve' (priority='normal') returned a derivation whose total priority is not the maximum")
    sys.exit(1)
print("OK")
