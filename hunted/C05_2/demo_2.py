"""C05: the choice is not a function of (grammar, options, input): building a second Lark instance
from the Grammar object of the first one (Lark accepts `Union[Grammar, str, IO[str]]`, and exposes
`Lark.grammar`) silently changes what the FIRST instance returns, and the fresh instance gets the
wrong optimum.  Grammar.compile() hands out the very RuleOptions objects stored in
Grammar.rule_defs, and Lark.__init__ negates (priority='invert') or erases (priority=None) the
priorities in place on those shared objects.
"""
import sys, os; sys.path.insert(0, os.getcwd())
from lark import Lark

g = r"""
start: a | b
a.1: "x"
b.2: "x"
"""
def name(t):
    return str(t.children[0].data)

problems = []

# --- priority='invert': the minimum-priority derivation is 'a'
l1 = Lark(g, parser='earley', priority='invert')
first = name(l1.parse("x"))
l2 = Lark(l1.grammar, parser='earley', priority='invert')     # a fresh instance, same grammar, same options
fresh = name(l2.parse("x"))
again = name(l1.parse("x"))                                   # same instance, same input, repeated call
print("invert: first call -> %s, fresh instance from l1.grammar -> %s, first instance again -> %s" % (first, fresh, again))
if not (first == fresh == again == 'a'):
    problems.append("priority='invert': expected 'a' (total priority 1, the minimum) every time, got %s / %s / %s" % (first, fresh, again))

# --- priority='normal' is destroyed by an unrelated priority=None instance built from the same Grammar
n1 = Lark(g, parser='earley')
first = name(n1.parse("x"))
Lark(n1.grammar, parser='earley', priority=None)
again = name(n1.parse("x"))
fresh = name(Lark(n1.grammar, parser='earley').parse("x"))
print("normal: first call -> %s, after building a priority=None instance from n1.grammar -> %s, fresh normal instance -> %s" % (first, again, fresh))
if not (first == fresh == again == 'b'):
    problems.append("priority='normal': expected 'b' (total priority 2, the maximum) every time, got %s / %s / %s" % (first, again, fresh))

if problems:
    for p in problems:
        print("FAIL:", p)
    sys.exit(1)
print("OK")
