"""C05 (lexer side): with lexer='dynamic_complete' the returned tree is not a derivation of the input:
it contains a token that its terminal cannot match at that place.  xearley's complete_lex tries the
shorter matches of a terminal on a *truncated copy* of the matched text (`match(item.expect, s[:-j])`),
so a trailing look-ahead is evaluated against the end of the copy instead of the real following text.
"""
import sys, os, re; sys.path.insert(0, os.getcwd())
from lark import Lark
from lark.exceptions import LarkError

g = r"""
start: A B
A: /x+(?!x)/
B: "x"
"""
text = "xxx"
# A can only match a run of x that is NOT followed by another x; in "xxx" that is only the whole "xxx"
# (at offset 0), after which nothing is left for B: the input has no derivation at all.
try:
    tree = Lark(g, parser='earley', lexer='dynamic_complete').parse(text)
except LarkError as e:
    print("OK: rejected (%s)" % type(e).__name__)
    sys.exit(0)
tok = tree.children[0]
print("returned:", tree)
# does A's regexp really match exactly this text at this place of the input?
ok = re.compile(r'x{%d}(?!x)' % len(tok)).match(text, tok.start_pos) is not None
if not ok:
    print("FAIL: token A=%r at offset %d is followed by 'x' in the input, so /x+(?!x)/ does not match there; "
          "the returned tree is not a derivation of %r (lexer='dynamic' correctly rejects the input)" % (str(tok), tok.start_pos, text))
    sys.exit(1)
print("OK")
