# A string terminal that the lexer drops because a same-priority regexp "contains" it,
# although that regexp (lookbehind / \b) does not match at the position where the string does.
import sys, os; sys.path.insert(0, os.getcwd())
import logging
from lark import Lark, logger
logger.setLevel(logging.ERROR)

GRAMMAR = r'''
start: (NUM | NAME | IF)*
NUM: /\d+/
NAME: /(?<!\d)[a-z]+/
IF: "if"
'''
# At offset 1 of "1if": NAME cannot match (lookbehind sees the digit), NUM cannot match,
# the string terminal IF matches "if".  Documented order => tokens NUM('1') IF('if').
expected = [('NUM', '1'), ('IF', 'if')]
bad = False
for lexer in ('basic', 'contextual'):
    p = Lark(GRAMMAR, parser='lalr', lexer=lexer)
    try:
        got = [(t.type, str(t)) for t in p.parse("1if").children]
    except Exception as e:
        got = '%s: %s' % (type(e).__name__, str(e).splitlines()[0])
    if got != expected:
        bad = True
        print("lexer=%s: expected %r, got %r" % (lexer, expected, got))
sys.exit(1 if bad else 0)
