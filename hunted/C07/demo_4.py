# Keyword exception ignores case-insensitive string terminals whose literal spelling is not
# itself matched by the regexp: "IF"i and "if"i denote the same terminal but behave differently.
import sys, os; sys.path.insert(0, os.getcwd())
import logging
from lark import Lark, logger
logger.setLevel(logging.ERROR)

TEMPLATE = r'''
start: (NAME | IF)*
NAME: /[a-z]+/
IF: %s
'''
res = {}
for lit in ('"if"i', '"IF"i'):
    res[lit] = [(t.type, str(t)) for t in Lark(TEMPLATE % lit, parser='lalr', lexer='basic').lex("if")]
# Text "if" matched by regexp NAME is exactly the same-priority string terminal IF
# (case-insensitive), so it must be reported as IF in both spellings.
bad = False
for lit, got in res.items():
    if got != [('IF', 'if')]:
        bad = True
        print("IF: %s  -> expected [('IF', 'if')], got %r" % (lit, got))
sys.exit(1 if bad else 0)
