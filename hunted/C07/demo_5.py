# basic succeeds, contextual fails, with a single regexp terminal (so no regexp overlap).
import sys, os; sys.path.insert(0, os.getcwd())
import logging
from lark import Lark, logger
logger.setLevel(logging.ERROR)

GRAMMAR = r'''
start: "if" "(" NAME ")" | "if(" NAME "]"
NAME: /[a-z]+/
'''
text = "if(x)"
basic = Lark(GRAMMAR, parser='lalr', lexer='basic').parse(text)   # NAME matches "if" -> reported as IF; succeeds
try:
    ctx = Lark(GRAMMAR, parser='lalr', lexer='contextual').parse(text)
except Exception as e:
    print("basic lexer parsed %r -> %r" % (text, basic))
    print("contextual lexer failed: %s: %s" % (type(e).__name__, str(e).splitlines()[0]))
    sys.exit(1)
if ctx != basic:
    print("trees differ: basic=%r contextual=%r" % (basic, ctx))
    sys.exit(1)
sys.exit(0)
