# The first matching terminal in the documented order is not the one reported:
# a string terminal embedded in a *later* regexp is removed from the scanner, so a terminal
# that sits between them in the documented order wins.
import sys, os; sys.path.insert(0, os.getcwd())
import logging
from lark import Lark, logger
logger.setLevel(logging.ERROR)

bad = False

# Case 1: all three have priority 0, max width 1, pattern length 1 => order is by name: A, B, C.
G1 = r'''
start: (A | B | C)*
A: "a"
B: "a"i
C: /./
'''
got = [(t.type, str(t)) for t in Lark(G1, parser='lalr', lexer='basic').lex("a")]
if got != [('A', 'a')]:
    bad = True
    print("case 1: expected [('A', 'a')] (A is first in documented order and matches), got %r" % got)

# Case 2: no flags at all.  All have priority 0 and max width 7; pattern lengths 7 > 6 > 5
# => order A, R, Z.  A matches the whole input, so the tiling must be [A].
G2 = r'''
start: (A | R | Z | C)*
A: "aaaaaac"
R: /a{1,7}/
Z: /a{6}c/
C: "c"
'''
got = [(t.type, str(t)) for t in Lark(G2, parser='lalr', lexer='basic').lex("aaaaaac")]
if got != [('A', 'aaaaaac')]:
    bad = True
    print("case 2: expected [('A', 'aaaaaac')], got %r" % got)

sys.exit(1 if bad else 0)
