# use_bytes=True: the keyword-in-regexp test is done with str semantics, but scanning is done
# with bytes semantics (\w is ASCII-only for bytes).  The string terminal is dropped from the
# scanner although the regexp cannot match it in bytes mode.
import sys, os; sys.path.insert(0, os.getcwd())
import logging
from lark import Lark, logger
logger.setLevel(logging.ERROR)

GRAMMAR = r'''
start: (CAFE | WORD)*
CAFE: "caf\xe9"
WORD: /\w+/
'''
bad = False
# control: str mode
got = [(t.type, t.value) for t in Lark(GRAMMAR, parser='lalr', lexer='basic').lex("caf\xe9")]
if got != [('CAFE', "caf\xe9")]:
    bad = True; print("str mode: got %r" % got)
# bytes mode: the string terminal CAFE (b'caf\xe9') matches the whole input
for lexer in ('basic', 'contextual'):
    p = Lark(GRAMMAR, parser='lalr', lexer=lexer, use_bytes=True)
    try:
        got = [(t.type, t.value) for t in p.parse(b"caf\xe9").children]
    except Exception as e:
        got = '%s: %s' % (type(e).__name__, str(e).splitlines()[0])
    if got != [('CAFE', b"caf\xe9")]:
        bad = True
        print("use_bytes, lexer=%s: expected [('CAFE', b'caf\\xe9')], got %r" % (lexer, got))
sys.exit(1 if bad else 0)
