# g_regex_flags=re.VERBOSE: terminal widths are computed without the global flags, so a
# zero-width terminal passes validation and the lexer emits empty tokens forever.
import sys, os; sys.path.insert(0, os.getcwd())
import logging, re, itertools
from lark import Lark, logger
logger.setLevel(logging.ERROR)

GRAMMAR = r'''
start: (A | B)*
A: / a*/
B: "b"
'''
try:
    p = Lark(GRAMMAR, parser='lalr', lexer='basic', g_regex_flags=re.VERBOSE)
except Exception as e:
    print("rejected properly:", type(e).__name__); sys.exit(0)
got = list(itertools.islice(p.lex("b"), 4))
if any(len(t) == 0 for t in got):
    print("lexer produced empty tokens (and never advances): %r ..." % got)
    sys.exit(1)
sys.exit(0)
