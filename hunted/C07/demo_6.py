# A regexp terminal with a numbered backreference stops matching once the lexer joins it with
# other terminals into one alternation (group numbers shift).
import sys, os; sys.path.insert(0, os.getcwd())
import logging, re
from lark import Lark, logger
logger.setLevel(logging.ERROR)

GRAMMAR = r'''
start: (X | B)*
X: "xyz"
B: /(a|b)\1/
'''
assert re.fullmatch(r'(a|b)\1', 'aa')        # the terminal's pattern matches "aa"
p = Lark(GRAMMAR, parser='lalr', lexer='basic')   # accepted without complaint
try:
    got = [(t.type, str(t)) for t in p.lex("aa")]
except Exception as e:
    got = '%s: %s' % (type(e).__name__, str(e).splitlines()[0])
if got != [('B', 'aa')]:
    print("expected [('B', 'aa')], got %r" % (got,))
    sys.exit(1)
sys.exit(0)
