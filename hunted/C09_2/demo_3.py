import sys, os; sys.path.insert(0, os.getcwd())
from lark import Lark

# x~n compiled naively (n < 50) and through factored helper rules (n >= 50) should be
# indistinguishable in the tree.  Inside [...] with maybe_placeholders they are not: the helper
# non-terminal (name starts with '_') is counted as "removed" by FindRuleSize, so an unmatched
# [A~50] produces 0 placeholders while an unmatched [A~49] produces 49.
bad = []
for parser in ('lalr', 'earley'):
    counts = {}
    for n in (49, 50):
        g = 'start: [A~%d] B\nA: "a"\nB: "b"' % n
        l = Lark(g, parser=parser, maybe_placeholders=True)
        matched = l.parse('a' * n + 'b').children
        unmatched = l.parse('b').children
        counts[n] = (len(matched), len(unmatched))
        if len(matched) != len(unmatched):
            bad.append("%s: [A~%d] B gives %d children when matched but %d when absent (placeholders: %d, expected %d)"
                       % (parser, n, len(matched), len(unmatched), unmatched.count(None), n))
if bad:
    print("\n".join(bad))
    sys.exit(1)
sys.exit(0)
