import sys, os; sys.path.insert(0, os.getcwd())
from lark import Lark

# Template argument path: rep{"a"} (anonymous, filtered) and rep{A} (named, kept) are distinct
# template instances, but the helper rule generated for `x+` in the first instance is reused
# for the second one, so the three A tokens matched by rep{A} vanish from the tree.
bad = []
for parser in ('lalr', 'earley'):
    for op in ('+', '*', '~50..70'):
        n = 55 if '~' in op else 3
        g = '''
        start: rep{"a"} "b" rep{A}
        rep{x}: x%s
        A: "a"
        ''' % op
        t = Lark(g, parser=parser).parse('a' * n + 'b' + 'a' * n)
        second = t.children[1]
        if len(second.children) != n:
            bad.append("%s: rep{A} with x%s matched %d A's but has %d children" % (parser, op, n, len(second.children)))

if bad:
    print("\n".join(bad))
    sys.exit(1)
sys.exit(0)
