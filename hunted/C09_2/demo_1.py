import sys, os; sys.path.insert(0, os.getcwd())
from lark import Lark

# A+ (named terminal, must be kept) after "a"+ (anonymous string, filtered) in the same grammar.
# The helper rule created for "a"+ is reused for A+ because Terminal equality ignores filter_out.
bad = []
for parser in ('lalr', 'earley'):
    for op, n in (('+', 3), ('*', 3), ('~60', 60), ('~50..70', 55)):
        g = '''
        start: x "b" y
        x: "a"%s
        y: A%s
        A: "a"
        ''' % (op, op)
        t = Lark(g, parser=parser).parse('a' * n + 'b' + 'a' * n)
        y = t.children[1]
        if len(y.children) != n:
            bad.append("%s: y: A%s matched %d occurrences of A but y has %d children" % (parser, op, n, len(y.children)))

if bad:
    print("\n".join(bad))
    sys.exit(1)
sys.exit(0)
