# C10: an interactive session is corrupted by a (successful) parse() made on the same instance
# between two of its steps: the Indenter's indentation stack is a single attribute of the post-lexer
# object, shared by every token stream of the Lark instance, and process() of the second call resets it.
import sys, os; sys.path.insert(0, os.getcwd())
from lark import Lark
from lark.indenter import Indenter

GRAMMAR = r"""
start: (NAME | _NL | _INDENT | _DEDENT)*
NAME: /[a-z]+/
_NL: /\n[ ]*/
%declare _INDENT _DEDENT
%ignore " "
"""
class Ind(Indenter):
    NL_type = '_NL'; OPEN_PAREN_types = []; CLOSE_PAREN_types = []
    INDENT_type = '_INDENT'; DEDENT_type = '_DEDENT'; tab_len = 8

TEXT = "a\n  b\n  c\n"
def session(lark, disturb):
    ip = lark.parse_interactive(TEXT)
    seen = []
    try:
        for n, tok in enumerate(ip.iter_parse()):
            seen.append(tok.type)
            if disturb and n == 3:
                lark.parse("x\n")             # an unrelated, successful call on the same instance
        return seen, ip.feed_eof()
    except Exception as e:
        return seen, '%s: %s' % (type(e).__name__, e)

reference = session(Lark(GRAMMAR, parser='lalr', postlex=Ind()), False)
got = session(Lark(GRAMMAR, parser='lalr', postlex=Ind()), True)
print("session alone                  :", reference)
print("session with a parse() between :", got)
if got != reference:
    print("FAIL: the interactive session saw a second _INDENT for a line at the same indentation")
    sys.exit(1)
sys.exit(0)
