# C10: with cache=True, an instance created WITHOUT edit_terminals gets the terminals that another
# instance's edit_terminals callback produced: `edit_terminals` is left out of the cache key, yet the
# edited terminals are what is written to the cache.
import sys, os; sys.path.insert(0, os.getcwd())
import tempfile, logging
logging.disable(logging.CRITICAL)
from lark import Lark
from lark.lexer import PatternRE

GRAMMAR = r"""
start: NAME
NAME: /[a-z]+/
"""
def widen(term):
    if term.name == 'NAME':
        term.pattern = PatternRE('[a-z0-9]+')

def outcome(lark, text):
    try:
        return str(lark.parse(text))
    except Exception as e:
        return type(e).__name__

reference = outcome(Lark(GRAMMAR, parser='lalr'), "a1")

tempfile.tempdir = tempfile.mkdtemp()        # private, empty cache directory
Lark(GRAMMAR, parser='lalr', cache=True, edit_terminals=widen)       # another instance
got = outcome(Lark(GRAMMAR, parser='lalr', cache=True), "a1")        # plain instance, same grammar

print("plain instance, created alone          :", reference)
print("plain instance, created after the other:", got)
if got != reference:
    print("FAIL: the plain instance lexes with the terminals edited for another instance")
    sys.exit(1)
sys.exit(0)
