# C10: creating ANOTHER Lark instance changes what an existing instance returns.
# Lark.__init__ (priority='invert' / priority=None) rewrites rule.options.priority in place, but the
# RuleOptions objects are shared between Grammar.rule_defs and the Rule objects of every instance
# compiled from that Grammar (Grammar.compile() deep-copies the trees, not the options).
import sys, os; sys.path.insert(0, os.getcwd())
from lark import Lark

GRAMMAR = r"""
start: a | b
a.2: "x"
b.1: "x"
"""

first = Lark(GRAMMAR, parser='earley')          # default priority='normal': rule a (priority 2) must win
before = first.parse("x")

# A second, independent instance built from the same Grammar object (Lark accepts a Grammar; see its signature)
second = Lark(first.grammar, parser='earley', priority='invert')

after = first.parse("x")                        # same instance, same text, same options

print("first.parse('x') before the second instance existed:", before)
print("first.parse('x') after  the second instance was made:", after)
if before != after:
    print("FAIL: the outcome of parse() on an instance was changed by the creation of another instance")
    sys.exit(1)

# Also: a third instance with default options must behave like the first did
third = Lark(first.grammar, parser='earley')
if third.parse("x") != before:
    print("FAIL: an instance built with default options inherited the inverted priorities of another instance")
    sys.exit(1)
sys.exit(0)
