# C10: the tokens produced by lex() depend on a FAILED parse() made on the same instance.
# Indenter.process() resets indent_level/paren_level when lex() is *called*, but the state lives on the
# shared Indenter object and the stream is produced lazily: a failed call made before the generator is
# consumed leaves its indentation stack behind, and the generator then starts from it.
import sys, os; sys.path.insert(0, os.getcwd())
from lark import Lark
from lark.indenter import Indenter

GRAMMAR = r"""
start: (NAME | _NL | _INDENT | _DEDENT)*
NAME: /[a-z]+/
_NL: /\n[ ]*/
%declare _INDENT _DEDENT
%ignore " "
"""
class Ind(Indenter):
    NL_type = '_NL'; OPEN_PAREN_types = []; CLOSE_PAREN_types = []
    INDENT_type = '_INDENT'; DEDENT_type = '_DEDENT'; tab_len = 8

def consume(it):
    try:
        return [(t.type, str(t)) for t in it]
    except Exception as e:
        return '%s: %s' % (type(e).__name__, e)

TEXT = "a\n  b\n"
reference = consume(Lark(GRAMMAR, parser='lalr', postlex=Ind()).lex(TEXT))

lark = Lark(GRAMMAR, parser='lalr', postlex=Ind())
stream = lark.lex(TEXT)
try:
    lark.parse("a\n    b $")          # fails half-way, inside an indented block
except Exception as e:
    print("(the other call failed as intended: %s)" % type(e).__name__)
got = consume(stream)

print("lex(TEXT) alone                :", reference)
print("lex(TEXT) around a failed parse:", got)
if got != reference:
    print("FAIL: the outcome of lex() was changed by a failed parse() on the same instance")
    sys.exit(1)
sys.exit(0)
