# C10: with cache=True the outcome of parse() depends on which other instance was created earlier.
# The cache key leaves out `postlex`, but postlex.always_accept decides which terminals are compiled in
# (terminals_to_keep) - so an instance WITH a post-lexer silently loads the tables cached by an instance
# WITHOUT one (and the other way around).
import sys, os; sys.path.insert(0, os.getcwd())
import tempfile, logging
logging.disable(logging.CRITICAL)
from lark import Lark
from lark.lark import PostLex

GRAMMAR = r"""
start: NAME+
NAME: /[a-z]+/
_NL: /\n+/
%ignore " "
"""

class DropNL(PostLex):          # stateless post-lexer: newlines are lexed (always_accept) and dropped
    always_accept = ('_NL',)
    def process(self, stream):
        return (t for t in stream if t.type != '_NL')

def outcome(lark, text):
    try:
        return str(lark.parse(text))
    except Exception as e:
        return type(e).__name__

TEXT = "a\nb"
reference = outcome(Lark(GRAMMAR, parser='lalr', postlex=DropNL()), TEXT)    # no cache involved

tempfile.tempdir = tempfile.mkdtemp()        # private, empty cache directory
Lark(GRAMMAR, parser='lalr', cache=True)                                     # some other instance, no postlex
got = outcome(Lark(GRAMMAR, parser='lalr', cache=True, postlex=DropNL()), TEXT)

print("postlex instance, created alone          :", reference)
print("postlex instance, created after the other:", got)
if got != reference:
    print("FAIL: same grammar, options and text - different outcome because another instance was created first")
    sys.exit(1)
sys.exit(0)
