"""Dynamic Earley lexer: an %ignore terminal that happens to match *inside* a pending token
(while the scan buffer is empty) leaves an empty "pending" entry in delayed_matches, which
suppresses the error until the end of that phantom match.  The error is then reported at the
wrong position, with an empty allowed set."""
import sys, os; sys.path.insert(0, os.getcwd())
from lark import Lark
from lark.exceptions import UnexpectedInput, UnexpectedCharacters

grammar = r'''
start: STRING "x"
STRING: /"[^"]*"/
COMMENT: /#[^\n]*/
%ignore COMMENT
%ignore " "
'''
text = '"a#b" y and more text'      # 'y' at offset 6 is the first offending character; only X may follow
bad = []
for lexer in ('dynamic', 'dynamic_complete'):
    parser = Lark(grammar, parser='earley', lexer=lexer)
    # sanity: same string without '#' inside the STRING is reported correctly
    try:
        parser.parse('"a-b" y and more text')
    except UnexpectedCharacters as e:
        assert (e.pos_in_stream, e.allowed) == (6, {'X'}), (e.pos_in_stream, e.allowed)
    try:
        parser.parse(text)
        bad.append('%s: accepted?!' % lexer)
    except UnexpectedInput as e:
        got = (type(e).__name__, e.pos_in_stream, e.line, e.column, getattr(e, 'allowed', None))
        want = ('UnexpectedCharacters', 6, 1, 7, {'X'})
        if got != want:
            bad.append('%s: got %r, wanted %r' % (lexer, got, want))
if bad:
    print('VIOLATION: wrong error position / allowed set under the dynamic lexer')
    print('\n'.join(bad))
    sys.exit(1)
print('ok')
