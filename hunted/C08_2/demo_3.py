"""LALR + contextual lexer: when the contextual lexer turns an UnexpectedCharacters into an
UnexpectedToken, `expected` is taken from the *scanner's* terminal list (minus ignores), not from the
parse table.  That list lacks keyword strings embedded in a regexp terminal (and '$END'), so
`accepts` contains terminals that do not belong to `expected`."""
import sys, os; sys.path.insert(0, os.getcwd())
from lark import Lark
from lark.exceptions import UnexpectedInput, UnexpectedToken

grammar = r'''
start: "if" | NAME
other: "1"
NAME: /[a-z]+/
'''
bad = []
res = {}
for lexer in ('basic', 'contextual'):
    parser = Lark(grammar, parser='lalr', lexer=lexer, start=['start', 'other'])
    parser.parse("if", start='start')
    try:
        parser.parse("1", start='start')
    except UnexpectedToken as e:
        res[lexer] = (e.accepts, e.expected)
        if not e.accepts <= e.expected:
            bad.append('%s lexer: accepts=%r is not a subset of expected=%r' % (lexer, e.accepts, e.expected))
    except UnexpectedInput as e:
        bad.append('%s lexer: %s' % (lexer, type(e).__name__))
if bad:
    print('VIOLATION: a terminal in accepts does not belong to expected')
    print('\n'.join(bad))
    print('all results:', res)
    sys.exit(1)
print('ok')
