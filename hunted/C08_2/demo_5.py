"""Earley + dynamic lexer with a %declare'd terminal: as soon as the declared terminal is the next
thing to scan and there is still input, parse() dies with KeyError instead of UnexpectedCharacters
(the basic lexer reports a proper UnexpectedInput for the same grammar/input)."""
import sys, os; sys.path.insert(0, os.getcwd())
from lark import Lark
from lark.exceptions import UnexpectedInput

grammar = r'''
start: "a" X
%declare X
'''
bad = []
for lexer in ('basic', 'dynamic', 'dynamic_complete'):
    parser = Lark(grammar, parser='earley', lexer=lexer)     # grammar is accepted
    try:
        parser.parse("ab")
        bad.append('%s: accepted' % lexer)
    except UnexpectedInput as e:
        pass
    except Exception as e:
        bad.append('lexer=%s: parse("ab") raised %s(%s), not an UnexpectedInput' % (lexer, type(e).__name__, e))
if bad:
    print('VIOLATION:'); print('\n'.join(bad)); sys.exit(1)
print('ok')
