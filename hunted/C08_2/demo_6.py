"""A grammar with a non-productive nonterminal (it derives no terminal string): the prefix that leads
into it cannot be extended to any sentence, yet every parser consumes it and reports the error one
token too late (and Earley/dynamic with an empty allowed set)."""
import sys, os; sys.path.insert(0, os.getcwd())
from lark import Lark
from lark.exceptions import UnexpectedInput

grammar = r'''
start: "b" x | "c"
x: x "a"
'''
# The language is exactly {"c"}.  In "ba" the first offending token is "b" at offset 0.
bad = []
for parser_type, lexer in (('earley', 'dynamic'), ('earley', 'basic'), ('lalr', 'basic'), ('lalr', 'contextual')):
    parser = Lark(grammar, parser=parser_type, lexer=lexer)
    parser.parse("c")
    try:
        parser.parse("ba")
        bad.append('%s/%s accepted' % (parser_type, lexer))
    except UnexpectedInput as e:
        if e.pos_in_stream != 0:
            bad.append('%s/%s: %s at offset %r (expected/allowed=%r); first offending token is at offset 0'
                       % (parser_type, lexer, type(e).__name__, e.pos_in_stream, getattr(e, 'allowed', None) or getattr(e, 'expected', None)))
if bad:
    print('VIOLATION: error reported after the first offending token'); print('\n'.join(bad)); sys.exit(1)
print('ok')
