"""postlex=Indenter: rejected inputs raise DedentError (a plain LarkError) or even AssertionError,
not a subclass of UnexpectedInput, and carry no position."""
import sys, os; sys.path.insert(0, os.getcwd())
from lark import Lark
from lark.indenter import Indenter
from lark.exceptions import UnexpectedInput

class TreeIndenter(Indenter):
    NL_type = '_NL'; OPEN_PAREN_types = ['LPAR']; CLOSE_PAREN_types = ['RPAR']
    INDENT_type = '_INDENT'; DEDENT_type = '_DEDENT'; tab_len = 8

grammar = r'''
start: (stmt | _NL)*
stmt: NAME _NL [_INDENT stmt+ _DEDENT] | LPAR | RPAR
LPAR: "("
RPAR: ")"
NAME: /[a-z]+/
_NL: /(\r?\n[\t ]*)+/
%declare _INDENT _DEDENT
%ignore " "
'''
bad = []
for parser_type, lexer in (('lalr', 'contextual'), ('lalr', 'basic'), ('earley', 'basic')):
    parser = Lark(grammar, parser=parser_type, lexer=lexer, postlex=TreeIndenter())
    parser.parse("a\n    b\nc\n")       # sanity
    for text in ("a\n    b\n  c\n",      # dedent to a column that was never opened
                 ")\n"):                 # closing bracket that was never opened
        try:
            parser.parse(text)
            bad.append('%s/%s %r: accepted' % (parser_type, lexer, text))
        except UnexpectedInput:
            pass
        except BaseException as e:
            bad.append('%s/%s %r: raised %s (%s), not an UnexpectedInput' % (parser_type, lexer, text, type(e).__name__, e))
if bad:
    print('VIOLATION: rejection is not an UnexpectedInput')
    print('\n'.join(bad))
    sys.exit(1)
print('ok')
