"""Earley + basic lexer: UnexpectedCharacters.allowed must contain every terminal that can
legally come next.  A keyword string that is "embedded" in a regexp terminal (handled through the
Unless-callback) is dropped from the scanner's terminal list, and so from `allowed`, even when it is
the ONLY terminal that can legally come next."""
import sys, os; sys.path.insert(0, os.getcwd())
from lark import Lark
from lark.exceptions import UnexpectedInput, UnexpectedCharacters

grammar = r'''
start: "if" NAME
NAME: /[a-z]+/
%ignore " "
'''
parser = Lark(grammar, parser='earley', lexer='basic')
parser.parse("if x")            # sanity: IF is a real, lexable terminal and the only legal first token
try:
    parser.parse("?")
except UnexpectedCharacters as e:
    if 'IF' not in e.allowed:
        print('VIOLATION: at offset 0 only IF can legally come next, but allowed = %r' % (e.allowed,))
        sys.exit(1)
except UnexpectedInput as e:
    print('unexpected error type', type(e)); sys.exit(1)
print('ok')
