import sys, os; sys.path.insert(0, os.getcwd())
from lark import Lark
from lark.reconstruct import Reconstructor

# use_bytes=True parser: token values are bytes, and the reconstructor writes them through str(),
# giving "(b'a')" instead of text the parser accepts (neither as str nor encoded back to bytes).
GRAMMAR = r'''
start: "(" A ")"
A: "a"
%import common.WS
%ignore WS
'''
TEXT = b"(a)"

parser = Lark(GRAMMAR, parser='lalr', maybe_placeholders=False, use_bytes=True)
tree = parser.parse(TEXT)
print("input text :", repr(TEXT))
print("parsed tree:", tree)
try:
    out = Reconstructor(parser).reconstruct(tree)
except Exception as e:
    print("VIOLATION: reconstruct() raised %s: %s" % (type(e).__name__, str(e).strip()[:300]))
    sys.exit(1)
print("reconstructed text:", repr(out))
errors = []
for candidate in (out, out.encode('latin-1') if isinstance(out, str) else out):
    try:
        tree2 = parser.parse(candidate)
    except Exception as e:
        errors.append("%r rejected: %s: %s" % (candidate, type(e).__name__, str(e).strip()[:200]))
        continue
    if tree2 == tree:
        print("ok")
        sys.exit(0)
    errors.append("%r parses to a different tree: %s" % (candidate, tree2))
print("VIOLATION: the reconstructed text does not re-parse to the same tree:")
for e in errors:
    print("  ", e)
sys.exit(1)
