import sys, os; sys.path.insert(0, os.getcwd())
from lark import Lark
from lark.reconstruct import Reconstructor

# A rule with an aliased alternative, reached again through an expand1 (or inlined) rule: the helper rules 'expr -> var' / 'expr -> expr' that TreeMatcher adds for aliases are also usable at the ROOT of the match, so the expr(...) level is silently dropped.
GRAMMAR = r'''
start: expr
expr: atom "!" | NAME -> var
?atom: "(" expr ")" | NUMBER
%import common.CNAME -> NAME
%import common.NUMBER
%import common.WS
%ignore WS
'''
TEXT = "(x)!"

parser = Lark(GRAMMAR, parser='lalr', maybe_placeholders=False)
tree = parser.parse(TEXT)
print("input text :", repr(TEXT))
print("parsed tree:", tree)
try:
    out = Reconstructor(parser).reconstruct(tree)
except Exception as e:
    print("VIOLATION: reconstruct() raised %s: %s" % (type(e).__name__, str(e).strip()[:300]))
    sys.exit(1)
print("reconstructed text:", repr(out))
try:
    tree2 = parser.parse(out)
except Exception as e:
    print("VIOLATION: parser rejects the reconstructed text: %s: %s" % (type(e).__name__, str(e).strip()[:300]))
    sys.exit(1)
if tree2 != tree:
    print("VIOLATION: reconstructed text parses to a different tree:", tree2)
    sys.exit(1)
print("ok")
sys.exit(0)
