import sys, os; sys.path.insert(0, os.getcwd())
from lark import Lark
from lark.reconstruct import Reconstructor

# A rule whose name is an attribute of WriteTokensTransformer (tokens, term_subs, transform): Transformer dispatch picks the attribute instead of __default__.
GRAMMAR = r'''
start: tokens
tokens: "(" A ")"
A: "a"
%import common.WS
%ignore WS
'''
TEXT = "(a)"

parser = Lark(GRAMMAR, parser='lalr', maybe_placeholders=False)
tree = parser.parse(TEXT)
print("input text :", repr(TEXT))
print("parsed tree:", tree)
try:
    out = Reconstructor(parser).reconstruct(tree)
except Exception as e:
    print("VIOLATION: reconstruct() raised %s: %s" % (type(e).__name__, str(e).strip()[:300]))
    sys.exit(1)
print("reconstructed text:", repr(out))
try:
    tree2 = parser.parse(out)
except Exception as e:
    print("VIOLATION: parser rejects the reconstructed text: %s: %s" % (type(e).__name__, str(e).strip()[:300]))
    sys.exit(1)
if tree2 != tree:
    print("VIOLATION: reconstructed text parses to a different tree:", tree2)
    sys.exit(1)
print("ok")
sys.exit(0)
