import sys, os; sys.path.insert(0, os.getcwd())
from lark import Lark
from lark.reconstruct import Reconstructor

# expand1 rule whose only alternative is a single inlined symbol that yields several children (?a: B+): the tree keeps node a(B, B) but the matcher has no way to accept an a-subtree.
GRAMMAR = r'''
start: a ";"
?a: B+
B: "b"
%import common.WS
%ignore WS
'''
TEXT = "b b;"

parser = Lark(GRAMMAR, parser='lalr', maybe_placeholders=False)
tree = parser.parse(TEXT)
print("input text :", repr(TEXT))
print("parsed tree:", tree)
try:
    out = Reconstructor(parser).reconstruct(tree)
except Exception as e:
    print("VIOLATION: reconstruct() raised %s: %s" % (type(e).__name__, str(e).strip()[:300]))
    sys.exit(1)
print("reconstructed text:", repr(out))
try:
    tree2 = parser.parse(out)
except Exception as e:
    print("VIOLATION: parser rejects the reconstructed text: %s: %s" % (type(e).__name__, str(e).strip()[:300]))
    sys.exit(1)
if tree2 != tree:
    print("VIOLATION: reconstructed text parses to a different tree:", tree2)
    sys.exit(1)
print("ok")
sys.exit(0)
