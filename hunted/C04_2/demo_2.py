"""C04 completeness: lexer='dynamic_complete' misses derivations that differ only in how a terminal matches.

T: /a|ab/ matches both "a" and "ab".  For the input "ab" the acyclic grammar has two derivations:
    start(T:'a', B:'b')   and   start(T:'ab')
The complete lexer only looks at the regexp's *preferred* match and its prefixes (xearley.py, scan():
m = match(term, stream, i); then match(term, s[:-j]) for the prefixes of m.group(0)).  Python's regexps are
leftmost-first, not leftmost-longest, so for /a|ab/ the preferred match is "a" and the longer match "ab" is never
tried.  Writing the very same terminal as /ab|a/ yields both derivations.  The same happens with lazy
quantifiers: T: /a+?/ never yields a token longer than one character.
"""
import sys, os; sys.path.insert(0, os.getcwd())
import itertools
from lark import Lark, Tree, Token

def expand(t):
    if isinstance(t, Token):
        return [t]
    if t.data == '_ambig':
        return [x for c in t.children for x in expand(c)]
    return [Tree(t.data, list(p)) for p in itertools.product(*[expand(c) for c in t.children])]

def shapes(grammar, text):
    p = Lark(grammar, parser='earley', lexer='dynamic_complete', ambiguity='explicit')
    return {tuple((tok.type, str(tok)) for tok in t.children) for t in expand(p.parse(text))}

failed = False

got = shapes('start: T B?\nT: /a|ab/\nB: "b"\n', "ab")
want = {(('T', 'a'), ('B', 'b')), (('T', 'ab'),)}
if got != want:
    failed = True
    print("T: /a|ab/ on 'ab': missing derivations", sorted(want - got), "- got only", sorted(got))
    print("   (same terminal written /ab|a/ gives:", sorted(shapes('start: T B?\nT: /ab|a/\nB: "b"\n', "ab")), ")")

got = shapes('start: T+\nT: /a+?/\n', "aa")
want = {(('T', 'a'), ('T', 'a')), (('T', 'aa'),)}
if got != want:
    failed = True
    print("T: /a+?/ on 'aa': missing derivations", sorted(want - got), "- got only", sorted(got))

# Related: the shorter matches are looked for in a truncated *copy* of the match, so a look-behind at the start of
# the terminal no longer sees the preceding input and every shorter match is lost.
got = shapes('start: B T+\nB: "b"\nT: /(?<=[ab])a+/\n', "baa")
want = {(('B', 'b'), ('T', 'aa')), (('B', 'b'), ('T', 'a'), ('T', 'a'))}
if got != want:
    failed = True
    print("T: /(?<=[ab])a+/ on 'baa': missing derivations", sorted(want - got), "- got only", sorted(got))

sys.exit(1 if failed else 0)
