"""C04 completeness: an alternative that derives the empty string is silently dropped when the rule already has
another empty alternative, although the two alternatives build different trees.

    a: A?          -> expands to   a: A   |   a: <empty>
     |  -> nothing                 a: <empty>  -> nothing

For the empty input the (acyclic) grammar has two distinct derivations, with the shaped trees
start(a()) and start(nothing()).  Grammar.compile() treats two rules with the same origin and the same (empty)
expansion as "duplicates" and keeps only the first one, whatever their alias / placeholder options are
(for non-empty expansions the same situation is rejected with GrammarError "Rules defined twice").
The result of ambiguity='explicit' therefore lacks a derivation; which tree survives depends on the order of
the alternatives.
"""
import sys, os; sys.path.insert(0, os.getcwd())
import itertools
from lark import Lark, Tree, Token

def expand(t):
    if t is None or isinstance(t, Token):
        return [t]
    if t.data == '_ambig':
        return [x for c in t.children for x in expand(c)]
    return [Tree(t.data, list(p)) for p in itertools.product(*[expand(c) for c in t.children])]

def norm(t):
    if t is None:
        return 'None'
    if isinstance(t, Token):
        return '%s:%s' % (t.type, t)
    return '%s(%s)' % (t.data, ', '.join(norm(c) for c in t.children))

failed = False
for lexer in ('basic', 'dynamic', 'dynamic_complete'):
    # 1. aliased empty alternative next to an optional
    p = Lark('start: a\na: A? |  -> nothing\nA: "a"\n', parser='earley', lexer=lexer, ambiguity='explicit')
    got = {norm(t) for t in expand(p.parse(""))}
    want = {'start(a())', 'start(nothing())'}
    if got != want:
        failed = True
        print("[%s] 'a: A? | -> nothing' on '': missing %s; got only %s" % (lexer, sorted(want - got), sorted(got)))
    # 2. [A] (placeholder None) next to a plain empty alternative
    p = Lark('start: a\na: [A] | \nA: "a"\n', parser='earley', lexer=lexer, ambiguity='explicit')
    got = {norm(t) for t in expand(p.parse(""))}
    want = {'start(a(None))', 'start(a())'}
    if got != want:
        failed = True
        print("[%s] 'a: [A] | ' on '': missing %s; got only %s" % (lexer, sorted(want - got), sorted(got)))
sys.exit(1 if failed else 0)
