"""C04 (completeness / no result at all): with propagate_positions=True the parse raises AttributeError instead of
returning the derivations, when a '?rule' is replaced by its only remaining child, that child is an empty tree,
and a filtered token precedes it.

    start: a | _C b
    ?a: _C b          -> children after filtering: [b()]  -> inlined, the result *is* the tree b()
    b:

Input "a" has two derivations: start(b()) (via a) and start(b()) (directly); one shaped tree.
PropagatePositions.__call__ first marks the returned (empty) tree as non-empty because of the leading token, and
then, looking for the last child with positions, finds that very tree and reads last_meta.end_line from it.
"""
import sys, os; sys.path.insert(0, os.getcwd())
from lark import Lark, Tree

GRAMMAR = 'start: a | _C b\n?a: _C b\nb: \n_C: "a"\n'
failed = False
for lexer in ('basic', 'dynamic', 'dynamic_complete'):
    p = Lark(GRAMMAR, parser='earley', lexer=lexer, ambiguity='explicit', propagate_positions=True)
    try:
        t = p.parse("a")
    except Exception as e:
        failed = True
        print("[%s] parse('a') raised %s: %s  (without propagate_positions: %s)" % (
            lexer, type(e).__name__, e,
            Lark(GRAMMAR, parser='earley', lexer=lexer, ambiguity='explicit').parse("a")))
sys.exit(1 if failed else 0)
