"""C04 soundness: with lexer='dynamic_complete' the explicit-ambiguity result contains a tree
that is not a derivation of the input.

T: /a+(?!a)/ can only match a run of 'a' that is NOT followed by another 'a'.
In the input "aab" the terminal T therefore matches at offset 0 only as "aa"; "a" at offset 0 is
followed by 'a' and is not a match of T.  The only derivation of "aab" is start(T:'aa', R:'b').
The complete lexer re-matches the terminal against a *truncated copy* of the longest match
(xearley.py: match(item.expect, s[:-j])), so the look-ahead sees the end of the string instead of
the real next character and the bogus token T:'a' is produced.
"""
import sys, os; sys.path.insert(0, os.getcwd())
import re, itertools
from lark import Lark, Tree, Token

GRAMMAR = r'''
start: T R
T: /a+(?!a)/
R: /a*b/
'''
TEXT = "aab"

def expand(t):
    if isinstance(t, Token):
        return [t]
    if t.data == '_ambig':
        return [x for c in t.children for x in expand(c)]
    return [Tree(t.data, list(p)) for p in itertools.product(*[expand(c) for c in t.children])]

parser = Lark(GRAMMAR, parser='earley', lexer='dynamic_complete', ambiguity='explicit')
tree = parser.parse(TEXT)
regexps = {'T': re.compile(r'a+(?!a)'), 'R': re.compile(r'a*b')}
bad = []
for t in expand(tree):
    pos = 0
    for tok in t.children:
        # A token is genuine iff the terminal's regexp can match exactly TEXT[pos:end] *in the context of the
        # whole input* (so that look-ahead sees the real following text).  The fixed-width look-behind forces the end.
        end = pos + len(tok)
        exact = re.compile('(?:%s)(?<=\\A.{%d})' % (regexps[tok.type].pattern, end), re.S)
        ok = exact.match(TEXT, pos) is not None
        if not ok:
            bad.append((t, tok, pos))
        pos += len(tok)
if bad:
    for t, tok, pos in bad:
        print("NOT A DERIVATION of %r: %r -- terminal %s does not match %r at offset %d (next char is %r)"
              % (TEXT, t, tok.type, str(tok), pos, TEXT[pos + len(tok)]))
    sys.exit(1)
print("ok:", tree)
sys.exit(0)
