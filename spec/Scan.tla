-------------------------------- MODULE Scan --------------------------------
(***************************************************************************)
(* Lark.scan (lark/parser_frontends.py ParsingFrontend._scan).             *)
(* Built from Lexer.tla (in-context tokenisation from a position) and      *)
(* LALR.tla (the automaton the tokens are fed to).                         *)
(*                                                                         *)
(* Attempt(q): lex from q with the C07 lexer (restricted, for the          *)
(* contextual lexer, to the terminals the current automaton state accepts, *)
(* plus the ignored ones), feed the automaton token by token; every time   *)
(* the consumed prefix is a complete parse remember its end.  Result:      *)
(* <<first token start, longest end>> or <<-1,-1>>.                        *)
(*                                                                         *)
(* L0: the k-th match is Attempt(qm) for the LEFTMOST position qm >= end   *)
(*     of the previous match at which a non-ignored terminal of the start  *)
(*     state's lexer matches and the attempt succeeds (leftmost start,     *)
(*     longest completion).                                                *)
(* L1: the code's loop: pos, search_start, on failure pos = start + 1, on  *)
(*     success pos = end of the match.                                     *)
(***************************************************************************)
EXTENDS Lexer, LALR

\* terminal names acceptable in the automaton state on top of `stack` (row of the state, terminals only)
RowTerms(rules, start, las, stack) == Row(rules, start, las, stack[Len(stack)]) \ NTs(rules)

\* indices of the terminals the lexer may use in this state
Among(T, rules, start, las, stack, contextual) ==
  IF contextual
  THEN {i \in DOMAIN T : T[i].ign \/ T[i].name \in RowTerms(rules, start, las, stack)}
  ELSE DOMAIN T

\* the consumed prefix is a complete parse: feeding $END succeeds
Complete(rules, start, las, stack) == FeedF(rules, start, las, stack, END, Fuel)[1] = "accept"

RECURSIVE AttemptFrom(_, _, _, _, _, _, _, _, _, _, _, _, _)
AttemptFrom(T, M, SM, order, rules, start, las, contextual, n, p, stack, first, best) ==
  LET tk == NextTok1(T, M, SM, order, Among(T, rules, start, las, stack, contextual), p, n) IN
  IF tk[1] <= 0 THEN <<first, best>>                        \* end of window or lexing error: the attempt ends
  ELSE LET r == FeedF(rules, start, las, stack, T[tk[1]].name, Fuel) IN
       IF r[1] # "ok" THEN <<first, best>>                   \* UnexpectedToken: the attempt ends
       ELSE LET f2 == IF first < 0 THEN tk[2] ELSE first
                b2 == IF Complete(rules, start, las, r[2]) THEN tk[3] ELSE best
            IN AttemptFrom(T, M, SM, order, rules, start, las, contextual, n, tk[3], r[2], f2, b2)

Attempt(T, M, SM, order, rules, start, las, contextual, n, q) ==
  LET r == AttemptFrom(T, M, SM, order, rules, start, las, contextual, n, q, <<State0(rules, start)>>, -1, -1)
  IN IF r[2] < 0 THEN <<-1, -1>> ELSE r

\* search_start: a non-ignored terminal of the lexer used in the START state matches at q (each terminal's own regex;
\* the search is over the window).  Basic lexer: every non-ignored terminal.  Contextual lexer: the non-ignored terminals
\* the start state accepts (lexers[start_state].search_scanner) - so a start hiding inside what another tokenisation
\* would ignore is still found, and a position where only a terminal of some later state matches is not a candidate.
SearchSet(T, rules, start, las, contextual) ==
  {i \in Among(T, rules, start, las, <<State0(rules, start)>>, contextual) : ~T[i].ign}
Searchable(T, M, S, q) == \E i \in S : M[i][q + 1] > q

\* ---- L0 ----------------------------------------------------------------------------------------
RECURSIVE Matches0(_, _, _, _, _, _, _, _, _, _, _)
Matches0(T, M, SM, order, rules, start, las, contextual, n, from, acc) ==
  LET S == SearchSet(T, rules, start, las, contextual)
      good == {q \in from..(n - 1) : Searchable(T, M, S, q) /\ Attempt(T, M, SM, order, rules, start, las, contextual, n, q)[2] >= 0}
  IN IF good = {} THEN acc
     ELSE LET qs == CHOOSE q \in good : \A r \in good : q <= r
              m == Attempt(T, M, SM, order, rules, start, las, contextual, n, qs)
          IN Matches0(T, M, SM, order, rules, start, las, contextual, n, m[2], Append(acc, m))

\* ---- L1 ----------------------------------------------------------------------------------------
RECURSIVE Matches1(_, _, _, _, _, _, _, _, _, _, _)
Matches1(T, M, SM, order, rules, start, las, contextual, n, pos, acc) ==
  LET cand == {q \in pos..(n - 1) : Searchable(T, M, SearchSet(T, rules, start, las, contextual), q)} IN
  IF cand = {} THEN acc
  ELSE LET ms == CHOOSE q \in cand : \A r \in cand : q <= r                     \* search_start
           m == Attempt(T, M, SM, order, rules, start, las, contextual, n, ms)
       IN IF m[2] >= 0 THEN Matches1(T, M, SM, order, rules, start, las, contextual, n, m[2], Append(acc, m))   \* pos = end of match
          ELSE Matches1(T, M, SM, order, rules, start, las, contextual, n, ms + 1, acc)                        \* pos = match_start + 1
=============================================================================
