------------------------------- MODULE Matcher ------------------------------
(***************************************************************************)
(* L1 of C19: lark.tree_matcher.TreeMatcher - the grammar over CHILD       *)
(* SEQUENCES the Reconstructor parses the children of a tree node with.    *)
(*                                                                         *)
(* g : the parser's compiled rules, Seq of                                 *)
(*   [lhs, rhs (CFG.tla), origin, alias ("" if none), label, hasalias,     *)
(*    expand1, keepall, helper (origin is a _rule), empty,                 *)
(*    syms : Seq([name, isterm, filter_out, inl])]   (TreeBuilder.tla)     *)
(* A child of a node is seen by the matcher as a terminal: a sub-tree by   *)
(* its data, a token by its type  (TSym).                                  *)
(*                                                                         *)
(* _build_recons_rules:                                                    *)
(*   non-terminals of the matching grammar = _rules, ?rules and rules with *)
(*   aliases; every other rule reference becomes a terminal (the child is  *)
(*   a finished sub-tree); filtered terminals disappear;                   *)
(*   a rule goes either to the GENERAL rules (usable at any depth: _rules, *)
(*   single-symbol ?rule alternatives) or to the ROOT rules of its label   *)
(*   (only for the node being matched).                                    *)
(* L0: every node the parser can build (TreeBuilder.Callback over the      *)
(*     derivations of CFG.tla) is matched, and only by root rules of the   *)
(*     rule that built it (otherwise the text written for it parses to     *)
(*     something else).                                                    *)
(***************************************************************************)
EXTENDS CFG, TreeBuilder

TSym(n) == "t:" \o n
Origins(g) == {g[r].origin : r \in DOMAIN g}
Expand1s(g) == {g[r].origin : r \in {q \in DOMAIN g : g[q].expand1}}
Aliased(g) == {g[r].origin : r \in {q \in DOMAIN g : g[q].alias # ""}}
Helpers(g) == {g[r].origin : r \in {q \in DOMAIN g : g[q].helper}}
MNonTerms(g) == Helpers(g) \cup Expand1s(g) \cup Aliased(g)

KeptSyms(rule) == SelectSeq(rule.syms, LAMBDA x : ~(x.isterm /\ x.filter_out))          \* is_discarded_terminal
ReconsExp(g, r) == [i \in DOMAIN KeptSyms(g[r]) |->
                      LET x == KeptSyms(g[r])[i] IN IF ~x.isterm /\ x.name \in MNonTerms(g) THEN x.name ELSE TSym(x.name)]
MSym(g, r) == IF g[r].alias # "" THEN g[r].alias ELSE g[r].origin
Skipped(g, r) == ReconsExp(g, r) = <<g[r].origin>> /\ g[r].alias = ""                   \* self-recursive construct
ToRoot(g, r) == LET s == MSym(g, r) IN
  IF s \in Expand1s(g) /\ Len(ReconsExp(g, r)) # 1 THEN TRUE
  ELSE ~(s \in Helpers(g) \/ s \in Expand1s(g))

\* matching rules: [lhs, rhs, o (the origin of the rule it was made from)]
General(g) ==
  {[lhs |-> MSym(g, r), rhs |-> ReconsExp(g, r), o |-> g[r].origin] : r \in {q \in DOMAIN g : ~Skipped(g, q) /\ ~ToRoot(g, q)}}
  \cup {[lhs |-> MSym(g, r), rhs |-> <<TSym(MSym(g, r))>>, o |-> g[r].origin] :
          r \in {q \in DOMAIN g : ~Skipped(g, q) /\ MSym(g, q) \in Expand1s(g) /\ Len(ReconsExp(g, q)) # 1}}
  \cup {[lhs |-> g[r].origin, rhs |-> <<TSym(g[r].alias)>>, o |-> g[r].origin] : r \in {q \in DOMAIN g : g[q].alias # ""}}
  \cup {[lhs |-> o, rhs |-> <<TSym(o)>>, o |-> o] : o \in Aliased(g)}
RootRules(g, label) ==
  {[lhs |-> MSym(g, r), rhs |-> ReconsExp(g, r), o |-> g[r].origin] : r \in {q \in DOMAIN g : ~Skipped(g, q) /\ ToRoot(g, q) /\ MSym(g, q) = label}}

SetToSeqM(S) == CHOOSE f \in [1..Cardinality(S) -> S] : \A a, b \in 1..Cardinality(S) : a # b => f[a] # f[b]
AsRules(S) == LET q == SetToSeqM(S) IN [i \in DOMAIN q |-> [lhs |-> q[i].lhs, rhs |-> q[i].rhs]]

Kinds(v) == [i \in DOMAIN v[3] |-> TSym(v[3][i][2])]
\* match_tree(tree, tree.data): the children are a sentence of the root rules of the label plus the general rules
MatchTree(g, v) == InLang(AsRules(General(g) \cup RootRules(g, v[2])), v[2], Kinds(v))
\* the root rules through which the children can be derived
MatchingRoots(g, v) ==
  {rho \in RootRules(g, v[2]) : InLang(AsRules(General(g) \cup {[lhs |-> "$root", rhs |-> rho.rhs, o |-> rho.o]}), "$root", Kinds(v))}

\* ---- the nodes the parser builds ----------------------------------------------------------------------------------
RECURSIVE Shape(_, _)
Shape(g, d) == IF d[1] = "t" THEN Tok(d[2], d[3], d[4]) ELSE Callback(g[d[2]], [k \in DOMAIN d[3] |-> Shape(g, d[3][k])], FALSE)
\* <<node, rule>> for every node a reduction creates that stays in the tree (helper trees are spliced away)
RECURSIVE NodesOf(_, _)
NodesOf(g, d) ==
  IF d[1] = "t" THEN {}
  ELSE LET v == Shape(g, d)
           below == UNION {NodesOf(g, d[3][k]) : k \in DOMAIN d[3]}
           created == IsTree(v) /\ ~g[d[2]].helper /\ v \notin {Shape(g, d[3][k]) : k \in DOMAIN d[3]}
       IN IF created THEN below \cup {<<v, d[2]>>} ELSE below

\* ---- known gaps (known findings C19-expand1-inlined, C19-alias-shared) as predicates over the grammar -----------
Expand1OverInlinedG(g) ==
  \E r \in DOMAIN g : g[r].expand1 /\ LET k == KeptSyms(g[r]) IN Len(k) = 1 /\ k[1].inl
LabelShared(g) == \E a, b \in DOMAIN g : g[a].origin # g[b].origin /\ MSym(g, a) = MSym(g, b)
=============================================================================
