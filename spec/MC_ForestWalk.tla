--------------------------- MODULE MC_ForestWalk ---------------------------
(* every graph on NN inner nodes plus one token leaf, successor lists of length <= MaxDeg (repetitions allowed),
   both single_visit settings: the walk terminates, never holds a node twice on the current path, reports a cycle
   exactly when the next node is on the path, and with single_visit enters every node at most once. *)
EXTENDS ForestWalk, TLC
CONSTANTS NN, MaxDeg
Nodes == 1..NN
TokNode == NN + 1
VARIABLES S, single, st
vars == <<S, single, st>>
Init == /\ S \in [Nodes -> UNION {[1..d -> Nodes \cup {TokNode}] : d \in 0..MaxDeg}]
        /\ single \in BOOLEAN
        /\ st = InitWalk(1)
Next == ~Done(st) /\ st' = Step(S, {TokNode}, single, st) /\ UNCHANGED <<S, single>>
Spec == Init /\ [][Next]_vars /\ WF_vars(Next)

PathNoDup == NoDup(st.path) /\ {st.path[i] : i \in DOMAIN st.path} = st.visiting
SingleVisitOnce == single => \A x \in Nodes : Cardinality({i \in DOMAIN st.ev : st.ev[i] = <<"in", x>>}) <= 1
InOutBalanced == Done(st) => \A x \in Nodes :
   Cardinality({i \in DOMAIN st.ev : st.ev[i] = <<"in", x>>}) = Cardinality({i \in DOMAIN st.ev : st.ev[i] = <<"out", x>>})
CycleOnlyOnPath == \A i \in DOMAIN st.ev : st.ev[i][1] = "cycle" =>
   \* at that moment the node was entered and not yet left
   Cardinality({j \in 1..i : st.ev[j] = <<"in", st.ev[i][2]>>}) > Cardinality({j \in 1..i : st.ev[j] = <<"out", st.ev[i][2]>>})
Terminates == <>Done(st)
=============================================================================
