----------------------------- MODULE MC_Errors -----------------------------
(***************************************************************************)
(* Design-level check for C08 on F_bnf(R, L): on grammars whose            *)
(* non-terminals are all productive, the Earley machine (Earley.tla) stops *)
(* exactly at the first token after which the prefix is no longer viable   *)
(* and its scan buffer expects exactly the legal next terminals; on        *)
(* reduced grammars without conflicts the LALR driver (LALR.tla) stops at  *)
(* the same token.                                                         *)
(***************************************************************************)
EXTENDS Earley, LALR, FiniteSetsExt, SequencesExt, TLC

CONSTANTS MaxRules, MaxLen, MaxRhs

NT == {"s", "a"}
T  == {"X", "Y"}
Syms == NT \cup T
Rhss == UNION {[1..m -> Syms] : m \in 0..MaxRhs}
Cand == {[lhs |-> A, rhs |-> r, prio |-> 0] : A \in NT, r \in Rhss}
WellFormed(G) ==
  /\ \E r \in G : r.lhs = "s"
  /\ \A r \in G : \A x \in Range(r.rhs) : x \in NT => \E q \in G : q.lhs = x
Grammars == {G \in UNION {kSubset(m, Cand) : m \in 1..MaxRules} : WellFormed(G)}
Inputs == UNION {[1..m -> T] : m \in 0..MaxLen}

VARIABLES rules, w, done, er, lr
vars == <<rules, w, done, er, lr>>

Init ==
  /\ \E G \in Grammars : rules = SetToSeq(G)
  /\ w \in Inputs
  /\ done = FALSE /\ er = <<>> /\ lr = <<>>

FirstBad ==
  LET bad == {k \in 1..Len(w) : ~Viable(rules, "s", SubSeq(w, 1, k))}
  IN IF bad = {} THEN 0 ELSE Min(bad)

Compute ==
  /\ ~done /\ done' = TRUE
  /\ er' = Run(rules, "s", w)
  /\ lr' = LET las == DPLookaheads(rules, "s") IN
           IF RRConflicts(rules, "s", las) # {} THEN <<"grammar-error">>
           ELSE IF SRConflicts(rules, "s", las) # {} THEN <<"sr">>
           ELSE ParseLR(rules, "s", las, w)
  /\ UNCHANGED <<rules, w>>

Next == Compute
Spec == Init /\ [][Next]_vars

AllProductive == NTs(rules) \subseteq Productive(rules)

EarleyErrorAtFirstBad ==
  (done /\ AllProductive) =>
     CASE er[1] = "accept" -> InLang(rules, "s", w)
       [] er[1] = "token"  -> er[2] = FirstBad
       [] er[1] = "eof"    -> FirstBad = 0 /\ ~InLang(rules, "s", w)

EarleyExpectedExact ==
  (done /\ AllProductive) =>
     CASE er[1] = "accept" -> TRUE
       [] er[1] = "token"  -> er[3] = NextTerminals(rules, "s", SubSeq(w, 1, er[2] - 1))
       [] er[1] = "eof"    -> er[2] = NextTerminals(rules, "s", w)

LALRErrorAtFirstBad ==
  (done /\ Reduced(rules, "s") /\ lr[1] \in {"accept", "error"}) =>
     IF lr[1] = "accept" THEN InLang(rules, "s", w)
     ELSE lr[2] = (IF FirstBad = 0 THEN Len(w) + 1 ELSE FirstBad)
=============================================================================
