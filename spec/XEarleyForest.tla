--------------------------- MODULE XEarleyForest ----------------------------
(***************************************************************************)
(* The packed forest of the dynamic (character-level) scanner:             *)
(* XEarley.tla's scan with the families of EarleyForest.tla.               *)
(*                                                                         *)
(* delayed : <<end, item, istoken, from>>  (from: the column the item was  *)
(*           in when it was queued - its node ends there)                  *)
(*  - a token entry advances the item: family                              *)
(*        <<label(advanced, end), rule, node(item, from), token(from,end)>>*)
(*  - an entry carried over ignored text keeps the item; its node is       *)
(*    RELABELLED to end at `end`: the families of label(item, from) are    *)
(*    copied to label(item, end)  ("both represent the same symbol, so     *)
(*    merge their children")                                               *)
(*  - completed start items followed by ignored text:                      *)
(*      RootsInChart = TRUE  : the pinned code - carried like any entry,   *)
(*                             put into the column, completed AGAIN there  *)
(*      RootsInChart = FALSE : the code since d1dc4d2 - kept on the side   *)
(*                             (roots: <<end, item, from>>) and merged     *)
(*                             into the last column's node at the end      *)
(* L0: the trees of the root are the derivations of all tilings of the     *)
(*     text by tokens and ignored matches, each once.                      *)
(***************************************************************************)
EXTENDS EarleyForest
CONSTANT RootsInChart

XEnds(L, text, i, all) ==
  LET es == {e \in (i + 1)..Len(text) : SubSeq(text, i + 1, e) \in L}
  IN IF es = {} \/ all THEN es ELSE {CHOOSE e \in es : \A f \in es : f <= e}
XTok(name, from, end) == <<"tok", <<name, 0, 0>>, from, end>>
CopyFams(F, old, new) == {Fam(new, f[2], f[3], f[4]) : f \in FamsOf(F, old)}

XFScan(rules, start, langs, ignores, text, complete, st, delayed, roots, i) ==
  LET tokEntries == UNION {{<<e, it, TRUE, i>> : e \in XEnds(langs[Expect(rules, it)], text, i, complete)} : it \in st.toScan}
      startDone == {it \in st.col : IsComplete(rules, it) /\ Lhs(rules, it) = start /\ (RootsInChart \/ it[3] = 0)}
      igEnds == UNION {XEnds(ignores[g], text, i, complete) : g \in DOMAIN ignores}
      carried == UNION {{<<e, it, FALSE, i>> : it \in st.toScan \cup (IF RootsInChart THEN startDone ELSE {})} : e \in igEnds}
      rootsHere == {r \in roots : r[1] = i} \cup {<<i, it, i>> : it \in (IF RootsInChart THEN {} ELSE startDone)}
      roots2 == (roots \ {r \in roots : r[1] = i}) \cup UNION {{<<e, r[2], r[3]>> : r \in rootsHere} : e \in igEnds}
      d2 == delayed \cup tokEntries \cup carried
      now == {d \in d2 : d[1] = i + 1}
      newItems == {IF d[3] THEN Advance(d[2]) ELSE d[2] : d \in now}
      nextE == {it \in newItems : ~ExpectsTerm(rules, it)}
      rest == d2 \ now
      tokFams == {Fam(Label(rules, Advance(d[2]), i + 1), d[2][1], NodeOf(rules, d[2], d[4]), XTok(Expect(rules, d[2]), d[4], i + 1)) : d \in {x \in now : x[3]}}
      copyFams == UNION {IF d[2][2] = 0 THEN {} ELSE CopyFams(st.fam, Label(rules, d[2], d[4]), Label(rules, d[2], i + 1)) : d \in {x \in now : ~x[3]}}
  IN [st |-> [cols |-> Append(st.cols, st.col), col |-> nextE, work |-> nextE, toScan |-> newItems \ nextE, held |-> {}, i |-> i + 1,
              fam |-> st.fam \cup tokFams \cup copyFams],
      delayed |-> rest, roots |-> roots2,
      dead |-> nextE = {} /\ rest = {} /\ (newItems \ nextE) = {} /\ roots2 = {}]

\* <<accepted, forest>>
RECURSIVE XFRunFrom(_, _, _, _, _, _, _, _, _, _)
XFRunFrom(rules, start, langs, ignores, text, complete, st, delayed, roots, i) ==
  LET s1 == FRunColumn(rules, st) IN
  IF i = Len(text) THEN
     LET mine == {r \in roots : r[1] = i}
         merged == UNION {CopyFams(s1.fam, Label(rules, r[2], r[3]), Label(rules, r[2], i)) : r \in mine}
     IN <<Solutions(rules, start, s1) # {} \/ mine # {}, s1.fam \cup merged>>
  ELSE LET x == XFScan(rules, start, langs, ignores, text, complete, s1, delayed, roots, i) IN
       IF x.dead THEN <<FALSE, s1.fam>>
       ELSE XFRunFrom(rules, start, langs, ignores, text, complete, x.st, x.delayed, x.roots, i + 1)
XFRun(rules, start, langs, ignores, text, complete) ==
  XFRunFrom(rules, start, langs, ignores, text, complete, FInitState(rules, start), {}, {}, 0)

\* ---- L0: tilings of the text by tokens (kept) and ignored matches (dropped), and their derivations ---------------------
RECURSIVE Tilings(_, _, _, _, _)
\* sequences of <<terminal, from, end>> covering text[pos..] with ignored matches in between
Tilings(langs, ignores, text, complete, pos) ==
  IF pos = Len(text) THEN {<<>>}
  ELSE UNION {UNION {{<<<<t, pos, e>>>> \o rest : rest \in Tilings(langs, ignores, text, complete, e)} : e \in XEnds(langs[t], text, pos, complete)} : t \in DOMAIN langs}
       \cup UNION {UNION {Tilings(langs, ignores, text, complete, e) : e \in XEnds(ignores[g], text, pos, complete)} : g \in DOMAIN ignores}
RECURSIVE Reanchor(_, _)
Reanchor(d, tl) == IF d[1] = "t" THEN <<"t", d[2], tl[d[3] + 1][2], tl[d[3] + 1][3]>> ELSE <<"n", d[2], [k \in DOMAIN d[3] |-> Reanchor(d[3][k], tl)]>>
TextDerivs(rules, start, langs, ignores, text, complete) ==
  UNION {{Reanchor(d, tl) : d \in Derivs(rules, start, [k \in DOMAIN tl |-> tl[k][1]])} : tl \in Tilings(langs, ignores, text, complete, 0)}
XRoot(start, text) == <<"sym", <<start, 0, 0>>, 0, Len(text)>>
=============================================================================
