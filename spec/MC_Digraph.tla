---------------------------- MODULE MC_Digraph -----------------------------
(* every graph on NN nodes, every iteration order of every successor set and of X, G(x) = {x}:
   the SCC traversal (L1) computes the least solution (L0).  With G(x) = {x} the result is
   reachability, which distinguishes every wrong propagation. *)
EXTENDS Digraph, SequencesExt, TLC
CONSTANT NN
Nodes == 1..NN
Perms(S) == {p \in [1..Cardinality(S) -> S] : \A i, j \in DOMAIN p : i # j => p[i] # p[j]}
VARIABLES R, order, done
Init == /\ R \in [Nodes -> UNION {Perms(S) : S \in SUBSET Nodes}]
        /\ order \in Perms(Nodes)
        /\ done = FALSE
Next == ~done /\ done' = TRUE /\ UNCHANGED <<R, order>>
Spec == Init /\ [][Next]_<<R, order, done>>
G == [x \in Nodes |-> {x}]
L1EqualsL0 == DigraphL1(NN, R, G, order) = Lfp(NN, R, G)
=============================================================================
