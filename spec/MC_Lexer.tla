------------------------------ MODULE MC_Lexer -----------------------------
(***************************************************************************)
(* Design-level check of Lexer.tla with terminals as finite languages over *)
(* the alphabet {a=1, b=2, A=3}: every set of <= MaxTerms terminals from   *)
(* the catalogue, every priority assignment in {0,1}, every ignore choice  *)
(* of at most one terminal, every text up to MaxLen.                       *)
(***************************************************************************)
EXTENDS Lexer, FiniteSetsExt, SequencesExt, TLC
CONSTANTS MaxTerms, MaxLen

Alphabet == 1..3
Texts == UNION {[1..m -> Alphabet] : m \in 0..MaxLen}
Strs(S) == UNION {[1..m -> S] : m \in 1..MaxLen}

\* catalogue: name, isstr, spelling (strings), language, own flags
Cat == <<
  [name |-> "KA",  isstr |-> TRUE,  sp |-> <<1>>,    lang |-> {<<1>>},              fl |-> {}],
  [name |-> "KAB", isstr |-> TRUE,  sp |-> <<1, 2>>, lang |-> {<<1, 2>>},           fl |-> {}],
  [name |-> "KAI", isstr |-> TRUE,  sp |-> <<1>>,    lang |-> {<<1>>, <<3>>},       fl |-> {"i"}],
  [name |-> "KB",  isstr |-> TRUE,  sp |-> <<2>>,    lang |-> {<<2>>},              fl |-> {}],
  [name |-> "RLOW", isstr |-> FALSE, sp |-> <<>>,    lang |-> Strs({1, 2}),         fl |-> {}],
  [name |-> "RUPP", isstr |-> FALSE, sp |-> <<>>,    lang |-> Strs({3}),            fl |-> {}],
  [name |-> "RANYI", isstr |-> FALSE, sp |-> <<>>,   lang |-> Strs({1, 2, 3}),      fl |-> {"i"}],
  [name |-> "RAS",  isstr |-> FALSE, sp |-> <<>>,    lang |-> Strs({1}),            fl |-> {}],
  [name |-> "RABQ", isstr |-> FALSE, sp |-> <<>>,    lang |-> {<<1>>, <<1, 2>>},    fl |-> {}],
  \* a regexp no wider than the one-character strings: it sorts AFTER them (same width and pattern length, later name)
  [name |-> "RDOT", isstr |-> FALSE, sp |-> <<>>,    lang |-> {<<1>>, <<2>>, <<3>>}, fl |-> {}]
>>
MaxW(l) == Max({Len(s) : s \in l})
PLen(c) == IF c.isstr THEN Len(c.sp) ELSE (IF c.name = "RABQ" THEN 3 ELSE IF c.name = "RAS" THEN 2 ELSE IF c.name = "RDOT" THEN 1 ELSE 6)
Rank == [n \in {Cat[i].name : i \in DOMAIN Cat} |-> CHOOSE i \in DOMAIN Cat : Cat[i].name = n]

VARIABLES T, lang, text, among
vars == <<T, lang, text, among>>

\* longest prefix of text[p+1..] in l (end offset), 0 if none
Greedy(l, txt, p) ==
  LET ends == {e \in (p + 1)..Len(txt) : SubSeq(txt, p + 1, e) \in l} IN IF ends = {} THEN 0 ELSE Max(ends)
MT == [i \in DOMAIN T |-> [q \in 1..(Len(text) + 1) |-> Greedy(lang[i], text, q - 1)]]
SMx == [r \in DOMAIN T |-> [s \in DOMAIN T |->
          ~T[r].isstr /\ T[s].isstr /\
          LET sp == (CHOOSE c \in Range(Cat) : c.name = T[s].name).sp IN Greedy(lang[r], sp, 0) = Len(sp)]]

Init ==
  /\ \E S \in {X \in SUBSET (DOMAIN Cat) : Cardinality(X) \in 1..MaxTerms} :
     \E pr \in [S -> {0, 1}] : \E ig \in SUBSET S :
        /\ Cardinality(ig) <= 1 /\ ig # S
        /\ LET sq == SetToSeq(S) IN
           /\ T = [k \in DOMAIN sq |-> [name |-> Cat[sq[k]].name, prio |-> pr[sq[k]], maxw |-> MaxW(Cat[sq[k]].lang),
                                         plen |-> PLen(Cat[sq[k]]), isstr |-> Cat[sq[k]].isstr, fl |-> Cat[sq[k]].fl,
                                         ign |-> sq[k] \in ig, nlcode |-> FALSE]]
           /\ lang = [k \in DOMAIN sq |-> Cat[sq[k]].lang]
  /\ text \in Texts
  /\ among \in SUBSET (DOMAIN T)
Next == UNCHANGED vars
Spec == Init /\ [][Next]_vars
\* the same family with every priority 0 and nothing ignored (cheap enough for one more terminal)
SpecFlat == (Init /\ \A i \in DOMAIN T : T[i].prio = 0 /\ ~T[i].ign) /\ [][Next]_vars

Ord == Order(T, Rank)
All == DOMAIN T
L0 == Tiling(T, MT, Ord, All, 0, Len(text), <<>>)
L1 == Lex1(T, MT, SMx, Ord, All, 0, Len(text), <<>>)

\* the code's tiling is the documented one wherever the two token choices agree (the tilings are built from them)
L1IsL0UnlessDeviation ==
  (\A p \in 0..(Len(text) - 1) : ~SpellingDeviation(T, MT, SMx, Ord, All, p)) => L1 = L0
\* EXPECTED TO FAIL (model sensitivity, run by the harness): the deviations are real -
\*  L1IsL0: KAI "a"i with RUPP /[A]+/ on "A" (spelling);
\*  L1IsL0UnlessSpelling: KA "a", KAI "a"i, RDOT /./ on "a" - KA is embedded in RDOT and leaves the scanner, KAI answers
\*  before RDOT is asked (known finding C07-embedded-order)
L1IsL0 == L1 = L0
L1IsL0UnlessSpelling ==
  (\A p \in 0..(Len(text) - 1) : ~(SpellingDeviation(T, MT, SMx, Ord, All, p) /\ DevKind(T, MT, SMx, Ord, All, p) = "spelling")) => L1 = L0

TilingCovers ==
  LET toks == L0[1] IN
  /\ \A k \in DOMAIN toks : toks[k][3] > toks[k][2] /\ MT[toks[k][1]][toks[k][2] + 1] >= toks[k][3]
  /\ \A k \in 1..(Len(toks) - 1) : toks[k + 1][2] = toks[k][3]
  /\ (toks # <<>> => toks[1][2] = 0)
  /\ (L0[2] = -1 => (toks = <<>> /\ Len(text) = 0) \/ toks[Len(toks)][3] = Len(text))

\* contextual refinement: if every token of the full lexer has a type the context allows (or is ignored),
\* the lexer restricted to the context (plus ignored terminals) yields the same tokens - for terminal sets whose
\* regexp terminals do not overlap one another, as the property says.  Without the proviso it is false at three
\* terminals:  KA "a", RLOW /[ab]+/, RANYI /[abA]+/i (RLOW first), text "aA", context {KA, RANYI}: the full lexer
\* says KA RANYI, the restricted one RANYI("aA").
\* With FOUR terminals the proviso is not enough either (EXPECTED TO FAIL under SpecFlat, MaxTerms = 4; known finding
\* C07-keyword-lost-in-context): KA "a", KAB "ab", KB "b", RAS /a+/, text "ab", context {KA, KAB, KB}: the full lexer types "a"
\* through RAS as KA, then KB; the restricted one has no RAS, so KA is not embedded there and KAB (wider) takes "ab".
RegexpsDisjoint == \A r, s \in All : (r # s /\ ~T[r].isstr /\ ~T[s].isstr) => lang[r] \cap lang[s] = {}
\* ... and from three terminals on (with RDOT) also KA "a", KAI "a"i, RDOT /./ on "a" with context {KA, KAI}: the full lexer
\* lost KA to RDOT and says KAI, the restricted one has no regexp and says KA (the embedded-order deviation again).
\* The statement that HOLDS: contextual refines basic unless one of the two recorded deviations is in play -
\*  no embedded-order deviation of the full lexer on this text, and no string of the context is a keyword (unless list) of a
\*  regexp that is outside the context: the full lexer reaches such a keyword through the regexp, under the regexp's width, the
\*  restricted one lets it compete under its own.
NoKnownDeviation(ctx) ==
  /\ \A p \in 0..(Len(text) - 1) : ~EmbeddedDeviation(T, MT, SMx, Ord, All, p)
  /\ ~\E s \in ctx, r \in All \ ctx : ~T[r].isstr /\ s \in Unless(T, SMx, r)      \* a keyword of the context whose regexp is outside it
RestrictionRefines ==
  LET ctx == among \cup {i \in All : T[i].ign} IN
  (RegexpsDisjoint /\ NoKnownDeviation(ctx) /\ L1[2] = -1 /\ \A k \in DOMAIN L1[1] : L1[1][k][1] \in ctx) =>
      Lex1(T, MT, SMx, Ord, ctx, 0, Len(text), <<>>) = L1
\* EXPECTED TO FAIL (model sensitivity): the property's proviso alone
RestrictionRefinesByProvisoAlone ==
  LET ctx == among \cup {i \in All : T[i].ign} IN
  (RegexpsDisjoint /\ L1[2] = -1 /\ \A k \in DOMAIN L1[1] : L1[1][k][1] \in ctx) =>
      Lex1(T, MT, SMx, Ord, ctx, 0, Len(text), <<>>) = L1
=============================================================================
