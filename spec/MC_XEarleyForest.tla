-------------------------- MODULE MC_XEarleyForest --------------------------
(* the forest of the dynamic scanner stands for the derivations of all tilings of the text, each once - on grammars of
   <= MaxRules rules over {s,a} x {X,Y} without derivation cycles, overlapping terminal languages over {1=a, 2=b}, ignored
   terminal none / " " / " " and "  " (3 = blank), every text up to MaxLen, dynamic and dynamic_complete.
   With RootsInChart = TRUE (the pinned code) TLC refutes NoDuplicate: defect 20 of DESIGN.md. *)
EXTENDS XEarleyForest, FiniteSetsExt, SequencesExt, TLC
CONSTANTS MaxRules, MaxLen
NT == {"s", "a"}
T == {"X", "Y"}
Syms == NT \cup T
Rhss == UNION {[1..m -> Syms] : m \in 0..2}
Cand == {[lhs |-> A, rhs |-> r] : A \in NT, r \in Rhss}
WellFormed(G) == (\E r \in G : r.lhs = "s") /\ \A r \in G : \A x \in Range(r.rhs) : x \in NT => \E q \in G : q.lhs = x
Grammars == {G \in UNION {kSubset(m, Cand) : m \in 1..MaxRules} : WellFormed(G)}
Texts == UNION {[1..m -> 1..3] : m \in 0..MaxLen}
LangSets == { [X |-> {<<1>>, <<1, 2>>}, Y |-> {<<2>>, <<2, 2>>}],
              [X |-> {<<1>>, <<1, 1>>}, Y |-> {<<1, 2>>, <<3, 2>>}] }
IgSets == { <<>>, <<{<<3>>}>>, <<{<<3>>, <<3, 3>>}>> }
VARIABLES rules, langs, ig, text, complete
vars == <<rules, langs, ig, text, complete>>
Init == /\ \E G \in Grammars : rules = SetToSeq(G)
        /\ ~DerivCyclic(rules)
        /\ langs \in LangSets /\ ig \in IgSets /\ text \in Texts /\ complete \in BOOLEAN
Next == UNCHANGED vars
Spec == Init /\ [][Next]_vars
Res == XFRun(rules, "s", langs, ig, text, complete)
Want == TextDerivs(rules, "s", langs, ig, text, complete)
AcceptsIffDerivable == Res[1] <=> (Want # {})
ForestExact == Res[1] => TreesAt(Res[2], XRoot("s", text)) = Want
NoDuplicate == Res[1] => WaysAt(Res[2], XRoot("s", text)) = Cardinality(Want)
=============================================================================
