------------------------------- MODULE XEarley ------------------------------
(***************************************************************************)
(* lark/parsers/xearley.py: the dynamic (character-level) scanner on top   *)
(* of the Earley machine of Earley.tla.                                    *)
(*                                                                         *)
(* A terminal is a finite language (set of strings = sequences over the    *)
(* alphabet); term_matcher returns the LONGEST prefix of the rest of the   *)
(* text in the language (greedy = longest for these languages).            *)
(* Scan at position i, as in the code:                                     *)
(*  1. every item of the scan buffer whose terminal matches at i is put    *)
(*     into delayed[end] (with complete_lex: for every match length);      *)
(*  2. every ignored terminal that matches at i carries the WHOLE scan     *)
(*     buffer over to its end; a completed start item is remembered on the *)
(*     side for that end (since d1dc4d2; before, it was carried inside the *)
(*     chart)                                                              *)
(*     (with complete_lex: to every match length - the fix recorded as     *)
(*     C01 in known_findings.json);                                        *)
(*  3. column i+1 and the next scan buffer are built from delayed[i+1]:    *)
(*     token entries advance the item, carried entries keep it;            *)
(*  4. if column, scan buffer and delayed are all empty:                   *)
(*     UnexpectedCharacters at i.                                          *)
(* delayed: set of <<end, item, istoken>>.                                 *)
(***************************************************************************)
EXTENDS Earley

\* end offsets of the matches of language L at offset i of text (longest only, or all)
Ends(L, text, i, all) ==
  LET es == {e \in (i + 1)..Len(text) : SubSeq(text, i + 1, e) \in L}
  IN IF es = {} \/ all THEN es ELSE {CHOOSE e \in es : \A f \in es : f <= e}

\* st: the Earley state after RunColumn at position i; delayed: <<end, item, istoken>>;
\* roots: <<end>> marks - the start symbol was completed (from offset 0) and only ignored text follows up to `end`.
\* Since d1dc4d2 the completed start items are NOT carried inside the chart (their parents were advanced already and
\* travel with the scan buffer; completing them again recorded derivations twice - EarleyForest.tla's NoDuplicate is the
\* law that broke): they wait on the side and count only if the ignored text runs up to the end of the input.
XScan(rules, start, langs, ignores, text, complete, igcomplete, st, delayed, roots, i) ==
  LET tokEntries == UNION {{<<e, it, TRUE>> : e \in Ends(langs[Expect(rules, it)], text, i, complete)} : it \in st.toScan}
      startDone == {it \in st.col : IsComplete(rules, it) /\ Lhs(rules, it) = start /\ it[3] = 0}
      \* igcomplete: ignored terminals are tried at every match length too (the code since the C01 fix); FALSE = the pinned behaviour
      igEnds == UNION {Ends(ignores[g], text, i, igcomplete) : g \in DOMAIN ignores}
      carried == UNION {{<<e, it, FALSE>> : it \in st.toScan} : e \in igEnds}
      rootsHere == (i \in roots) \/ startDone # {}
      roots2 == (roots \ {i}) \cup (IF rootsHere THEN igEnds ELSE {})
      d2 == delayed \cup tokEntries \cup carried
      now == {d \in d2 : d[1] = i + 1}
      newItems == {IF d[3] THEN Advance(d[2]) ELSE d[2] : d \in now}
      nextE == {it \in newItems : ~ExpectsTerm(rules, it)}
      rest == d2 \ now
  IN [st |-> [cols |-> Append(st.cols, st.col), col |-> nextE, work |-> nextE, toScan |-> newItems \ nextE, held |-> {}, i |-> i + 1],
      delayed |-> rest,
      roots |-> roots2,
      dead |-> nextE = {} /\ rest = {} /\ (newItems \ nextE) = {} /\ roots2 = {}]

\* whole run: <<"accept">> | <<"chars", i>> | <<"eof">>
RECURSIVE XRunFrom(_, _, _, _, _, _, _, _, _, _, _)
XRunFrom(rules, start, langs, ignores, text, complete, igcomplete, st, delayed, roots, i) ==
  LET s1 == RunColumn(rules, st) IN
  IF i = Len(text) THEN (IF Solutions(rules, start, s1) # {} \/ i \in roots THEN <<"accept">> ELSE <<"eof">>)
  ELSE LET x == XScan(rules, start, langs, ignores, text, complete, igcomplete, s1, delayed, roots, i) IN
       IF x.dead THEN <<"chars", i>>
       ELSE XRunFrom(rules, start, langs, ignores, text, complete, igcomplete, x.st, x.delayed, x.roots, i + 1)
XRun(rules, start, langs, ignores, text, complete, igcomplete) ==
  XRunFrom(rules, start, langs, ignores, text, complete, igcomplete, InitState(rules, start), {}, {}, 0)

\* L0 spans out of the same languages
TSpans(rules, langs, text, all) ==
  UNION {UNION {{<<t, i, e>> : e \in Ends(langs[t], text, i, all)} : i \in 0..(Len(text) - 1)} : t \in DOMAIN langs}
IgSpans(ignores, text, all) ==
  UNION {UNION {{<<i, e>> : e \in Ends(ignores[g], text, i, all)} : i \in 0..(Len(text) - 1)} : g \in DOMAIN ignores}
XExpected(rules, start, langs, ignores, text, complete) ==
  CharInLang(rules, start, Len(text), TSpans(rules, langs, text, complete), IgSpans(ignores, text, complete))
=============================================================================
