------------------------------- MODULE EBNF -------------------------------
(***************************************************************************)
(* L0 - the meaning of a lark grammar AS WRITTEN (EBNF), with the          *)
(* documented tree shaping folded in.  Nothing here follows lark's         *)
(* compilation to BNF or its tree builder.                                 *)
(*                                                                         *)
(* grammar  G = [rules |-> Seq(rule)]                                      *)
(* rule     [name, expand1 (?), keepall (!), inline (_), prio,             *)
(*           alts |-> Seq([alias, body])]                                  *)
(* expr     [k |-> "tok",  name, keep]      terminal; keep = it is kept    *)
(*                                          without ! / keep_all_tokens    *)
(*                                          (named, no leading underscore) *)
(*          [k |-> "rule", name]                                           *)
(*          [k |-> "seq",  items]    [k |-> "alt", alts]                   *)
(*          [k |-> "opt",  x]        x?                                    *)
(*          [k |-> "maybe", x]       [x]                                   *)
(*          [k |-> "rep",  x, n, m]  x~n..m ;  x* is n=0, m=-1 ; x+ n=1    *)
(* input    w = sequence of terminal names (token level)                   *)
(* options  ka = keep_all_tokens, ph = maybe_placeholders                  *)
(*                                                                         *)
(* values   every value is a 4-tuple <<tag, label, index, children>> so    *)
(*          that TLC never compares values of different types:             *)
(*          token  <<"T", type, index, <<>>>>   None <<"N", "", 0, <<>>>>    *)
(*          tree   <<"R", data, 0, <<children>>>>                           *)
(* Match(e,i,j) is the set of *child lists* e contributes when it matches  *)
(* w[i..j).  Defined for grammars without derivation cycles (a repetition  *)
(* of a nullable item counts as a cycle).                                  *)
(***************************************************************************)
EXTENDS Integers, Sequences, FiniteSets

RangeE(f) == {f[x] : x \in DOMAIN f}
RuleNamed(G, n) == CHOOSE r \in RangeE(G.rules) : r.name = n
MaxOf(S) == IF S = {} THEN 0 ELSE CHOOSE x \in S : \A y \in S : y <= x
MinOf2(a, b) == IF a < b THEN a ELSE b

RECURSIVE SumSeq(_)
SumSeq(s) == IF s = <<>> THEN 0 ELSE Head(s) + SumSeq(Tail(s))

\* "as many None as its longest alternative keeps symbols": symbols that become exactly one child each
RECURSIVE KeptSize(_, _, _)
KeptSize(G, e, ka) ==
  CASE e.k = "tok"   -> IF e.keep \/ ka THEN 1 ELSE 0
    [] e.k = "rule"  -> IF RuleNamed(G, e.name).inline THEN 0 ELSE 1
    [] e.k = "seq"   -> SumSeq([q \in DOMAIN e.items |-> KeptSize(G, e.items[q], ka)])
    [] e.k = "alt"   -> MaxOf({KeptSize(G, e.alts[q], ka) : q \in DOMAIN e.alts})
    [] e.k = "opt"   -> KeptSize(G, e.x, ka)
    [] e.k = "maybe" -> KeptSize(G, e.x, ka)
    [] e.k = "rep"   -> IF e.m < 0 THEN 0 ELSE e.m * KeptSize(G, e.x, ka)

NoneV == <<"N", "", 0, <<>>>>
Nones(n) == [q \in 1..n |-> NoneV]

\* ---- minimal match length (prunes the search so that recursion happens on strictly smaller spans, or on the
\*      same span only through nullable siblings - which is a derivation cycle and excluded) ----------------------
Big == 1000000
RECURSIVE MinLenE(_, _)
MinLenE(ML, e) ==
  CASE e.k = "tok"   -> 1
    [] e.k = "rule"  -> ML[e.name]
    [] e.k = "seq"   -> LET t == SumSeq([q \in DOMAIN e.items |-> MinLenE(ML, e.items[q])]) IN IF t > Big THEN Big ELSE t
    [] e.k = "alt"   -> LET S == {MinLenE(ML, e.alts[q]) : q \in DOMAIN e.alts} IN CHOOSE x \in S : \A y \in S : x <= y
    [] e.k = "opt"   -> 0
    [] e.k = "maybe" -> 0
    [] e.k = "rep"   -> LET t == e.n * MinLenE(ML, e.x) IN IF t > Big THEN Big ELSE t
\* an upper bound of the match length (Big = unknown/unbounded); only used to prune
RECURSIVE MaxLenE(_)
MaxLenE(e) ==
  CASE e.k = "tok"   -> 1
    [] e.k = "rule"  -> Big
    [] e.k = "seq"   -> LET t == SumSeq([q \in DOMAIN e.items |-> MaxLenE(e.items[q])]) IN IF t > Big THEN Big ELSE t
    [] e.k = "alt"   -> MaxOf({MaxLenE(e.alts[q]) : q \in DOMAIN e.alts})
    [] e.k = "opt"   -> MaxLenE(e.x)
    [] e.k = "maybe" -> MaxLenE(e.x)
    [] e.k = "rep"   -> IF e.m < 0 \/ MaxLenE(e.x) >= Big THEN Big ELSE e.m * MaxLenE(e.x)
Within(len, e) == MaxLenE(e) >= Big \/ len <= MaxLenE(e)

RECURSIVE MinLenLfp(_, _)
MinLenLfp(G, ML) ==
  LET ML2 == [nm \in DOMAIN ML |->
                LET r == RuleNamed(G, nm)
                    S == {MinLenE(ML, r.alts[q].body) : q \in DOMAIN r.alts}
                IN CHOOSE x \in S : \A y \in S : x <= y]
  IN IF ML2 = ML THEN ML ELSE MinLenLfp(G, ML2)
MinLens(G) == MinLenLfp(G, [nm \in {G.rules[q].name : q \in DOMAIN G.rules} |-> Big])

\* context: [G, w, ph, ML]
RECURSIVE Match(_, _, _, _, _), MatchSeq(_, _, _, _, _, _), MatchRep(_, _, _, _, _, _, _), RuleResults(_, _, _, _),
          MinRest(_, _, _)

Match(cx, ka, e, i, j) ==
  IF j - i < MinLenE(cx.ML, e) \/ ~Within(j - i, e) THEN {} ELSE
  CASE e.k = "tok" ->
         IF j = i + 1 /\ i < Len(cx.w) /\ cx.w[i + 1] = e.name
         THEN {IF e.keep \/ ka THEN << <<"T", e.name, i, <<>>>> >> ELSE <<>>}
         ELSE {}
    [] e.k = "rule" -> RuleResults(cx, e.name, i, j)
    [] e.k = "seq" -> MatchSeq(cx, ka, e.items, 1, i, j)
    [] e.k = "alt" -> UNION {Match(cx, ka, e.alts[q], i, j) : q \in DOMAIN e.alts}
    [] e.k = "opt" -> Match(cx, ka, e.x, i, j) \cup (IF i = j THEN {<<>>} ELSE {})
    [] e.k = "maybe" ->
         Match(cx, ka, e.x, i, j)
         \cup (IF i = j THEN {Nones(IF cx.ph THEN KeptSize(cx.G, e.x, ka) ELSE 0)} ELSE {})
    [] e.k = "rep" ->
         \* x* / x+ : every occurrence consumes at least one token (a nullable x would be a derivation cycle), so at
         \* most j-i occurrences;  x~n..m : exactly the stated counts, occurrences may be empty
         IF e.m < 0 THEN UNION {MatchRep(cx, ka, e.x, c, i, j, 1) : c \in e.n..MaxOf({e.n, j - i})}
         ELSE UNION {MatchRep(cx, ka, e.x, c, i, j, 0) : c \in e.n..e.m}

\* minimal length of items[k..]
MinRest(ML, items, k) == IF k > Len(items) THEN 0 ELSE MinLenE(ML, items[k]) + MinRest(ML, items, k + 1)

MatchSeq(cx, ka, items, k, i, j) ==
  IF k > Len(items) THEN (IF i = j THEN {<<>>} ELSE {})
  ELSE IF k = Len(items) THEN Match(cx, ka, items[k], i, j)
  ELSE UNION { LET rest == MatchSeq(cx, ka, items, k + 1, m, j) IN
               IF rest = {} THEN {}
               ELSE {a \o b : a \in Match(cx, ka, items[k], i, m), b \in rest}
               : m \in {q \in i..j : /\ q - i >= MinLenE(cx.ML, items[k]) /\ Within(q - i, items[k])
                                      /\ j - q >= MinRest(cx.ML, items, k + 1)} }

\* exactly c consecutive occurrences of x over (i,j), each at least `lo` tokens long
MatchRep(cx, ka, x, c, i, j, lo) ==
  IF c = 0 THEN (IF i = j THEN {<<>>} ELSE {})
  ELSE IF c = 1 THEN (IF j - i >= lo THEN Match(cx, ka, x, i, j) ELSE {})
  ELSE UNION { LET rest == MatchRep(cx, ka, x, c - 1, m, j, lo) IN
               IF rest = {} THEN {}
               ELSE {a \o b : a \in Match(cx, ka, x, i, m), b \in rest}
               : m \in {q \in (i + lo)..j : /\ Within(q - i, x) /\ q - i >= MinLenE(cx.ML, x)
                                             /\ j - q >= (c - 1) * MinLenE(cx.ML, x)
                                             /\ (MaxLenE(x) >= Big \/ j - q <= (c - 1) * MaxLenE(x))} }

\* what a reference to rule `name` contributes: the node, or (inlined / ?-collapsed) its children
RuleResults(cx, name, i, j) ==
  LET r == RuleNamed(cx.G, name) IN
  UNION { LET al == r.alts[q] IN
          { IF r.inline THEN cl
            ELSE IF r.expand1 /\ al.alias = "" /\ Len(cl) = 1 THEN cl
            ELSE << <<"R", IF al.alias # "" THEN al.alias ELSE r.name, 0, cl>> >>
            : cl \in Match(cx, r.keepall \/ cx.G.ka, al.body, i, j) }
          : q \in DOMAIN r.alts }

Ctx(G, w) == [G |-> G, w |-> w, ph |-> G.ph, ML |-> MinLens(G)]
\* the shaped trees of the whole input (each result is a one-element child list for a proper start rule)
TreesOfInput(G, w) == {cl[1] : cl \in {c \in RuleResults(Ctx(G, w), G.start, 0, Len(w)) : Len(c) = 1}}
InLangE(G, w) == RuleResults(Ctx(G, w), G.start, 0, Len(w)) # {}

(***************************************************************************)
(* Expansion of a result that contains _ambig nodes into the set of plain  *)
(* trees it stands for (used for ambiguity='explicit').                    *)
(***************************************************************************)
RECURSIVE Expand(_), ExpandKids(_, _)
Expand(t) ==
  IF t[1] # "R" THEN {t}
  ELSE IF t[2] = "_ambig" THEN UNION {Expand(t[4][q]) : q \in DOMAIN t[4]}
  ELSE {<<"R", t[2], 0, ks>> : ks \in ExpandKids(t[4], 1)}
ExpandKids(kids, k) ==
  IF k > Len(kids) THEN {<<>>}
  ELSE {<<a>> \o b : a \in Expand(kids[k]), b \in ExpandKids(kids, k + 1)}

\* trees with every None removed (to recognise the "first empty spelling" convention)
RECURSIVE StripN(_)
StripN(t) ==
  IF t[1] # "R" THEN t
  ELSE <<"R", t[2], 0, LET ks == SelectSeq(t[4], LAMBDA c : c[1] # "N") IN [q \in DOMAIN ks |-> StripN(ks[q])]>>

\* canonical form used only for the *completeness* comparison of ambiguity='explicit': alternatives of a rule that
\* expand to the same empty symbol sequence are one production, of which lark keeps the first spelling (its
\* placeholder layout and its alias): Nones are dropped and a node without children loses its label
\* X: names of ?rules.  Whether a ?rule node is inlined depends on the number of its children, Nones included - so the
\* spelling of an unmatched optional decides between  z(None, c)  and  c ; after dropping the Nones a ?rule node
\* with one child left is replaced by that child
RECURSIVE CanonX(_, _)
CanonX(t, X) ==
  IF t[1] = "N" THEN <<"R", "", 0, <<>>>>
  ELSE IF t[1] # "R" THEN t
  ELSE LET cs == [q \in DOMAIN t[4] |-> CanonX(t[4][q], X)]
           ks == SelectSeq(cs, LAMBDA c : c # <<"R", "", 0, <<>>>>)      \* Nones and empty nodes are dropped
       IN IF ks = <<>> THEN <<"R", "", 0, <<>>>>
          ELSE IF Len(ks) = 1 /\ t[2] \in X THEN ks[1]
          ELSE <<"R", t[2], 0, ks>>
Canon(t) == CanonX(t, {})
=============================================================================
