------------------------------ MODULE MC_LALR ------------------------------
(***************************************************************************)
(* Design-level check for C02 on the bounded family F_bnf(R, L):           *)
(*  - lark's DeRemer-Pennello look-aheads (L1) equal the LR(1)-propagation *)
(*    look-aheads (L0) on every reduced grammar;                           *)
(*  - with lark's conflict policy the driver accepts only sentences, and   *)
(*    exactly the sentences when there is no shift/reduce conflict;        *)
(*  - the terminals the driver can consume after a prefix (trial feeding)  *)
(*    are terminals of the row of the current state.                       *)
(***************************************************************************)
EXTENDS LALR, FiniteSetsExt, SequencesExt, TLC

CONSTANTS MaxRules, MaxLen, MaxRhs

NT == {"s", "a"}
T  == {"X", "Y"}
Syms == NT \cup T
Rhss == UNION {[1..m -> Syms] : m \in 0..MaxRhs}
Cand == {[lhs |-> A, rhs |-> r, prio |-> 0] : A \in NT, r \in Rhss}
WellFormed(G) ==
  /\ \E r \in G : r.lhs = "s"
  /\ \A r \in G : \A x \in Range(r.rhs) : x \in NT => \E q \in G : q.lhs = x
Grammars == {G \in UNION {kSubset(m, Cand) : m \in 1..MaxRules} : WellFormed(G)}
Inputs == SetToSeq(UNION {[1..m -> T] : m \in 0..MaxLen})

VARIABLES rules, las, phase, k, res
vars == <<rules, las, phase, k, res>>

Init ==
  /\ \E G \in Grammars : rules = SetToSeq(G)
  /\ las = {} /\ phase = "new" /\ k = 0 /\ res = <<>>

Analyse ==
  /\ phase = "new"
  /\ las' = DPLookaheads(rules, "s")
  /\ phase' = IF RRConflicts(rules, "s", las') # {} THEN "grammar-error" ELSE "parse"
  /\ UNCHANGED <<rules, k, res>>

ParseOne ==
  /\ phase = "parse" /\ k < Len(Inputs)
  /\ k' = k + 1
  /\ res' = ParseLR(rules, "s", las, Inputs[k + 1])
  /\ UNCHANGED <<rules, las, phase>>

Next == Analyse \/ ParseOne
Spec == Init /\ [][Next]_vars

----------------------------------------------------------------------------
\* L1 = L0 on reduced grammars
DPEqualsProp ==
  (phase # "new" /\ Reduced(rules, "s")) => las = PropLookaheads(rules, "s")
\* on all grammars DP look-aheads are at least sound enough for the driver (checked through the language below)

Sound == (phase = "parse" /\ k > 0 /\ res[1] = "accept") => InLang(rules, "s", Inputs[k])
CompleteIfNoSR ==
  (phase = "parse" /\ k > 0 /\ SRConflicts(rules, "s", las) = {}) =>
      ((res[1] = "accept") <=> InLang(rules, "s", Inputs[k]))

\* after the accepted prefix (everything before the error) the consumable terminals are in the row
AcceptsInRow ==
  (phase = "parse" /\ k > 0 /\ res[1] = "error") =>
     LET stack == res[3] IN
     SpecAccepts(rules, "s", las, stack) \subseteq Row(rules, "s", las, stack[Len(stack)])
=============================================================================
