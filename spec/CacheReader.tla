----------------------------- MODULE CacheReader ----------------------------
(* the abstract cache file and the reader of lark's cache protocol as a function (shared by Cache.tla, the design
   model with writer steps, crashes and damage, and TraceCache.tla, the judge of real constructions) *)
EXTENDS Integers, Sequences, FiniteSets
P(k, i, kind) == [k |-> k, imp |-> i, kind |-> kind]
\* the reader as a function (what Open..LoadBody compute): the body served from the file, or "compile"
ReadOutcome(f, k, i) ==
  IF f.len = 0 THEN "compile"
  ELSE IF f.len < 2 \/ f.used = "bad" THEN "compile"
  ELSE IF ~(f.hdr = k /\ f.used = i) THEN "compile"
  ELSE IF f.len < 3 \/ f.body.kind = "raise" THEN "compile"
  ELSE "serve"

=============================================================================
