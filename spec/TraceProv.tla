------------------------------ MODULE TraceProv -----------------------------
(* C11 code -> spec: the result of a call does not mention provenance.  obs: prov (loaded | cached | standalone),
   res = digest of what this instance returned / raised for a call, ref = digest of what the instance built directly
   from the grammar with the same options returned for the same call. *)
EXTENDS Integers, Sequences, TraceBase
VARIABLES tid, oi, verdict
Init == tid \in 1..NCases /\ oi = 0 /\ verdict = "ok"
Next ==
  /\ oi < Len(Cases[tid].obs)
  /\ oi' = oi + 1
  /\ LET o == Cases[tid].obs[oi + 1]
         v == IF o.res # o.ref THEN o.prov \o "-instance-differs-from-the-directly-built-one" ELSE "ok"
     IN verdict' = Verdict(tid, oi + 1, v = "ok", v, oi + 1)
  /\ UNCHANGED tid
Spec == Init /\ [][Next]_<<tid, oi, verdict>>
VerdictOk == verdict = "ok"
=============================================================================
