------------------------------- MODULE TraceEnd -----------------------------
(* C08 code -> spec, LALR with a post-lexer: when the whole input is a proper prefix of a sentence, the unexpected $END
   carries the coordinates of the LAST TOKEN THE PARSER WAS FED (the post-lexed stream: tokens a post-lexer drops were never
   seen by the parser, tokens it creates were).
   case: fed Seq(<<start_pos, end_pos, line, column, end_line, end_column>>), tok: the same six of the $END token raised *)
EXTENDS Naturals, Sequences, TraceBase
VARIABLES tid, verdict
Init == tid \in 1..NCases /\ verdict = "start"
Next ==
  /\ verdict = "start"
  /\ LET c == Cases[tid]
         want == IF c.fed = <<>> THEN c.tok ELSE c.fed[Len(c.fed)]
         v == IF c.tok = want THEN "ok" ELSE "end-token-does-not-carry-the-coordinates-of-the-last-token-fed"
     IN verdict' = Verdict(tid, 1, v = "ok", v, Len(c.fed))
  /\ UNCHANGED tid
Spec == Init /\ [][Next]_<<tid, verdict>>
VerdictOk == verdict \in {"ok", "start"}
=============================================================================
