--------------------------- MODULE TraceDigraph ----------------------------
(* code -> spec for lalr_analysis.digraph: the recorded result F of a real call with the recorded
   arguments (n nodes, R as successor lists, G as value lists) must be the least solution (Digraph.tla L0). *)
EXTENDS Digraph, TraceBase
VARIABLES tid, verdict
Init == tid \in 1..NCases /\ verdict = "new"
SetOf(seq) == {seq[i] : i \in DOMAIN seq}
Next ==
  /\ verdict = "new"
  /\ LET c == Cases[tid]
         G == [x \in 1..c.n |-> SetOf(c.G[x])]
         F == [x \in 1..c.n |-> SetOf(c.F[x])]
         L == Lfp(c.n, c.R, G)
         bad == {x \in 1..c.n : F[x] # L[x]}
     IN verdict' = Verdict(tid, 1, bad = {}, "digraph-result-is-not-the-least-solution", bad)
  /\ UNCHANGED tid
Spec == Init /\ [][Next]_<<tid, verdict>>
VerdictOk == verdict \in {"new", "ok"}
=============================================================================
