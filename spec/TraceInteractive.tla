-------------------------- MODULE TraceInteractive --------------------------
(***************************************************************************)
(* C13 spec -> code -> spec: a behaviour exported from Interactive.tla was *)
(* executed on real InteractiveParser objects of a real grammar.  After    *)
(* every operation the replay recorded, for every live real handle, a      *)
(* digest of its state (state stack, value stack with token positions and  *)
(* tree meta) and the digest of a FRESH parser fed the history the         *)
(* specification assigns to that handle; for accepts() the returned set    *)
(* and the set found by trial feeding; at the end feed_eof on every handle *)
(* against parse() of its history.  This module re-executes the operations *)
(* with the semantics of Interactive.tla (hist, imm) and judges.           *)
(***************************************************************************)
EXTENDS Integers, Sequences, FiniteSets, TraceBase
VARIABLES tid, k, hist, imm, verdict
vars == <<tid, k, hist, imm, verdict>>
Ext(f, key, v) == [x \in DOMAIN f \cup {key} |-> IF x = key THEN v ELSE f[x]]
SetOf(s) == {s[i] : i \in DOMAIN s}

Init == tid \in 1..NCases /\ k = 0 /\ hist = [h \in {1} |-> <<>>] /\ imm = [h \in {1} |-> FALSE] /\ verdict = "ok"

Enabled(o) ==
  /\ o.h \in DOMAIN hist
  /\ CASE o.op = "feed" -> ~imm[o.h]
       [] o.op = "immfeed" -> imm[o.h]
       [] o.op \in {"copy", "as_immutable"} -> ~imm[o.h]
       [] o.op = "as_mutable" -> imm[o.h]
       [] OTHER -> TRUE
NewHist(o) ==
  CASE o.op = "feed" -> [hist EXCEPT ![o.h] = Append(@, o.t)]
    [] o.op = "immfeed" -> Ext(hist, o.new, Append(hist[o.h], o.t))
    [] o.op \in {"copy", "as_immutable", "as_mutable"} -> Ext(hist, o.new, hist[o.h])
    [] OTHER -> hist
NewImm(o) ==
  CASE o.op = "immfeed" -> Ext(imm, o.new, TRUE)
    [] o.op = "copy" -> Ext(imm, o.new, FALSE)
    [] o.op = "as_immutable" -> Ext(imm, o.new, TRUE)
    [] o.op = "as_mutable" -> Ext(imm, o.new, FALSE)
    [] OTHER -> imm

Judge(c, s, h2) ==
  LET o == s.o IN
  IF ~Enabled(o) THEN "operation-not-enabled-in-the-specification"
  \* the operation itself raised (recorded by the deep-copy histories: depth = nesting depth of the tree on the value stack;
  \* copy() deep-copies recursively - known finding C13-deep-copy-recursion from about 250 levels on)
  ELSE IF o.exc # "" THEN o.op \o "-raised-" \o o.exc \o (IF o.depth >= 200 THEN "@deep-value-stack" ELSE "")
  ELSE IF {s.hs[i][1] : i \in DOMAIN s.hs} # DOMAIN h2 THEN "live-handles-differ"
  ELSE IF \E i \in DOMAIN s.hs : s.hs[i][2] # h2[s.hs[i][1]] THEN "replay-used-a-different-history"
  ELSE IF \E i \in DOMAIN s.hs : s.hs[i][3] # s.hs[i][4] THEN "fork-state-differs-from-a-fresh-parser-fed-its-own-history"
  ELSE IF o.op = "accepts" /\ SetOf(s.acc[1]) # SetOf(s.acc[2]) THEN "accepts-is-not-the-set-of-feedable-terminals"
  \* s.acc[3]: the `expected` set of the UnexpectedToken raised for a token of no terminal at all, in the same state:
  \* every terminal that can be fed has an action in the state's row, so it is expected (and only terminals are)
  ELSE IF o.op = "accepts" /\ Len(s.acc) >= 4 /\ ~(SetOf(s.acc[2]) \subseteq SetOf(s.acc[3])) THEN "expected-of-UnexpectedToken-lacks-a-feedable-terminal"
  ELSE IF o.op = "accepts" /\ Len(s.acc) >= 4 /\ ~(SetOf(s.acc[3]) \subseteq SetOf(s.acc[4])) THEN "expected-of-UnexpectedToken-names-a-non-terminal"
  ELSE IF s.last /\ \E i \in DOMAIN s.eof : s.eof[i][2] # s.eof[i][3] THEN "feed_eof-result-differs-from-parse"
  ELSE "ok"

Next ==
  /\ k < Len(Cases[tid].steps)
  /\ k' = k + 1
  /\ LET c == Cases[tid]
         s == c.steps[k + 1]
         h2 == NewHist(s.o)
         v == Judge(c, s, h2)
     IN /\ verdict' = Verdict(tid, k + 1, v = "ok", v, s.o.op)
        /\ hist' = IF Enabled(s.o) THEN h2 ELSE hist
        /\ imm' = IF Enabled(s.o) THEN NewImm(s.o) ELSE imm
  /\ UNCHANGED tid
Spec == Init /\ [][Next]_vars
VerdictOk == verdict = "ok"
=============================================================================
