------------------------------ MODULE TraceScan -----------------------------
(***************************************************************************)
(* C14 code -> spec.  case: T, rank, SM (terminals as in TraceLex), rules  *)
(* (compiled, with prio), start, runs: n, a (window start), M, contextual, *)
(* real: list of [s, e, valueOk, coordsOk] yielded by the real scan()      *)
(* (valueOk: the match's value == parse(text[s:e]) up to the position      *)
(* shift, coordsOk: positions inside the value are those of the buffer -   *)
(* both compared on the real objects by the harness), exc.                 *)
(***************************************************************************)
EXTENDS Scan, TraceBase
VARIABLES tid, ri, las, verdict
vars == <<tid, ri, las, verdict>>
SetOf(seq) == {seq[i] : i \in DOMAIN seq}
TT(c) == [i \in DOMAIN c.T |-> [c.T[i] EXCEPT !.fl = SetOf(@)]]

RECURSIVE SubMatches(_, _)
SubMatches(P, p) ==
  LET cands == {x \in P : x[1] >= p} IN
  IF cands = {} THEN <<>>
  ELSE LET s == CHOOSE a \in {x[1] : x \in cands} : \A b \in {x[1] : x \in cands} : a <= b
           e == CHOOSE a \in {x[2] : x \in {y \in cands : y[1] = s}} : \A b \in {x[2] : x \in {y \in cands : y[1] = s}} : a >= b
       IN <<<<s, e>>>> \o SubMatches(P, e)

Judge(c, r, l) ==
  LET T == TT(c)
      order == Order(T, c.rank)
      m0 == Matches0(T, r.M, c.SM, order, c.rules, c.start, l, r.contextual, r.n, r.a, <<>>)
      m1 == Matches1(T, r.M, c.SM, order, c.rules, c.start, l, r.contextual, r.n, r.a, <<>>)
      real == [i \in DOMAIN r.real |-> <<r.real[i][1], r.real[i][2]>>]
  IN IF r.exc # "" THEN "scan-raised-" \o r.exc
     ELSE IF m0 # m1 THEN "spec:L1-differs-from-L0"
     ELSE IF \E i \in 1..(Len(real) - 1) : real[i][2] > real[i + 1][1] THEN "matches-overlap-or-not-increasing"
     ELSE IF real # m0 THEN
          (IF Len(real) < Len(m0) /\ real = SubSeq(m0, 1, Len(real)) THEN "match-missing"
           ELSE IF \E i \in DOMAIN real : i <= Len(m0) /\ real[i][1] = m0[i][1] /\ real[i][2] < m0[i][2] THEN "match-is-not-the-longest"
           ELSE "matches-differ-from-leftmost-longest")
     ELSE IF \E i \in DOMAIN r.real : ~r.real[i][3] THEN "value-differs-from-parse-of-the-snippet"
     ELSE IF \E i \in DOMAIN r.real : ~r.real[i][4] THEN "positions-are-not-those-of-the-full-text"
     \* the statement read over substrings (r.sub: every [s, e) that parses on its own without ignored text at its ends):
     \* leftmost start, then longest end, then on from there.  scan() lexes every attempt against the whole remaining text, so
     \* maximal munch can reach past a snippet that parses, and a start inside a prefix the attempt ignored is never tried
     ELSE IF r.hassub /\ SubMatches(AsSet(r.sub), r.a) # real THEN "leftmost-longest-over-substrings-differs@lexed-in-context"
     ELSE "ok"

Init == tid \in 1..NCases /\ ri = -1 /\ las = {} /\ verdict = "ok"
Prepare == /\ ri = -1 /\ ri' = 0
           /\ las' = LET c == Cases[tid] IN IF Reduced(c.rules, c.start) THEN PropLookaheads(c.rules, c.start) ELSE DPLookaheads(c.rules, c.start)
           /\ UNCHANGED <<tid, verdict>>
One == /\ ri >= 0 /\ ri < Len(Cases[tid].runs) /\ ri' = ri + 1
       /\ LET v == Judge(Cases[tid], Cases[tid].runs[ri + 1], las) IN verdict' = Verdict(tid, ri + 1, v = "ok", v, ri + 1)
       /\ UNCHANGED <<tid, las>>
Next == Prepare \/ One
Spec == Init /\ [][Next]_vars
VerdictOk == verdict = "ok"
=============================================================================
