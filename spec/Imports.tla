------------------------------- MODULE Imports ------------------------------
(***************************************************************************)
(* L0 - what %import (with renaming and dependencies), %override, %extend  *)
(* and template instantiation MEAN: the grammar obtained by writing the    *)
(* definitions out, with the documented names.  The result is a grammar    *)
(* for EBNF.tla, whose trees are then compared with what the real lark     *)
(* returns for the grammar that uses the statements.                       *)
(*                                                                         *)
(* system : [mods |-> name -> module, main |-> name, ka, ph]               *)
(* module : [rules   |-> Seq(rule)           (EBNF rules, see EBNF.tla;    *)
(*                        a rule may have params: Seq(STRING), templates), *)
(*           imports |-> Seq([from, names |-> Seq([name, as])]),           *)
(*           changes |-> Seq([kind |-> "override"|"extend", name, alts])]  *)
(* expr   : EBNF.tla's, plus [k |-> "tmpl", name, args |-> Seq(expr)]      *)
(*                                                                         *)
(* Names: a definition of module m loaded through the chain of import      *)
(* statements  main <- m1 <- ... <- m  is called, layer by layer from the  *)
(* innermost statement outwards:  its alias if the statement names it,     *)
(* otherwise  <module>__<name>.   (Names starting with an underscore keep  *)
(* the underscore in front; the families avoid them in modules because TLC *)
(* strings are atomic.)                                                    *)
(***************************************************************************)
EXTENDS EBNF, SequencesExt

Range2(s) == {s[i] : i \in DOMAIN s}

\* one layer of renaming: an import statement [from, names]
Layer(st, s) ==
  LET hit == {i \in DOMAIN st.names : st.names[i].name = s}
  IN IF hit # {} THEN st.names[CHOOSE i \in hit : TRUE].as ELSE st.from \o "__" \o s
\* chain: sequence of import statements, outermost first; rename from the innermost outwards
RECURSIVE Rename(_, _)
Rename(chain, s) == IF chain = <<>> THEN s ELSE Rename(SubSeq(chain, 1, Len(chain) - 1), Layer(chain[Len(chain)], s))
\* Whether a terminal's tokens are kept is decided by its NAME (a leading underscore filters).  Strings are atomic in TLC, so
\* every alias comes with the flag `under`; the <module>__ prefix keeps the underscore-ness of the name it is put on.  Written
\* out by hand, a terminal renamed to _ALIAS is filtered wherever it is used - inside the imported rules too.
LayerKeep(st, s, keep) ==
  LET hit == {i \in DOMAIN st.names : st.names[i].name = s}
  IN IF hit # {} THEN ~st.names[CHOOSE i \in hit : TRUE].under ELSE keep
RECURSIVE RenameKeep(_, _, _)
RenameKeep(chain, s, keep) ==
  IF chain = <<>> THEN keep
  ELSE RenameKeep(SubSeq(chain, 1, Len(chain) - 1), Layer(chain[Len(chain)], s), LayerKeep(chain[Len(chain)], s, keep))

\* rename every symbol of an expression; parameters of the enclosing template (params) are left alone
RECURSIVE RenameE(_, _, _)
RenameE(chain, params, e) ==
  CASE e.k = "rule" -> IF e.name \in params THEN e ELSE [e EXCEPT !.name = Rename(chain, e.name)]
    [] e.k = "tok" -> IF e.name \in params THEN e ELSE [e EXCEPT !.name = Rename(chain, e.name), !.keep = RenameKeep(chain, e.name, e.keep)]
    [] e.k = "seq" -> [e EXCEPT !.items = [i \in DOMAIN e.items |-> RenameE(chain, params, e.items[i])]]
    [] e.k = "alt" -> [e EXCEPT !.alts = [i \in DOMAIN e.alts |-> RenameE(chain, params, e.alts[i])]]
    [] e.k \in {"opt", "maybe", "rep"} -> [e EXCEPT !.x = RenameE(chain, params, e.x)]
    [] e.k = "tmpl" -> [e EXCEPT !.name = Rename(chain, e.name), !.args = [i \in DOMAIN e.args |-> RenameE(chain, params, e.args[i])]]

RenameRule(chain, r) ==
  [r EXCEPT !.name = Rename(chain, r.name),
            \* an alias is a name of the module like any other: it gets the prefix too (ma: "x: Q -> al_x" imported as xr
            \* labels its node ma__al_x)
            !.alts = [i \in DOMAIN r.alts |-> [r.alts[i] EXCEPT !.body = RenameE(chain, {r.params[p] : p \in DOMAIN r.params}, r.alts[i].body),
                                                                !.alias = IF @ = "" THEN "" ELSE Rename(chain, @)]]]

\* all definitions of module m loaded through `chain`, with the modules it imports (recursively)
RECURSIVE Load(_, _, _)
Load(sys, m, chain) ==
  LET M == sys.mods[m]
      own == {RenameRule(chain, M.rules[i]) : i \in DOMAIN M.rules}
      imported == UNION {Load(sys, M.imports[i].from, Append(chain, M.imports[i])) : i \in DOMAIN M.imports}
      \* %override / %extend of this module apply to the definitions visible in it under their local names
      changed(defs) ==
        {IF \E c \in Range2(M.changes) : Rename(chain, c.name) = d.name
         THEN LET c == CHOOSE c \in Range2(M.changes) : Rename(chain, c.name) = d.name
                  calts == [i \in DOMAIN c.alts |-> [c.alts[i] EXCEPT !.body = RenameE(chain, {}, c.alts[i].body)]]
              \* %override replaces the whole definition, modifiers included (the families write none); %extend adds alternatives
              IN IF c.kind = "override" THEN [d EXCEPT !.alts = calts, !.expand1 = FALSE, !.keepall = FALSE] ELSE [d EXCEPT !.alts = calts \o d.alts]
         ELSE d : d \in defs}
  IN changed(own \cup imported)


\* ---- templates: every use  t{a1,...,an}  of a template becomes a reference to an instance rule ---------------
InstName(e) == LET RECURSIVE J(_)
                   \* an argument is a symbol AND whether its token is kept: t{"a"} (anonymous, filtered, named A after main's
                   \* terminal with that text) and t{A} are two instances when written out by hand
                   J(k) == IF k > Len(e.args) THEN ""
                           ELSE (IF k > 1 THEN "," ELSE "") \o e.args[k].name \o (IF e.args[k].k = "tok" /\ ~e.args[k].keep THEN "~" ELSE "") \o J(k + 1)
               IN e.name \o "{" \o J(1) \o "}"
RECURSIVE Subst(_, _, _), UsesOf(_)
\* replace parameter references by the arguments
Subst(e, params, args) ==
  CASE e.k \in {"tok", "rule"} ->
         LET hit == {p \in DOMAIN params : params[p] = e.name} IN IF hit = {} THEN e ELSE args[CHOOSE p \in hit : TRUE]
    [] e.k = "seq" -> [e EXCEPT !.items = [i \in DOMAIN e.items |-> Subst(e.items[i], params, args)]]
    [] e.k = "alt" -> [e EXCEPT !.alts = [i \in DOMAIN e.alts |-> Subst(e.alts[i], params, args)]]
    [] e.k \in {"opt", "maybe", "rep"} -> [e EXCEPT !.x = Subst(e.x, params, args)]
    [] e.k = "tmpl" -> [e EXCEPT !.args = [i \in DOMAIN e.args |-> Subst(e.args[i], params, args)]]
\* template uses inside an expression (after substitution their arguments are atoms)
UsesOf(e) ==
  CASE e.k \in {"tok", "rule"} -> {}
    [] e.k = "seq" -> UNION {UsesOf(e.items[i]) : i \in DOMAIN e.items}
    [] e.k = "alt" -> UNION {UsesOf(e.alts[i]) : i \in DOMAIN e.alts}
    [] e.k \in {"opt", "maybe", "rep"} -> UsesOf(e.x)
    [] e.k = "tmpl" -> {e} \cup UNION {UsesOf(e.args[i]) : i \in DOMAIN e.args}
RECURSIVE Untmpl(_)
Untmpl(e) ==
  CASE e.k \in {"tok", "rule"} -> e
    [] e.k = "seq" -> [e EXCEPT !.items = [i \in DOMAIN e.items |-> Untmpl(e.items[i])]]
    [] e.k = "alt" -> [e EXCEPT !.alts = [i \in DOMAIN e.alts |-> Untmpl(e.alts[i])]]
    [] e.k \in {"opt", "maybe", "rep"} -> [e EXCEPT !.x = Untmpl(e.x)]
    [] e.k = "tmpl" -> [k |-> "rule", name |-> InstName(e), keep |-> FALSE, n |-> 0, m |-> 0, items |-> <<>>, alts |-> <<>>, x |-> <<>>, args |-> <<>>]

Instance(defs, u) ==
  LET t == CHOOSE d \in defs : d.name = u.name
  IN [t EXCEPT !.name = InstName(u), !.params = <<>>,
               !.alts = [i \in DOMAIN t.alts |-> [alias |-> IF t.alts[i].alias # "" THEN t.alts[i].alias ELSE t.name,   \* node label: the template
                                                   body |-> Subst(t.alts[i].body, t.params, u.args)]]]
RECURSIVE Instantiate(_, _)
Instantiate(defs, insts) ==
  LET plain == {d \in defs : d.params = <<>>} \cup insts
      wanted == UNION {UNION {UsesOf(d.alts[i].body) : i \in DOMAIN d.alts} : d \in plain}
      new == {Instance(defs, u) : u \in {w \in wanted : \A x \in insts : x.name # InstName(w)}}
  IN IF new = {} THEN plain ELSE Instantiate(defs, insts \cup new)

Assemble(sys) ==
  LET defs == Load(sys, sys.main, <<>>)
      plain == Instantiate(defs, {})
      final == {[d EXCEPT !.alts = [i \in DOMAIN d.alts |-> [d.alts[i] EXCEPT !.body = Untmpl(d.alts[i].body)]]] : d \in plain}
  IN [start |-> "start", ka |-> sys.ka, ph |-> sys.ph, rules |-> SetToSeq(final)]

\* the chain of import statements from module `cur` (reached by `chain`) to module `target` (every module is imported once)
RECURSIVE ChainTo(_, _, _, _)
ChainTo(sys, cur, chain, target) ==
  IF cur = target THEN {chain}
  ELSE UNION {ChainTo(sys, sys.mods[cur].imports[i].from, Append(chain, sys.mods[cur].imports[i]), target) : i \in DOMAIN sys.mods[cur].imports}
\* the type name of a token of terminal t defined in module m
FinalName(sys, m, t) == Rename(CHOOSE c \in ChainTo(sys, sys.main, <<>>, m) : TRUE, t)
=============================================================================
