------------------------------ MODULE Transform -----------------------------
(***************************************************************************)
(* lark/visitors.py: the four bottom-up transformers as machines (L1) and  *)
(* the fold they are supposed to compute (L0).                             *)
(* A tree is <<id, <<children>>>> (ids unique; a leaf has no children).    *)
(* With the symbolic pure callback  cb(id, args) = <<"cb", id, args>>  the  *)
(* value of a node identifies the whole computation below it.  Each        *)
(* machine yields <<value of the root, log>> where log is the sequence of  *)
(* node ids in the order their callbacks ran.                              *)
(***************************************************************************)
EXTENDS Integers, Sequences, FiniteSets

Cb(id, args) == <<"cb", id, args>>

\* ---- L0 -----------------------------------------------------------------------------------------
RECURSIVE Fold(_)
Fold(t) == Cb(t[1], [i \in DOMAIN t[2] |-> Fold(t[2][i])])

RECURSIVE NodesOf(_), ParentEdges(_)
NodesOf(t) == {t[1]} \cup UNION {NodesOf(t[2][i]) : i \in DOMAIN t[2]}
ParentEdges(t) == {<<t[2][i][1], t[1]>> : i \in DOMAIN t[2]} \cup UNION {ParentEdges(t[2][i]) : i \in DOMAIN t[2]}
\* every node exactly once, children before parents
GoodLog(t, log) ==
  /\ Len(log) = Cardinality(NodesOf(t)) /\ {log[i] : i \in DOMAIN log} = NodesOf(t)
  /\ \A e \in ParentEdges(t) : \E i, j \in DOMAIN log : i < j /\ log[i] = e[1] /\ log[j] = e[2]

RECURSIVE Cat(_, _)
Cat(seqs, k) == IF k > Len(seqs) THEN <<>> ELSE seqs[k] \o Cat(seqs, k + 1)

\* ---- L1: Transformer / Transformer_InPlaceRecursive (recursive, children left to right, then the node) ----
RECURSIVE RecLog(_)
RecLog(t) == Cat([i \in DOMAIN t[2] |-> RecLog(t[2][i])], 1) \o <<t[1]>>
Recursive(t) == <<Fold(t), RecLog(t)>>

\* ---- L1: Transformer_NonRecursive (tree -> reversed postfix with an explicit stack, then a value stack) ----
RECURSIVE RevPostfix(_, _)
RevPostfix(q, acc) ==           \* q: stack (sequence, top at the end) of trees
  IF q = <<>> THEN acc
  ELSE LET t == q[Len(q)] IN RevPostfix(SubSeq(q, 1, Len(q) - 1) \o t[2], Append(acc, t))
Reverse(s) == [i \in DOMAIN s |-> s[Len(s) + 1 - i]]
RECURSIVE Rebuild(_, _, _, _)
Rebuild(pf, k, stack, log) ==   \* pf: postfix order; stack of values
  IF k > Len(pf) THEN <<stack, log>>
  ELSE LET x == pf[k]
           size == Len(x[2])
           args == SubSeq(stack, Len(stack) - size + 1, Len(stack))
           rest == SubSeq(stack, 1, Len(stack) - size)
       IN Rebuild(pf, k + 1, Append(rest, Cb(x[1], args)), Append(log, x[1]))
NonRecursive(t) ==
  LET r == Rebuild(Reverse(RevPostfix(<<t>>, <<>>)), 1, <<>>, <<>>) IN <<r[1][1], r[2]>>

\* ---- L1: Transformer_InPlace (iter_subtrees order; a node's callback runs when its parent is processed) ----
\* iter_subtrees: breadth-first queue, children pushed right to left, result reversed
RECURSIVE Bfs(_, _)
Bfs(queue, k) == IF k > Len(queue) THEN queue ELSE Bfs(queue \o Reverse(queue[k][2]), k + 1)
IterSubtrees(t) == Reverse(Bfs(<<t>>, 1))
\* values are computed bottom-up; val is a function id -> value of the already transformed *children lists*
RECURSIVE InPlaceRun(_, _, _, _)
InPlaceRun(order, k, val, log) ==
  IF k > Len(order) THEN <<val, log>>
  ELSE LET s == order[k]
           \* subtree.children = [userfunc(c) for c in children]: c's own children were transformed before (val[c])
           newkids == [i \in DOMAIN s[2] |-> Cb(s[2][i][1], val[s[2][i][1]])]
       IN InPlaceRun(order, k + 1, [val EXCEPT ![s[1]] = newkids], log \o [i \in DOMAIN s[2] |-> s[2][i][1]])
InPlace(t) ==
  LET r == InPlaceRun(IterSubtrees(t), 1, [n \in NodesOf(t) |-> <<>>], <<>>)
  IN <<Cb(t[1], r[1][t[1]]), Append(r[2], t[1])>>
=============================================================================
