----------------------------- MODULE MC_LALRTree ----------------------------
(* LALRTree.tla on the grammar catalogue of MC_Matcher (rule options: filtered tokens, _rules, ?rules, aliases) and every
   input up to MaxLen: where the LALR table has no conflict, the driver with the value stack accepts exactly the sentences and
   returns the shaping of the derivation (C02's automaton + C03's builder = the meaning of the compiled grammar). *)
EXTENDS LALRTree, TLC
CONSTANT MaxLen

K(n) == [name |-> n, isterm |-> TRUE, filter_out |-> FALSE, inl |-> FALSE]
F(n) == [name |-> n, isterm |-> TRUE, filter_out |-> TRUE, inl |-> FALSE]
N(n) == [name |-> n, isterm |-> FALSE, filter_out |-> FALSE, inl |-> FALSE]
H(n) == [name |-> n, isterm |-> FALSE, filter_out |-> FALSE, inl |-> TRUE]
R(origin, alias, e1, helper, syms) ==
  [lhs |-> origin, rhs |-> [i \in DOMAIN syms |-> syms[i].name], origin |-> origin, alias |-> alias,
   label |-> IF alias # "" THEN alias ELSE origin, hasalias |-> alias # "", expand1 |-> e1, keepall |-> FALSE, helper |-> helper,
   empty |-> <<>>, syms |-> syms]
Grammars == <<
  << R("start", "", FALSE, FALSE, <<K("A"), N("x"), F("c")>>), R("x", "", FALSE, FALSE, <<K("A")>>), R("x", "", FALSE, FALSE, <<K("B"), F("d"), N("x")>>) >>,
  << R("start", "", FALSE, FALSE, <<H("_l")>>), R("_l", "", FALSE, TRUE, <<N("item")>>), R("_l", "", FALSE, TRUE, <<H("_l"), F("c"), N("item")>>),
     R("item", "", FALSE, FALSE, <<K("A")>>), R("item", "", FALSE, FALSE, <<F("d"), K("B")>>) >>,
  << R("start", "", FALSE, FALSE, <<N("sum")>>), R("sum", "", TRUE, FALSE, <<N("prod")>>), R("sum", "", TRUE, FALSE, <<N("sum"), F("c"), N("prod")>>),
     R("prod", "", TRUE, FALSE, <<K("A")>>), R("prod", "", TRUE, FALSE, <<N("prod"), F("d"), K("A")>>) >>,
  << R("start", "", FALSE, FALSE, <<N("x"), F("c"), N("x")>>), R("x", "one", FALSE, FALSE, <<K("A")>>), R("x", "two", FALSE, FALSE, <<K("A"), K("B")>>),
     R("x", "", FALSE, FALSE, <<K("B")>>) >>,
  << R("start", "", FALSE, FALSE, <<N("z"), F("c"), N("z")>>), R("z", "za", TRUE, FALSE, <<K("A")>>), R("z", "", TRUE, FALSE, <<K("B"), K("B")>>) >>,
  << R("start", "", FALSE, FALSE, <<K("A"), N("z")>>), R("z", "", TRUE, FALSE, <<H("_h"), F("d")>>), R("_h", "", FALSE, TRUE, <<K("B")>>),
     R("_h", "", FALSE, TRUE, <<H("_h"), K("B")>>) >>,
  << R("start", "", FALSE, FALSE, <<N("z")>>), R("z", "", TRUE, FALSE, <<K("A"), H("_h")>>), R("z", "", TRUE, FALSE, <<K("B")>>),
     R("_h", "", FALSE, TRUE, <<K("B")>>), R("_h", "", FALSE, TRUE, <<H("_h"), K("B")>>) >>,
  \* nullable pieces: start: opt A / opt: | B "c"
  << R("start", "", FALSE, FALSE, <<N("opt"), K("A")>>), R("opt", "", FALSE, FALSE, <<>>), R("opt", "", FALSE, FALSE, <<K("B"), F("c")>>) >>
>>
Terms == {"A", "B", "c", "d"}
VARIABLES gi, w
Init == gi \in DOMAIN Grammars /\ w \in UNION {[1..n -> Terms] : n \in 0..MaxLen}
Next == UNCHANGED <<gi, w>>
Spec == Init /\ [][Next]_<<gi, w>>
G == Grammars[gi]
Las == DPLookaheads(G, "start")
Ds == Derivs(G, "start", w)
Res == ParseTree(G, "start", Las, w)
NoConflict == RRConflicts(G, "start", Las) = {} /\ SRConflicts(G, "start", Las) = {}
AllConflictFree == NoConflict                                   \* the catalogue is LALR(1)
AcceptsTheSentences == NoConflict => ((Res[1] = "accept") <=> (Ds # {}))
ReturnsTheShapedDerivation == (NoConflict /\ Res[1] = "accept") => (Cardinality(Ds) = 1 /\ Res[2] = Shape(G, CHOOSE d \in Ds : TRUE))
=============================================================================
