--------------------------- MODULE MC_EarleyForest --------------------------
(* all well-formed grammars of <= MaxRules rules over {s,a} x {X,Y} without derivation cycles, every input up to MaxLen:
   the forest the machine builds stands for exactly the derivations (ForestExact) and for each of them once (NoDuplicate) *)
EXTENDS EarleyForest, FiniteSetsExt, SequencesExt, TLC
CONSTANTS MaxRules, MaxLen
NT == {"s", "a"}
T == {"X", "Y"}
Syms == NT \cup T
Rhss == UNION {[1..m -> Syms] : m \in 0..2}
Cand == {[lhs |-> A, rhs |-> r] : A \in NT, r \in Rhss}
WellFormed(G) == (\E r \in G : r.lhs = "s") /\ \A r \in G : \A x \in Range(r.rhs) : x \in NT => \E q \in G : q.lhs = x
Grammars == {G \in UNION {kSubset(m, Cand) : m \in 1..MaxRules} : WellFormed(G)}
Inputs == UNION {[1..m -> T] : m \in 0..MaxLen}
VARIABLES rules, w
Init == (\E G \in Grammars : rules = SetToSeq(G)) /\ w \in Inputs /\ ~DerivCyclic(rules)
Next == UNCHANGED <<rules, w>>
Spec == Init /\ [][Next]_<<rules, w>>
Res == FRun(rules, "s", w)
ForestExact == Res[1] => TreesAt(Res[2], Root("s", w)) = Derivs(rules, "s", w)
NoDuplicate == Res[1] => WaysAt(Res[2], Root("s", w)) = Cardinality(Derivs(rules, "s", w))
AcceptsIffDerivable == Res[1] <=> (Derivs(rules, "s", w) # {})
=============================================================================
