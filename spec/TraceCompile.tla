----------------------------- MODULE TraceCompile ---------------------------
(* C03/C01/C09 code -> spec (drift level): the rules lark really compiled for a grammar written in EBNF (Lark.rules: origin,
   expansion, alias, options) against Compiled(G) of Compile.tla for the same grammar - helper names included - after
   lark's pruning of unused rules.
   case: G (the AST EBNF.tla reads), real: Seq([origin, rhs, alias, expand1, keepall, empty, fo (filter_out per symbol)]) *)
EXTENDS Compile, TraceBase
VARIABLES tid, verdict
Proj(r) == [origin |-> r.origin, rhs |-> r.rhs, alias |-> r.alias, expand1 |-> r.expand1, keepall |-> r.keepall, empty |-> r.empty,
            \* inside a ! / keep_all_tokens rule lark clears filter_out; the specification keeps the flag and lets keepall decide
            fo |-> [q \in DOMAIN r.syms |-> r.syms[q].filter_out /\ ~r.keepall]]
\* Grammar.compile "filters out unused rules": not by reachability from the start symbol but, repeatedly, every rule whose
\* origin is neither a start symbol nor mentioned in the expansion of a rule of ANOTHER origin (two rules that only use each
\* other survive)
RECURSIVE Pruned(_, _)
Pruned(rs, start) ==
  LET used == {start} \cup UNION {{r.rhs[q] : q \in {x \in DOMAIN r.rhs : r.rhs[x] # r.origin}} : r \in rs}
      keep == {r \in rs : r.origin \in used}
  IN IF keep = rs THEN rs ELSE Pruned(keep, start)
Init == tid \in 1..NCases /\ verdict = "start"
Next ==
  /\ verdict = "start"
  /\ LET c == Cases[tid]
         cg == Compiled(c.G)
         want == {Proj(r) : r \in Pruned({cg[x] : x \in DOMAIN cg}, c.G.start)}
         got == {[origin |-> c.real[i].origin, rhs |-> c.real[i].rhs, alias |-> c.real[i].alias, expand1 |-> c.real[i].expand1,
                  keepall |-> c.real[i].keepall, empty |-> c.real[i].empty, fo |-> c.real[i].fo] : i \in DOMAIN c.real}
         v == IF got = want THEN "ok"
              ELSE IF {x.origin : x \in got} # {x.origin : x \in want} THEN "compiled-rule-names-differ"
              ELSE IF {<<x.origin, x.rhs>> : x \in got} # {<<x.origin, x.rhs>> : x \in want} THEN "compiled-expansions-differ"
              ELSE "compiled-rule-options-differ"
     IN verdict' = Verdict(tid, 1, v = "ok", v, Cardinality(got))
  /\ UNCHANGED tid
Spec == Init /\ [][Next]_<<tid, verdict>>
VerdictOk == verdict \in {"ok", "start"}
=============================================================================
