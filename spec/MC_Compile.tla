------------------------------ MODULE MC_Compile ----------------------------
(***************************************************************************)
(* THE CHAIN, closed:  for a catalogue of grammars written in EBNF (every  *)
(* operator, ? ! _ rules, aliases, [..] placeholders, keep_all_tokens,     *)
(* shared helper rules) and every input up to MaxLen,                      *)
(*                                                                         *)
(*   the shaped derivations of the COMPILED grammar                        *)
(*      (Compile.tla -> CFG.Derivs -> TreeBuilder.Callback)                *)
(*   =  the trees the grammar AS WRITTEN means (EBNF.TreesOfInput).        *)
(*                                                                         *)
(* Exact wherever no rule has two alternatives that compile to the same    *)
(* empty expansion (lark keeps the first: convention (a) of DESIGN 6/C03); *)
(* there, up to EBNF.CanonX.                                               *)
(***************************************************************************)
EXTENDS Compile
CONSTANT MaxLen

Tk(n, kp) == [k |-> "tok", name |-> n, keep |-> kp]
Ref(n) == [k |-> "rule", name |-> n]
Sq(its) == [k |-> "seq", items |-> its]
Al(as) == [k |-> "alt", alts |-> as]
Op(x) == [k |-> "opt", x |-> x]
Mb(x) == [k |-> "maybe", x |-> x]
Rp(x, n, m) == [k |-> "rep", x |-> x, n |-> n, m |-> m]
Rule(n, e1, ka, inl, alts) == [name |-> n, expand1 |-> e1, keepall |-> ka, inline |-> inl, prio |-> 0, alts |-> alts]
Alt(al, b) == [alias |-> al, body |-> b]
Gr(rules, ka, ph) == [start |-> "start", ka |-> ka, ph |-> ph, rules |-> rules]
A == Tk("A", TRUE)
Bt == Tk("B", TRUE)
C == Tk("_C", FALSE)
D == Tk("D", FALSE)

Cat1(ph, ka) == <<
  \* 1  sequences, alternations distributed, filtered tokens
  Gr(<<Rule("start", FALSE, FALSE, FALSE, <<Alt("", Sq(<<A, Al(<<Bt, Sq(<<C, A>>)>>), Al(<<D, A>>)>>))>>)>>, ka, ph),
  \* 2  ? and [..] with kept and filtered symbols
  Gr(<<Rule("start", FALSE, FALSE, FALSE, <<Alt("", Sq(<<Mb(A), Bt, Mb(Sq(<<A, D>>)), Op(C)>>))>>)>>, ka, ph),
  \* 3  * and + helper rules, shared between two uses
  Gr(<<Rule("start", FALSE, FALSE, FALSE, <<Alt("", Sq(<<Rp(A, 1, -1), Bt, Rp(A, 0, -1)>>))>>)>>, ka, ph),
  \* 4  bounded repetition of an alternation (every copy chooses for itself)
  Gr(<<Rule("start", FALSE, FALSE, FALSE, <<Alt("", Sq(<<Rp(Al(<<A, Bt>>), 2, 3), C>>))>>)>>, ka, ph),
  \* 5  ?rule, _rule, !rule, aliases
  Gr(<<Rule("start", FALSE, FALSE, FALSE, <<Alt("", Sq(<<Ref("z"), Ref("_y"), Ref("k")>>))>>),
       Rule("z", TRUE, FALSE, FALSE, <<Alt("", Sq(<<A, Op(Bt)>>)), Alt("zal", Sq(<<Bt, C>>))>>),
       Rule("_y", FALSE, FALSE, TRUE, <<Alt("", Sq(<<C, Rp(A, 0, 1)>>))>>),
       Rule("k", FALSE, TRUE, FALSE, <<Alt("", Sq(<<D, Mb(C)>>))>>)>>, ka, ph),
  \* 6  a repetition shared by a ! rule and a plain rule (helpers are shared only under equal keep_all_tokens)
  Gr(<<Rule("start", FALSE, FALSE, FALSE, <<Alt("", Sq(<<Rp(D, 1, -1), A, Ref("k")>>))>>),
       Rule("k", FALSE, TRUE, FALSE, <<Alt("", Sq(<<Rp(D, 1, -1), Bt>>))>>)>>, ka, ph),
  \* 7  nested optionals and a placeholder inside a repetition
  Gr(<<Rule("start", FALSE, FALSE, FALSE, <<Alt("", Sq(<<Rp(Sq(<<A, Mb(Bt)>>), 1, 2), Op(Sq(<<C, Op(A)>>))>>))>>)>>, ka, ph),
  \* 8  ?start returning a token / None / a node
  Gr(<<Rule("start", TRUE, FALSE, FALSE, <<Alt("", Sq(<<Mb(A), Op(Ref("x"))>>)), Alt("", Sq(<<Bt, Bt>>))>>),
       Rule("x", FALSE, FALSE, FALSE, <<Alt("", Sq(<<C, Rp(Bt, 0, -1)>>))>>)>>, ka, ph),
  \* 9  two spellings of the empty alternative (convention (a))
  Gr(<<Rule("start", FALSE, FALSE, FALSE, <<Alt("", Sq(<<A, Ref("y")>>))>>),
       Rule("y", FALSE, FALSE, FALSE, <<Alt("", Al(<<Rp(Bt, 0, 1), Mb(A)>>))>>)>>, ka, ph)
>>
Grammars == Cat1(TRUE, FALSE) \o Cat1(FALSE, FALSE) \o Cat1(TRUE, TRUE)
Terms == {"A", "B", "_C", "D"}
VARIABLES gi, w
Init == gi \in DOMAIN Grammars /\ w \in UNION {[1..n -> Terms] : n \in 0..MaxLen}
Next == UNCHANGED <<gi, w>>
Spec == Init /\ [][Next]_<<gi, w>>
G == Grammars[gi]
X == {G.rules[r].name : r \in {q \in DOMAIN G.rules : G.rules[q].expand1}}
\* two alternatives of one rule compile to the same (empty) expansion: lark keeps the first spelling
EmptyCollision ==
  LET c == CompileRules(G, 1, [i |-> 0, cache |-> {}, new |-> <<>>]) IN
  \E a, b \in DOMAIN c.rules : a < b /\ SameRule(c.rules[a], c.rules[b])
NotRefused == ~DefinedTwice(G)
CompiledMeansWritten ==
  IF EmptyCollision THEN {CanonX(t, X) : t \in CompiledTrees(G, w)} = {CanonX(t, X) : t \in TreesOfInput(G, w)}
  ELSE CompiledTrees(G, w) = TreesOfInput(G, w)
\* how many of the catalogue's grammars are compared exactly
ExactOnAllButTheCollisions == EmptyCollision => (gi % 9 \in {0, 2, 7})
=============================================================================
