----------------------------- MODULE TraceXScan ----------------------------
(***************************************************************************)
(* C08 (and C01) code -> spec for the dynamic Earley lexers over           *)
(* multi-character terminals: the real outcome of a parse - accepted, or   *)
(* UnexpectedCharacters at an offset, or UnexpectedEOF - against the run   *)
(* of the scanner machine of XEarley.tla on the same text (MC_XEarley      *)
(* proves that machine accepts exactly the character-level language).      *)
(* A case: rules (compiled, <<lhs, rhs>>), langs: terminal -> the          *)
(* substrings of THIS text it matches in full (regex oracle), ignores      *)
(* likewise, text (character codes), complete (dynamic_complete), cls/pos. *)
(* The machine is dead at i when no item, no scan candidate and no pending *)
(* match is left - the first offset no sentence (with ignored text) can    *)
(* go through.  The pinned code kept an EMPTY pending list for the end of  *)
(* an ignored match found while the scan buffer was empty and went on      *)
(* waiting for it: error reported late, with nothing expected.             *)
(***************************************************************************)
EXTENDS XEarley, TraceBase
VARIABLES tid, verdict
vars == <<tid, verdict>>

Judge(c) ==
  LET rules == [i \in DOMAIN c.rules |-> [lhs |-> c.rules[i][1], rhs |-> c.rules[i][2]]]
      langs == [t \in DOMAIN c.langs |-> AsSet(c.langs[t])]
      igs == [g \in DOMAIN c.ignores |-> AsSet(c.ignores[g])]
      r == XRun(rules, "start", langs, igs, c.text, c.complete, c.complete)
  IN IF r[1] = "accept" THEN (IF c.cls = "" THEN "ok" ELSE "rejected-sentence:" \o c.cls)
     ELSE IF c.cls = "" THEN "accepted-nonsentence"
     ELSE IF r[1] = "chars" THEN
          (IF c.cls # "UnexpectedCharacters" THEN "error-class-differs:" \o c.cls
           ELSE IF c.pos > r[2] THEN "error-reported-after-the-first-offending-character"
           ELSE IF c.pos < r[2] THEN "error-reported-before-the-first-offending-character"
           ELSE "ok")
     ELSE (IF c.cls # "UnexpectedEOF" THEN "error-class-differs:" \o c.cls ELSE "ok")

Init == tid \in 1..NCases /\ verdict = "start"
Next == verdict = "start" /\ verdict' = (LET v == Judge(Cases[tid]) IN Verdict(tid, 1, v = "ok", v, 1)) /\ UNCHANGED tid
Spec == Init /\ [][Next]_vars
VerdictOk == verdict \in {"start", "ok"}
=============================================================================
