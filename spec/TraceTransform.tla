--------------------------- MODULE TraceTransform ---------------------------
(***************************************************************************)
(* C16 code -> spec.  case: tree (the plain parse, values as in EBNF.tla), *)
(* cbs (names of rules / aliases / terminals that have a pure callback),   *)
(* variants: list of [name, result, log] for  embedded (transformer= at    *)
(* LALR parse time), Transformer, Transformer_NonRecursive,                *)
(* Transformer_InPlace, Transformer_InPlaceRecursive; the symbolic         *)
(* callbacks return <<"C", rule, 0, args>> / <<"K", terminal, pos, <<>>>>,  *)
(* the log is the sequence of values the callbacks returned, in call order.*)
(* L0: FoldT(tree); every callback once per node, children before parents. *)
(***************************************************************************)
EXTENDS Integers, Sequences, FiniteSets, TraceBase
VARIABLES tid, vi, verdict
SetOf(s) == {s[i] : i \in DOMAIN s}

RECURSIVE FoldT(_, _)
FoldT(t, cbs) ==
  IF t[1] = "T" THEN (IF t[2] \in cbs THEN <<"K", t[2], t[3], <<>>>> ELSE t)
  ELSE IF t[1] # "R" THEN t
  ELSE <<IF t[2] \in cbs THEN "C" ELSE "R", t[2], 0, [i \in DOMAIN t[4] |-> FoldT(t[4][i], cbs)]>>

\* callback-produced values inside v (with multiplicity, as a sequence), v itself included when it is one
RECURSIVE CbValues(_)
CbValues(v) ==
  LET RECURSIVE CatK(_, _)
      CatK(s, k) == IF k > Len(s) THEN <<>> ELSE CbValues(s[k]) \o CatK(s, k + 1)
      below == CatK(v[4], 1)
  IN IF v[1] \in {"C", "K"} THEN below \o <<v>> ELSE below
Count(s, x) == Cardinality({i \in DOMAIN s : s[i] = x})
SameBag(a, b) == Len(a) = Len(b) /\ \A x \in SetOf(a) \cup SetOf(b) : Count(a, x) = Count(b, x)

JudgeVariant(c, v) ==
  LET want == FoldT(c.tree, SetOf(c.cbs))
      log == v[3]
      \* embedded: a terminal callback is a lexer callback there - it also sees the tokens the tree builder filters out
      \* afterwards (pure callbacks: unobservable in the result, and the statement promises once-per-node for the four
      \* transformer classes only); rule callbacks still run exactly once per node
      KOnly(sq) == SelectSeq(sq, LAMBDA x : x[1] = "K")
      COnly(sq) == SelectSeq(sq, LAMBDA x : x[1] = "C")
      cbv == CbValues(want)
      onceOk == IF v[1] \in {"embedded", "embedded-Transformer_NonRecursive", "embedded-Transformer_InPlace", "embedded-Transformer_InPlaceRecursive"}
                THEN SameBag(COnly(log), COnly(cbv)) /\ \A x \in SetOf(KOnly(cbv)) : Count(log, x) >= Count(cbv, x)
                ELSE SameBag(log, cbv)
  IN IF v[2] # want THEN v[1] \o ":result-is-not-the-fold-of-the-callbacks-over-the-tree"
     ELSE IF ~onceOk THEN v[1] \o ":a-callback-did-not-run-exactly-once-per-node"
     ELSE IF \E j \in DOMAIN log : \E u \in SetOf(CbValues(log[j])) \ {log[j]} : Count(SubSeq(log, 1, j - 1), u) = 0
          THEN v[1] \o ":parent-callback-ran-before-a-child"
     ELSE "ok"

Init == tid \in 1..NCases /\ vi = 0 /\ verdict = "ok"
Next ==
  /\ vi < Len(Cases[tid].variants)
  /\ vi' = vi + 1
  /\ LET v == JudgeVariant(Cases[tid], Cases[tid].variants[vi + 1]) IN verdict' = Verdict(tid, vi + 1, v = "ok", v, vi + 1)
  /\ UNCHANGED tid
Spec == Init /\ [][Next]_<<tid, vi, verdict>>
VerdictOk == verdict = "ok"
=============================================================================
