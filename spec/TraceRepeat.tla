---------------------------- MODULE TraceRepeat ----------------------------
(***************************************************************************)
(* C09 code -> spec, rule level: the rules lark really generated for       *)
(*   start: X~n..m                                                         *)
(* are read back (rules: list of [lhs, rhs]); the set of numbers of X they *)
(* derive is computed as a least fixpoint and must be n..m; the helper     *)
(* rules must follow Repeat.tla's factor sequence (their names encode the  *)
(* (a,b) pairs: drift).  Terminal form  T: "x"~n..m  : acceptance of x^k   *)
(* must be n <= k <= m.                                                    *)
(***************************************************************************)
EXTENDS Repeat, TraceBase
VARIABLES tid, verdict
vars == <<tid, verdict>>

SumSets(A, B, cap) == {x \in {a + b : a \in A, b \in B} : x <= cap}
RECURSIVE SeqLens(_, _, _, _)
SeqLens(L, rhs, k, cap) ==
  IF k > Len(rhs) THEN {0}
  ELSE SumSets(IF rhs[k] = "X" THEN {1} ELSE L[rhs[k]], SeqLens(L, rhs, k + 1, cap), cap)
RECURSIVE LensLfp(_, _, _)
LensLfp(rules, L, cap) ==
  LET L2 == [A \in DOMAIN L |-> L[A] \cup UNION {SeqLens(L, rules[r][2], 1, cap) : r \in {q \in DOMAIN rules : rules[q][1] = A}}]
  IN IF L2 = L THEN L ELSE LensLfp(rules, L2, cap)
Lens(rules, cap) == LensLfp(rules, [A \in {rules[r][1] : r \in DOMAIN rules} |-> {}], cap)

JudgeRules(c) ==
  LET cap == c.m + 3
      got == Lens(c.rules, cap)["start"]
  IN IF got # c.n..c.m THEN "generated-rules-do-not-match-exactly-n..m"
     ELSE IF GenerateRepeats(c.n, c.m) # c.n..c.m THEN "spec-disagrees"      \* cannot happen (MC_Repeat)
     ELSE "ok"

JudgeTerm(c) ==
  IF \E q \in DOMAIN c.ks : (c.ks[q][2] = 1) # (c.ks[q][1] >= c.n /\ c.ks[q][1] <= c.m)
  THEN "terminal-repetition-count-wrong" ELSE "ok"

Init == tid \in 1..NCases /\ verdict = "new"
Next ==
  /\ verdict = "new"
  /\ LET c == Cases[tid]
         v == IF c.kind = "rules" THEN JudgeRules(c) ELSE JudgeTerm(c)
     IN verdict' = Verdict(tid, 1, v = "ok", v, c.n)
  /\ UNCHANGED tid
Spec == Init /\ [][Next]_vars
VerdictOk == verdict \in {"new", "ok"}
=============================================================================
