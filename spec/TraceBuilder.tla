---------------------------- MODULE TraceBuilder ----------------------------
(* C03/C06 code -> spec at the grain of ONE REDUCTION: every call of a rule callback of the real LALR parser was recorded
   (rule, the children it was given - snapshotted before the call, with their metas - and what it returned); the
   specification's callback chain (TreeBuilder.tla) applied to the same rule and children must return the same value.
   case: rules (compiled rules with their options), pp (propagate_positions), amb (Earley, ambiguity='explicit': the chain
   with the two ambiguity expanders), reds: [r, kids, res, rid, kid] *)
EXTENDS TreeBuilder, TraceBase
VARIABLES tid, k, verdict
\* ---- L0 of C06 at the same grain: the node a reduction creates spans the tokens its rule matched ---------------------
\* e.rid: number of the returned object, e.kid: numbers of the children given (0: token / None); a ?rule that returns its
\* only child returns the same number.  The tokens a reduction matched are those of its children, recursively through
\* the reductions that produced them (the latest one returning that object: the outermost pass-through).
Producer(c, j, id) == LET S == {q \in 1..(j - 1) : c.reds[q].rid = id} IN IF S = {} THEN 0 ELSE Max(S)
\* full: a TOKEN that a ?rule passed through counts with everything that ?rule matched around it; ~full: with its own
\* span only (what the code can know: a token has no container attributes)
RECURSIVE Ext(_, _, _)
Ext(c, j, full) ==
  LET e == c.reds[j]
      sp(i) == IF IsTok(e.kids[i]) /\ (~full \/ e.kid[i] = 0 \/ Producer(c, j, e.kid[i]) = 0) THEN e.kids[i][4]
               ELSE IF (IsTok(e.kids[i]) \/ IsTree(e.kids[i])) /\ e.kid[i] # 0 /\ Producer(c, j, e.kid[i]) # 0 THEN Ext(c, Producer(c, j, e.kid[i]), full)
               ELSE Unset
      spans == {sp(i) : i \in DOMAIN e.kids} \ {Unset}
  IN IF spans = {} THEN Unset ELSE <<Min({x[1] : x \in spans}), Max({x[2] : x \in spans})>>
Creates(c, j) ==
  \* e.pt: the result IS one of the children given, or a grandchild spliced in from an inlined child (a ?rule passing it through)
  LET e == c.reds[j] IN c.pp /\ IsTree(e.res) /\ ~e.pt /\ ~c.rules[e.r].helper /\ Ext(c, j, TRUE) # Unset
SpanLaw(c, j) == Creates(c, j) => c.reds[j].res[4] = Ext(c, j, TRUE)
\* known finding C06-token-through-expand1: the node is exact except for what ?rules matched around tokens they returned
SpanLawButTokens(c, j) == Creates(c, j) => c.reds[j].res[4] = Ext(c, j, FALSE)

Init == tid \in 1..NCases /\ k = 0 /\ verdict = "ok"
Next ==
  /\ k < Len(Cases[tid].reds)
  /\ k' = k + 1
  /\ LET c == Cases[tid]
         e == c.reds[k + 1]
         rule == c.rules[e.r]
         want == IF c.amb THEN CallbackAmb(rule, e.kids, c.pp) ELSE Callback(rule, e.kids, c.pp)
         v == IF ~c.amb /\ Len(e.kids) # Len(rule.syms) THEN "callback-got-another-number-of-children-than-the-rule-has-symbols"
              ELSE IF ~c.amb /\ ~SpanLaw(c, k + 1) THEN "node-meta-is-not-the-span-of-the-tokens-its-rule-matched" \o (IF SpanLawButTokens(c, k + 1) THEN "@token-through-expand1" ELSE "")
              ELSE IF want = e.res THEN "ok"
              ELSE IF want[1] # e.res[1] \/ want[2] # e.res[2] THEN "reduction-builds-another-node"
              ELSE IF want[3] # e.res[3] THEN "reduction-keeps-other-children"
              ELSE "reduction-sets-other-positions"
     IN verdict' = Verdict(tid, k + 1, v = "ok", v, e.r)
  /\ UNCHANGED tid
Spec == Init /\ [][Next]_<<tid, k, verdict>>
VerdictOk == verdict = "ok"
=============================================================================
