------------------------------ MODULE TraceLex -----------------------------
(***************************************************************************)
(* C07 / C06 code -> spec: token streams of the real basic and contextual  *)
(* lexers against Lexer.tla.                                               *)
(* case : T (terminals), rank (name -> rank), SM (regexp x string spelling *)
(*        matrix), order (the real lexer's sorted terminal list, drift),   *)
(*        runs : list of                                                   *)
(*          n, M (match table by the regex oracle), NL (newline offsets),  *)
(*          a (window start offset in the buffer), mode "basic"|"ctx",     *)
(*          toks: [idx,start,end,line,col,eline,ecol,valok] as yielded,    *)
(*          among: per yielded token (and for the final step) the indices  *)
(*                 of the terminals the lexer could use at that point,     *)
(*          err: -1 | offset of the lexing error, ecls, eline, ecol        *)
(* which = "C07": types/extents/error offset against the documented rule;  *)
(* which = "C06": coordinates against Coord.                               *)
(***************************************************************************)
EXTENDS Lexer, TraceBase

VARIABLES tid, ri, verdict
vars == <<tid, ri, verdict>>
Which == IOEnv.VERIF_WHICH

SetOf(seq) == {seq[i] : i \in DOMAIN seq}
\* JSON has no sets: the flag list of each terminal becomes a set
TT(c) == [i \in DOMAIN c.T |-> [c.T[i] EXCEPT !.fl = SetOf(@)]]
Ign(T) == {i \in DOMAIN T : T[i].ign}

\* ---- C07 ----
RECURSIVE JudgeToks(_, _, _, _, _)
JudgeToks(c, r, order, k, p) ==
  LET among == SetOf(r.among[k]) \cup Ign(TT(c))
      t0 == NextTok0(TT(c), r.M, order, among, p, r.n)
      t1 == NextTok1(TT(c), r.M, c.SM, order, among, p, r.n)
      last == k > Len(r.toks)
  IN IF last THEN
        (IF r.err = -2 THEN "ok"        \* the parser rejected the last token: the stream is judged up to there
         ELSE IF r.err = -1 THEN (IF t0[1] = -1 THEN "ok"
                             ELSE IF t1[1] = -1 THEN "ok@" \o DevKindFrom(TT(c), r.M, c.SM, order, among, p, r.n)
                             ELSE "stream-ends-early")
         ELSE IF t0[1] = 0 /\ t0[2] = r.err THEN "ok"
         ELSE IF t1[1] = 0 /\ t1[2] = r.err THEN "ok@" \o DevKindFrom(TT(c), r.M, c.SM, order, among, p, r.n)
         \* contextual lexer: terminal defined but not acceptable here -> UnexpectedToken carrying the root lexer's token
         ELSE IF r.ecls = "UnexpectedToken" /\ t0[1] = 0 /\ t0[2] <= r.err THEN "ok"
         ELSE IF t0[1] = 0 THEN "error-offset-differs" ELSE "spurious-lexer-error")
     ELSE LET real == <<r.toks[k][1], r.toks[k][2], r.toks[k][3]>> IN
          IF real = t0 THEN JudgeToks(c, r, order, k + 1, real[3])
          ELSE IF real = t1 THEN
               (LET rest == JudgeToks(c, r, order, k + 1, real[3])
                    kind == DevKindFrom(TT(c), r.M, c.SM, order, among, p, r.n)
                IN IF rest \in {"ok", "ok@spelling", "ok@embedded"}
                   THEN (IF kind = "embedded" \/ rest = "ok@embedded" THEN "ok@embedded" ELSE "ok@spelling")
                   ELSE rest)
          ELSE IF t0[1] <= 0 THEN "token-where-none-expected"
          ELSE IF real[2] # t0[2] THEN "token-start-differs"
          ELSE IF real[3] # t0[3] THEN "token-extent-differs"
          ELSE "token-type-differs"

\* contextual refines basic (statement of C07, second sentence)
\* r.among: the terminal sets of the parser states the contextual run went through.  A keyword (a string on the unless list
\* of a regexp) whose regexp is not acceptable in such a state competes there under its own width, while the full lexer reaches
\* it through the regexp - 'start: "if" "=" NAME | "if=" NAME "+"' on 'if=a': basic types 'if' through NAME, the start state's lexer
\* holds IF and "if=" only and takes the longer "if=" (hunted defect 34)
KeywordLostInContext(c, r) ==
  \E k \in DOMAIN r.among :
     LET ctx == SetOf(r.among[k]) \cup Ign(TT(c)) IN
     \E s \in ctx, rr \in (DOMAIN c.T) \ ctx : ~TT(c)[rr].isstr /\ s \in Unless(TT(c), c.SM, rr)
JudgeRefine(c, r) ==
  LET sfx == IF KeywordLostInContext(c, r) THEN "@keyword-lost-in-context" ELSE "" IN
  IF r.basicacc /\ ~r.overlap /\ ~r.ctxacc THEN "contextual-rejects-what-basic-accepts" \o sfx
  ELSE IF r.basicacc /\ ~r.overlap /\ ~r.same THEN "contextual-tree-differs-from-basic" \o sfx
  ELSE "ok"

JudgeC07(c, r) ==
  IF r.mode = "refine" THEN JudgeRefine(c, r) ELSE
  LET order == Order(TT(c), c.rank)
      v == JudgeToks(c, r, order, 1, r.a)
  IN IF v = "ok" THEN (IF r.mode = "basic" /\ order # c.order THEN "drift:terminal-order" ELSE "ok")
     ELSE IF v = "ok@spelling" THEN "keyword-decided-on-spelling@known"
     ELSE IF v = "ok@embedded" THEN "string-embedded-in-a-regexp-is-removed-from-the-order@known-embedded"
     ELSE v

\* ---- C08: UnexpectedCharacters.allowed ----
\* The lexer that gives up holds a set of terminals (all of them for the basic lexer, the ones acceptable in the parser state for
\* the contextual one): every kept terminal of that set is "allowed" - in particular every terminal that can legally come
\* next.  The pinned code read the set off the SCANNER, which no longer holds the string terminals embedded in a regexp
\* (start: "if" NAME on '?': allowed = {NAME}, although IF is the only terminal that can come first).
JudgeAllowed(c, r) ==
  IF r.mode \notin {"basic", "ctx"} \/ r.ecls # "UnexpectedCharacters" \/ r.err < 0 THEN "ok"
  ELSE LET held == SetOf(r.among[Len(r.toks) + 1]) \ Ign(TT(c))
       IN IF held = {} THEN "ok"
          ELSE IF ~(held \subseteq SetOf(r.allowed)) THEN "allowed-lacks-a-terminal-the-lexer-holds-here"
          ELSE IF ~(SetOf(r.allowed) \subseteq held) THEN "allowed-names-a-terminal-the-lexer-does-not-hold-here"
          ELSE "ok"

\* ---- C06 ----
RECURSIVE JudgeCoords(_, _, _)
JudgeCoords(r, NL, k) ==
  IF k > Len(r.toks) THEN
     (IF r.err >= 0 /\ (r.eline # Line(NL, r.err) \/ r.ecol # Col(NL, r.err)) THEN "error-line-column-differs" ELSE "ok")
  ELSE LET t == r.toks[k] IN
       IF ~t[8] THEN "text[start_pos:end_pos]-is-not-the-token"
       ELSE IF t[4] # Line(NL, t[2]) THEN "line-differs"
       ELSE IF t[5] # Col(NL, t[2]) THEN "column-differs"
       ELSE IF t[6] # Line(NL, t[3]) THEN "end_line-differs"
       ELSE IF t[7] # Col(NL, t[3]) THEN "end_column-differs"
       ELSE JudgeCoords(r, NL, k + 1)

\* L1: the LineCounter machine driven by the real token extents and lark's own newline flags (nlcode);
\* "drift" if the real positions are not even what the machine computes
RECURSIVE MachineCoords(_, _, _, _, _, _)
MachineCoords(c, r, NL, k, lc, p) ==
  \* walk every token of the L1 tiling (ignored ones too) from p; compare at the yielded ones
  IF k > Len(r.toks) THEN "ok"
  ELSE LET among == SetOf(r.among[k]) \cup Ign(TT(c))
           tk == TokenAt1(TT(c), r.M, c.SM, Order(TT(c), c.rank), among, p)
       IN IF tk[1] = 0 THEN "ok"
          \* since the fix "basic lexer counts newlines in every token" the code feeds with test_newline = TRUE;
          \* (before it fed with the newline_types flag of the matched terminal, see MC_LineCounter.tla)
          ELSE LET lc2 == LcFeed(lc, NL, p, tk[2], TRUE) IN
               IF TT(c)[tk[1]].ign THEN MachineCoords(c, r, NL, k, lc2, tk[2])
               ELSE LET t == r.toks[k] IN
                    IF t[4] # lc.line \/ t[5] # LcCol(lc) \/ t[6] # lc2.line \/ t[7] # LcCol(lc2)
                    THEN "drift:LineCounter" ELSE MachineCoords(c, r, NL, k + 1, lc2, tk[2])

\* ---- C06, trees: tokens inside parse results and Tree.meta with propagate_positions ----
\* end coordinates: basic/contextual Coord(end_pos); dynamic lexers: line of the last character, its column + 1
ELine(NL, e, dyn, s) == IF dyn /\ e > s THEN Line(NL, e - 1) ELSE Line(NL, e)
ECol(NL, e, dyn, s) == IF dyn /\ e > s THEN Col(NL, e - 1) + 1 ELSE Col(NL, e)

RECURSIVE JudgeTreeToks(_, _, _)
JudgeTreeToks(r, NL, k) ==
  IF k > Len(r.toks) THEN "ok"
  ELSE LET t == r.toks[k] IN
       IF ~t[8] THEN "text[start_pos:end_pos]-is-not-the-token"
       ELSE IF t[4] # Line(NL, t[2]) THEN "line-differs"
       ELSE IF t[5] # Col(NL, t[2]) THEN "column-differs"
       ELSE IF t[6] # ELine(NL, t[3], r.dyn, t[2]) THEN "end_line-differs"
       ELSE IF t[7] # ECol(NL, t[3], r.dyn, t[2]) THEN "end_column-differs"
       ELSE JudgeTreeToks(r, NL, k + 1)

\* node = [start,end,line,col,eline,ecol, tokspans (all tokens the rule matched), kidspans (children in order), sameAsFiltered]
Ordered(ks) == \A i \in 1..(Len(ks) - 1) : ks[i][2] <= ks[i + 1][1]
RECURSIVE JudgeNodes(_, _, _)
JudgeNodes(r, NL, k) ==
  IF k > Len(r.nodes) THEN "ok"
  ELSE LET nd == r.nodes[k]
           starts == {nd[7][i][1] : i \in DOMAIN nd[7]}
           ends == {nd[7][i][2] : i \in DOMAIN nd[7]}
           s0 == CHOOSE x \in starts : \A y \in starts : x <= y
           e0 == CHOOSE x \in ends : \A y \in ends : x >= y
       IN IF nd[7] = <<>> THEN JudgeNodes(r, NL, k + 1)
          ELSE IF nd[1] # s0 THEN "meta-start_pos-is-not-first-token"
          ELSE IF nd[2] # e0 THEN "meta-end_pos-is-not-last-token"
          ELSE IF nd[3] # Line(NL, s0) \/ nd[4] # Col(NL, s0) THEN "meta-line-column-differs"
          ELSE IF nd[5] # ELine(NL, e0, r.dyn, s0) \/ nd[6] # ECol(NL, e0, r.dyn, s0) THEN "meta-end_line-end_column-differs"
          ELSE IF ~Ordered(nd[8]) THEN "children-spans-not-ordered-disjoint"
          ELSE IF \E i \in DOMAIN nd[8] : nd[8][i][1] < nd[1] \/ nd[8][i][2] > nd[2] THEN "child-span-outside-parent"
          ELSE IF ~nd[9] THEN "meta-changes-when-tokens-are-filtered"
          ELSE JudgeNodes(r, NL, k + 1)

JudgeTree(r) ==
  LET NL == SetOf(r.NL)
      v == JudgeTreeToks(r, NL, 1)
  IN IF v # "ok" THEN v ELSE JudgeNodes(r, NL, 1)

\* ---- C15: a representation of the input (bytes, TextSlice window) against the extracted substring parsed as str ----
\* r.ref / r.var : flattened results (pre-order) [label, start, end]; r.a = window start; r.referr / r.varerr = [class, pos, line, col]
JudgeRepr(r) ==
  LET NL == SetOf(r.NL) IN
  IF r.referr[1] # r.varerr[1] THEN "outcome-or-error-class-differs:" \o r.referr[1] \o "/" \o r.varerr[1]
  ELSE IF r.referr[1] # "" THEN
       \* an unexpected $END on a text without any token carries the default coordinates (0, line 1, column 1): there is no
       \* last token to borrow from.  For a window that starts at a > 0 that is not the shifted position (hunted defect 28)
       (IF r.endnotoken THEN (IF r.a = 0 THEN "ok" ELSE "error-position-is-not-shifted-by-the-window-start@end-without-token")
        ELSE IF r.referr[2] >= 0 /\ r.varerr[2] # r.referr[2] + r.a THEN "error-position-is-not-shifted-by-the-window-start"
        ELSE IF r.varerr[2] >= 0 /\ r.varerr[3] > 0 /\ (r.varerr[3] # Line(NL, r.varerr[2]) \/ r.varerr[4] # Col(NL, r.varerr[2]))
             THEN "error-line-column-are-not-those-of-the-buffer"
        ELSE "ok")
  ELSE IF Len(r.ref) # Len(r.var) THEN "tree-shape-differs"
  ELSE IF \E i \in DOMAIN r.ref : r.ref[i][1] # r.var[i][1] THEN "token-type-or-value-or-node-differs"
  ELSE IF \E i \in DOMAIN r.ref : r.ref[i][2] >= 0 /\ (r.var[i][2] # r.ref[i][2] + r.a \/ r.var[i][3] # r.ref[i][3] + r.a) THEN "offsets-are-not-shifted-by-the-window-start"
  ELSE IF \E i \in DOMAIN r.ref : r.ref[i][2] < 0 /\ r.var[i][2] >= 0 THEN "empty-node-has-positions-in-the-variant"
  ELSE JudgeTree(r)

JudgeC06(c, r) ==
  IF r.mode = "repr" THEN JudgeRepr(r) ELSE
  IF r.mode = "tree" THEN JudgeTree(r) ELSE
  LET NL == SetOf(r.NL)
      v == JudgeCoords(r, NL, 1)
  IN IF v = "ok" THEN "ok"
     ELSE IF MachineCoords(c, r, NL, 1, LcAt(NL, r.a), r.a) = "ok" THEN v \o "@newline-flag"
     ELSE v

Init == tid \in 1..NCases /\ ri = 0 /\ verdict = "ok"
Next ==
  /\ ri < Len(Cases[tid].runs)
  /\ ri' = ri + 1
  /\ LET c == Cases[tid]
         r == c.runs[ri + 1]
         v == IF Which = "C07" THEN JudgeC07(c, r) ELSE IF Which = "C08A" THEN JudgeAllowed(c, r) ELSE JudgeC06(c, r)
     IN verdict' = Verdict(tid, ri + 1, v = "ok", v, r.mode)
  /\ UNCHANGED tid
Spec == Init /\ [][Next]_vars
VerdictOk == verdict = "ok"
=============================================================================
