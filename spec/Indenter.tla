------------------------------ MODULE Indenter -----------------------------
(***************************************************************************)
(* lark/indenter.py as a machine (L1) and the stated nesting law (L0).     *)
(* input token : [k |-> "NL", ind |-> n]  newline token whose last line is *)
(*               indented by n columns (tabs already counted as tab_len)   *)
(*               [k |-> "OPEN"|"CLOSE"|"OTHER", ind |-> 0]                  *)
(*               [k |-> "NLC", ind |-> _]  newline token that ends in a    *)
(*               comment or holds no line break (no indentation to read)   *)
(* output      : "NL" "INDENT" "DEDENT" "OPEN" "CLOSE" "OTHER"              *)
(* state       : paren (paren_level), lv (indent_level), out, status       *)
(*               status: "run" | "DedentError" | "CloseUnderflow" | "done" *)
(***************************************************************************)
EXTENDS Integers, Sequences, FiniteSets

Reset == [paren |-> 0, lv |-> <<0>>, out |-> <<>>, status |-> "run"]   \* process(): state reset per stream

Top(s) == s[Len(s)]
Pop(s) == SubSeq(s, 1, Len(s) - 1)

\* handle_NL when paren_level = 0: pops are emitted one by one before a possible DedentError
RECURSIVE Dedent(_, _)
Dedent(st, ind) ==
  IF ind < Top(st.lv) THEN Dedent([st EXCEPT !.lv = Pop(@), !.out = Append(@, "DEDENT")], ind)
  ELSE IF ind # Top(st.lv) THEN [st EXCEPT !.status = "DedentError"]
  ELSE st

\* "NLC": a newline token whose last line is not pure indentation - it ends in a comment (python.lark's _NEWLINE at the end of
\* a file without a final line break) or holds no line break at all.  A comment line opens and closes nothing (CPython), so the
\* token passes through (outside brackets) and the level stack stays.  The pinned handle_NL counted the blanks INSIDE the
\* comment as indentation, and raised IndexError without a line break (hunted defect 29).
FeedTok(st, t) ==
  IF t.k = "NLC" THEN (IF st.paren > 0 THEN st ELSE [st EXCEPT !.out = Append(@, "NL")])
  ELSE IF t.k = "NL" THEN
     IF st.paren > 0 THEN st                                    \* swallowed inside brackets
     ELSE LET s1 == [st EXCEPT !.out = Append(@, "NL")] IN
          IF t.ind > Top(s1.lv) THEN [s1 EXCEPT !.lv = Append(@, t.ind), !.out = Append(@, "INDENT")]
          ELSE Dedent(s1, t.ind)
  ELSE LET s1 == [st EXCEPT !.out = Append(@, t.k)] IN
       IF t.k = "OPEN" THEN [s1 EXCEPT !.paren = @ + 1]
       ELSE IF t.k = "CLOSE" THEN (IF s1.paren = 0 THEN [s1 EXCEPT !.status = "CloseUnderflow"]    \* the code's assert
                                   ELSE [s1 EXCEPT !.paren = @ - 1])
       ELSE s1

\* end of stream: one DEDENT per open level
RECURSIVE Finish(_)
Finish(st) == IF Len(st.lv) > 1 THEN Finish([st EXCEPT !.lv = Pop(@), !.out = Append(@, "DEDENT")])
              ELSE [st EXCEPT !.status = "done"]

RECURSIVE RunFrom(_, _, _)
RunFrom(st, toks, k) ==
  IF st.status # "run" THEN st
  ELSE IF k > Len(toks) THEN Finish(st)
  ELSE RunFrom(FeedTok(st, toks[k]), toks, k + 1)
Process(toks) == RunFrom(Reset, toks, 1)
\* the state after feeding toks, the stream still open
RECURSIVE FeedAll(_, _, _)
FeedAll(st, toks, k) == IF st.status # "run" \/ k > Len(toks) THEN st ELSE FeedAll(FeedTok(st, toks[k]), toks, k + 1)

Count(s, x) == Cardinality({i \in DOMAIN s : s[i] = x})
\* nesting depth (#INDENT - #DEDENT) before each content token of the output
DepthsBeforeContent(out) ==
  LET idx == {i \in DOMAIN out : out[i] \in {"OPEN", "CLOSE", "OTHER"}}
      f[i \in 0..Len(out)] == IF i = 0 THEN <<>>
                              ELSE IF i \in idx THEN Append(f[i - 1], Count(SubSeq(out, 1, i), "INDENT") - Count(SubSeq(out, 1, i), "DEDENT"))
                              ELSE f[i - 1]
  IN f[Len(out)]
=============================================================================
