----------------------------- MODULE MC_Earley -----------------------------
(***************************************************************************)
(* Design-level check  L1 |= L0  for the Earley recognizer:                *)
(* every behaviour of the worklist machine (Earley.tla) on every grammar   *)
(* of the bounded family F_bnf(R, L) ends in accept iff the input is in    *)
(* the least-fixpoint language of CFG.tla, every column it builds is the   *)
(* textbook closure of its kernel, and every item is sound.                *)
(***************************************************************************)
EXTENDS Earley, FiniteSetsExt, SequencesExt, TLC

CONSTANTS MaxRules,     \* R: at most this many rules
          MaxLen,       \* L: inputs up to this length
          MaxRhs,       \* rhs length bound (0..MaxRhs)
          PopAny        \* TRUE: any worklist item may be popped; FALSE: a fixed one

NT == {"s", "a"}
T  == {"X", "Y"}
Syms == NT \cup T
Rhss == UNION {[1..m -> Syms] : m \in 0..MaxRhs}
Cand == {[lhs |-> A, rhs |-> r] : A \in NT, r \in Rhss}
\* well-formed: the start symbol is defined, every used non-terminal is defined
WellFormed(G) ==
  /\ \E r \in G : r.lhs = "s"
  /\ \A r \in G : \A x \in Range(r.rhs) : x \in NT => \E q \in G : q.lhs = x
Grammars == {G \in UNION {kSubset(m, Cand) : m \in 1..MaxRules} : WellFormed(G)}
Inputs == UNION {[1..m -> T] : m \in 0..MaxLen}

VARIABLES rules, w, st, k, kernel, out
vars == <<rules, w, st, k, kernel, out>>

Init ==
  /\ \E G \in Grammars : rules = SetToSeq(G)
  /\ w \in Inputs
  /\ st = InitState(rules, "s")
  /\ kernel = st.col \cup st.toScan
  /\ k = 1
  /\ out = "run"

Pop ==
  /\ out = "run" /\ st.work # {}
  /\ IF PopAny THEN \E it \in st.work : st' = StepItem(rules, st, it)
     ELSE st' = StepItem(rules, st, CHOOSE it \in st.work : TRUE)
  /\ UNCHANGED <<rules, w, k, kernel, out>>

Scan ==
  /\ out = "run" /\ st.work = {} /\ k <= Len(w)
  /\ IF ScanFails(rules, st, w[k])
     THEN out' = "reject" /\ UNCHANGED <<st, k, kernel>>
     ELSE /\ st' = ScanTok(rules, st, w[k])
          /\ kernel' = st'.col \cup st'.toScan
          /\ k' = k + 1 /\ UNCHANGED out
  /\ UNCHANGED <<rules, w>>

Finish ==
  /\ out = "run" /\ st.work = {} /\ k > Len(w)
  /\ out' = IF Solutions(rules, "s", st) # {} THEN "accept" ELSE "reject"
  /\ UNCHANGED <<rules, w, st, k, kernel>>

Next == Pop \/ Scan \/ Finish
Spec == Init /\ [][Next]_vars /\ WF_vars(Next)

----------------------------------------------------------------------------
\* accept iff sentence (decided only when the run is over)
AcceptIffInLang == out # "run" => ((out = "accept") <=> InLang(rules, "s", w))

\* a rejection at token k means no sentence... (position exactness is C08's business);
\* here: a rejected run is never a sentence, an accepted one always (same as above, split for reporting)
Sound == out = "accept" => InLang(rules, "s", w)
Complete == (out = "reject") => ~InLang(rules, "s", w)

\* when the worklist is empty the column is the textbook closure of its kernel
ColumnIsClosure ==
  st.work = {} => (st.col \cup st.toScan) = IdealClose(rules, st.cols, st.i, kernel)

\* every item <<r,d,o>> in column i: rhs[1..d] derives w[o..i), and o <= i
ItemsSound ==
  LET D == Der(rules, w) IN
  \A it \in st.col \cup st.toScan :
     /\ it[3] <= st.i
     /\ st.i \in EndsFrom(SubSeq(rules[it[1]].rhs, 1, it[2]), 1, {it[3]}, D)

\* terminal-expecting items live only in the scan buffer, all others only in the column
Partition ==
  /\ \A it \in st.col : ~ExpectsTerm(rules, it)
  /\ \A it \in st.toScan : ExpectsTerm(rules, it)
  /\ st.work \subseteq st.col

Terminates == <>(out # "run")
=============================================================================
