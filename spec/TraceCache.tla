------------------------------ MODULE TraceCache ----------------------------
(***************************************************************************)
(* C12 spec <-> code.  Each case is a history of constructions             *)
(* Lark(grammar, parser='lalr', cache=path) against ONE real cache file,   *)
(* with the damage done to the file before each construction.  The harness *)
(* abstracts the real bytes to the file state of Cache.tla (which segment  *)
(* was truncated / altered, for which key the file was written) and records*)
(* what the real constructor did; this module runs the reader of Cache.tla *)
(* on the abstract state and judges.                                       *)
(*  ev: k, imp (current key / import content), file: len, hdr, used, bodyk,*)
(*      bodyimp, bodydamaged (a body byte was altered),                    *)
(*      raised, hang, served_ok, recompiled, after_valid                   *)
(***************************************************************************)
EXTENDS CacheReader, TraceBase
VARIABLES tid, ei, verdict
tvars == <<tid, ei, verdict>>

AbsFile(e) == [len |-> e.file.len, hdr |-> e.file.hdr, used |-> e.file.used,
               body |-> P(e.file.bodyk, e.file.bodyimp, IF e.file.bodydamaged THEN "alien" ELSE "ok")]

Judge(e) ==
  LET f == AbsFile(e)
      r == ReadOutcome(f, e.k, e.imp)
      intact == r = "serve" /\ ~e.file.bodydamaged      \* a complete, matching, undamaged entry
  IN IF e.hang THEN (IF e.file.bodydamaged \/ e.file.useddamaged THEN "constructor-blocks-on-damaged-pickle@known" ELSE "constructor-hangs")
     ELSE IF e.raised THEN "constructor-raised-because-of-the-cache-file"
     ELSE IF ~e.served_ok THEN
          (IF r = "serve" /\ e.file.bodydamaged THEN "altered-body-is-served@known" ELSE "served-parser-differs-from-uncached-build")
     ELSE IF intact /\ e.recompiled THEN "valid-entry-not-used"                        \* it is an optimisation, after all
     ELSE IF e.recompiled /\ ~e.after_valid THEN "stale-or-damaged-file-not-replaced-by-a-valid-one"
     ELSE "ok"

TInit == tid \in 1..NCases /\ ei = 0 /\ verdict = "ok"
TNext ==
  /\ ei < Len(Cases[tid].evs)
  /\ ei' = ei + 1
  /\ LET v == Judge(Cases[tid].evs[ei + 1]) IN verdict' = Verdict(tid, ei + 1, v = "ok", v, ei + 1)
  /\ UNCHANGED tid
TSpec == TInit /\ [][TNext]_tvars
VerdictOk == verdict = "ok"
=============================================================================
