----------------------------- MODULE TraceTrees ----------------------------
(***************************************************************************)
(* C03 / C04 / C09 code -> spec: trees returned by the real lark against   *)
(* the EBNF meaning of the grammar as written (EBNF.tla).                  *)
(* case : G (grammar AST with options ka, ph), inputs: list of             *)
(*   w (terminal names), obs: list of [cfg, out (0 accept, 1 reject,       *)
(*   2 other), tree], exp: explicit-ambiguity result per Earley lexer      *)
(*   [cfg, out, tree with _ambig nodes], cyclic (derivation cycles)        *)
(* which = C03: every returned tree is a shaped derivation (so all engines *)
(*              agree when there is exactly one)                           *)
(*         C04: Expand(explicit tree) = the set of shaped trees            *)
(*         C09: accept <=> the count is allowed, children are the          *)
(*              occurrences (same clause as C03 on the repetition family)  *)
(***************************************************************************)
EXTENDS EBNF, TraceBase
VARIABLES tid, ii, verdict
vars == <<tid, ii, verdict>>
Which == IOEnv.VERIF_WHICH

RECURSIVE JudgeObs03(_, _, _, _)
JudgeObs03(obs, trees, sent, k) ==
  IF k > Len(obs) THEN "ok"
  ELSE LET o == obs[k] IN
       IF o.out = 0 /\ ~sent THEN o.cfg \o ":accepted-nonsentence"
       ELSE IF o.out = 0 /\ o.tree \notin trees THEN o.cfg \o ":tree-is-not-a-shaped-derivation"
       ELSE IF o.out = 2 THEN o.cfg \o ":unexpected-exception"
       ELSE IF o.out = 1 /\ sent /\ o.must THEN o.cfg \o ":rejected-sentence"
       ELSE JudgeObs03(obs, trees, sent, k + 1)

RECURSIVE JudgeObs04(_, _, _, _)
JudgeObs04(exp, trees, cyclic, k) ==
  IF k > Len(exp) THEN "ok"
  ELSE LET o == exp[k] IN
       IF o.out # 0 THEN (IF o.out = 2 THEN o.cfg \o ":unexpected-exception"
                          ELSE IF trees # {} /\ ~cyclic THEN o.cfg \o ":rejected-sentence" ELSE JudgeObs04(exp, trees, cyclic, k + 1))
       ELSE LET got == Expand(o.tree) IN
            IF ~(got \subseteq trees) THEN o.cfg \o ":tree-that-is-not-a-derivation"
            \* completeness up to the spelling of an unmatched optional: alternatives of a rule that expand to the
            \* same (empty) symbol sequence are one production, kept in its first spelling (DESIGN 6/C03 (a))
            ELSE IF ~cyclic /\ {Canon(t) : t \in got} # {Canon(t) : t \in trees} THEN o.cfg \o ":derivation-missing"
            \* lark's own expansion utility must agree with the expansion wherever it is run
            ELSE IF o.collrun /\ ~o.collok THEN o.cfg \o ":CollapseAmbiguities-raises"
            ELSE IF o.collrun /\ {o.coll[q] : q \in DOMAIN o.coll} # got THEN o.cfg \o ":CollapseAmbiguities-differs-from-expansion"
            ELSE JudgeObs04(exp, trees, cyclic, k + 1)

\* ---- plain BNF grammars, cyclic ones included: every tree of the expansion is a derivation tree of the input ----
RECURSIVE LeavesOf(_), ValidNode(_, _)
LeavesOf(t) == IF t[1] # "R" THEN <<t>>
               ELSE IF t[4] = <<>> THEN <<>>
               ELSE LET parts == [q \in DOMAIN t[4] |-> LeavesOf(t[4][q])] IN
                    LET RECURSIVE Cat(_)
                        Cat(q) == IF q > Len(parts) THEN <<>> ELSE parts[q] \o Cat(q + 1)
                    IN Cat(1)
ValidNode(G, t) ==
  IF t[1] = "T" THEN TRUE
  ELSE /\ t[1] = "R"
       /\ \E r \in RangeE(G.rules) : r.name = t[2] /\ \E a \in DOMAIN r.alts :
             LET its == r.alts[a].body.items IN
             /\ Len(its) = Len(t[4])
             /\ \A q \in DOMAIN its : (its[q].k = "tok" /\ t[4][q][1] = "T" /\ t[4][q][2] = its[q].name)
                                        \/ (its[q].k = "rule" /\ t[4][q][1] = "R" /\ t[4][q][2] = its[q].name)
       /\ \A q \in DOMAIN t[4] : ValidNode(G, t[4][q])
IsDerivOf(G, t, w) ==
  /\ ValidNode(G, t) /\ t[1] = "R" /\ t[2] = G.start
  /\ LeavesOf(t) = [q \in 1..Len(w) |-> <<"T", w[q], q - 1, <<>>>>]

RECURSIVE JudgeBnf(_, _, _, _)
JudgeBnf(G, exp, w, k) ==
  IF k > Len(exp) THEN "ok"
  ELSE LET o == exp[k] IN
       IF o.out = 2 THEN o.cfg \o ":hang-or-unexpected-exception"
       ELSE IF o.out = 1 THEN JudgeBnf(G, exp, w, k + 1)
       ELSE IF \E t \in Expand(o.tree) : ~IsDerivOf(G, t, w) THEN o.cfg \o ":tree-that-is-not-a-derivation"
       ELSE JudgeBnf(G, exp, w, k + 1)

Init == tid \in 1..NCases /\ ii = 0 /\ verdict = "ok"
Next ==
  /\ ii < Len(Cases[tid].inputs)
  /\ ii' = ii + 1
  /\ LET c == Cases[tid]
         inp == c.inputs[ii + 1]
         trees == TreesOfInput(c.G, inp.w)
         v == IF Which = "C04" /\ c.cyclic THEN JudgeBnf(c.G, inp.exp, inp.w, 1)
              ELSE IF Which = "C04" THEN JudgeObs04(inp.exp, trees, c.cyclic, 1)
              ELSE JudgeObs03(inp.obs, trees, trees # {}, 1)
     IN verdict' = Verdict(tid, ii + 1, v = "ok", v, IF c.cyclic THEN -1 ELSE Cardinality(trees))
  /\ UNCHANGED tid
Spec == Init /\ [][Next]_vars
VerdictOk == verdict = "ok"
=============================================================================
