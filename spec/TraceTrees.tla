----------------------------- MODULE TraceTrees ----------------------------
(***************************************************************************)
(* C03 / C04 / C09 code -> spec: trees returned by the real lark against   *)
(* the EBNF meaning of the grammar as written (EBNF.tla).                  *)
(* case : G (grammar AST with options ka, ph), inputs: list of             *)
(*   w (terminal names), obs: list of [cfg, out (0 accept, 1 reject,       *)
(*   2 other), tree], exp: explicit-ambiguity result per Earley lexer      *)
(*   [cfg, out, tree with _ambig nodes], cyclic (derivation cycles)        *)
(* which = C03: every returned tree is a shaped derivation (so all engines *)
(*              agree when there is exactly one)                           *)
(*         C04: Expand(explicit tree) = the set of shaped trees            *)
(*         C09: accept <=> the count is allowed, children are the          *)
(*              occurrences (same clause as C03 on the repetition family)  *)
(***************************************************************************)
EXTENDS EBNF, TraceBase
VARIABLES tid, ii, verdict
vars == <<tid, ii, verdict>>
Which == IOEnv.VERIF_WHICH

RECURSIVE JudgeObs03(_, _, _, _)
JudgeObs03(obs, trees, sent, k) ==
  IF k > Len(obs) THEN "ok"
  ELSE LET o == obs[k] IN
       IF o.out = 0 /\ ~sent THEN o.cfg \o ":accepted-nonsentence"
       ELSE IF o.out = 0 /\ o.tree \notin trees THEN o.cfg \o ":tree-is-not-a-shaped-derivation"
       ELSE IF o.out = 2 THEN o.cfg \o ":unexpected-exception"
       ELSE IF o.out = 1 /\ sent /\ o.must THEN o.cfg \o ":rejected-sentence"
       ELSE JudgeObs03(obs, trees, sent, k + 1)

\* Token leaves carry positions (the codes); lark's own equality of tokens and trees looks at type and text only, and
\* the forest merges token nodes by that equality.  So "none missing" is compared on trees with the position replaced
\* by the matched text (vm: sequence of <<code, id of the text>>, given for the overlapping-terminal families; where
\* it is empty positions stay) - "none that is not a derivation" and the derivation count stay position-exact.
Vid(vm, code) == LET h == {q \in DOMAIN vm : vm[q][1] = code} IN IF h = {} THEN 100000 + code ELSE vm[CHOOSE q \in h : TRUE][2]
RECURSIVE StripPos(_, _)
StripPos(t, vm) == IF t[1] = "T" THEN <<"T", t[2], Vid(vm, t[3]), <<>>>>
                   ELSE IF t[1] # "R" THEN t
                   ELSE <<"R", t[2], 0, [q \in DOMAIN t[4] |-> StripPos(t[4][q], vm)]>>

\* language only (terminal-level expressions: the observation is whether lark's compiled pattern / the parser accepts)
RECURSIVE JudgeLang(_, _, _)
JudgeLang(obs, sent, k) ==
  IF k > Len(obs) THEN "ok"
  ELSE LET o == obs[k] IN
       IF o.out = 0 /\ ~sent THEN o.cfg \o ":accepted-nonsentence"
       ELSE IF o.out = 2 THEN o.cfg \o ":unexpected-exception"
       ELSE IF o.out = 1 /\ sent /\ o.must THEN o.cfg \o ":rejected-sentence"
       ELSE JudgeLang(obs, sent, k + 1)

\* exact: the grammar is written in plain BNF (no optional whose unmatched spelling could collide): "none missing" is then
\* compared on the trees themselves, empty nodes included - x() and x(y()) are two derivations
RECURSIVE JudgeObs04(_, _, _, _, _, _, _)
JudgeObs04(exp, trees, cyclic, vm, X, exact, k) ==
  IF k > Len(exp) THEN "ok"
  ELSE LET o == exp[k] IN
       IF o.out # 0 THEN (IF o.out = 2 THEN o.cfg \o ":unexpected-exception"
                          ELSE IF trees # {} /\ ~cyclic THEN o.cfg \o ":rejected-sentence" ELSE JudgeObs04(exp, trees, cyclic, vm, X, exact, k + 1))
       ELSE LET got == Expand(o.tree) IN
            IF ~(got \subseteq trees) THEN o.cfg \o ":tree-that-is-not-a-derivation"
            \* completeness up to the spelling of an unmatched optional: alternatives of a rule that expand to the
            \* same (empty) symbol sequence are one production, kept in its first spelling (DESIGN 6/C03 (a))
            ELSE IF ~cyclic /\ exact /\ {StripPos(t, vm) : t \in got} # {StripPos(t, vm) : t \in trees} THEN o.cfg \o ":derivation-missing"
            ELSE IF ~cyclic /\ ~exact /\ {StripPos(CanonX(t, X), vm) : t \in got} # {StripPos(CanonX(t, X), vm) : t \in trees} THEN o.cfg \o ":derivation-missing"
            \* lark's own expansion utility must agree with the expansion wherever it is run
            ELSE IF o.collrun /\ ~o.collok THEN o.cfg \o ":CollapseAmbiguities-raises"
            ELSE IF o.collrun /\ {o.coll[q] : q \in DOMAIN o.coll} # got THEN o.cfg \o ":CollapseAmbiguities-differs-from-expansion"
            ELSE JudgeObs04(exp, trees, cyclic, vm, X, exact, k + 1)

\* ---- plain BNF grammars, cyclic ones included: every tree of the expansion is a derivation tree of the input ----
RECURSIVE LeavesOf(_), ValidNode(_, _, _)
LeavesOf(t) == IF t[1] # "R" THEN <<t>>
               ELSE IF t[4] = <<>> THEN <<>>
               ELSE LET parts == [q \in DOMAIN t[4] |-> LeavesOf(t[4][q])] IN
                    LET RECURSIVE Cat(_)
                        Cat(q) == IF q > Len(parts) THEN <<>> ELSE parts[q] \o Cat(q + 1)
                    IN Cat(1)
\* t is a derivation tree of rule `rn`: its label is the label of one of rn's alternatives (alias, else the rule
\* name) and its children are, item by item, that alternative's symbols
ValidNode(G, t, rn) ==
  /\ t[1] = "R"
  /\ \E r \in RangeE(G.rules) : r.name = rn /\ \E a \in DOMAIN r.alts :
        LET its == r.alts[a].body.items IN
        /\ t[2] = (IF r.alts[a].alias # "" THEN r.alts[a].alias ELSE r.name)
        /\ Len(its) = Len(t[4])
        /\ \A q \in DOMAIN its : IF its[q].k = "tok" THEN t[4][q][1] = "T" /\ t[4][q][2] = its[q].name
                                   ELSE ValidNode(G, t[4][q], its[q].name)
IsDerivOf(G, t, w) ==
  /\ ValidNode(G, t, G.start)
  /\ LeavesOf(t) = [q \in 1..Len(w) |-> <<"T", w[q], q - 1, <<>>>>]

RECURSIVE JudgeBnf(_, _, _, _)
JudgeBnf(G, exp, w, k) ==
  IF k > Len(exp) THEN "ok"
  ELSE LET o == exp[k] IN
       IF o.out = 2 THEN o.cfg \o ":hang-or-unexpected-exception"
       ELSE IF o.out = 1 THEN JudgeBnf(G, exp, w, k + 1)
       ELSE IF \E t \in Expand(o.tree) : ~IsDerivOf(G, t, w) THEN o.cfg \o ":tree-that-is-not-a-derivation"
       ELSE JudgeBnf(G, exp, w, k + 1)

\* ---- C20: TreeForestTransformer on the forest of ambiguity='forest' ----
\* o.tree: resolve_ambiguity=False result, o.one: resolve_ambiguity=True result, o.isamb: root.is_ambiguous
RECURSIVE JudgeObs20(_, _, _, _, _)
JudgeObs20(exp, trees, cyclic, vm, k) ==
  IF k > Len(exp) THEN "ok"
  ELSE LET o == exp[k] IN
       IF o.out = 2 THEN o.cfg \o ":hang-or-unexpected-exception"
       ELSE IF o.out = 1 THEN (IF trees # {} THEN o.cfg \o ":rejected-sentence" ELSE JudgeObs20(exp, trees, cyclic, vm, k + 1))
       ELSE LET got == Expand(o.tree) IN
            IF ~(got \subseteq trees) THEN o.cfg \o ":forest-tree-that-is-not-a-derivation"
            ELSE IF {StripPos(t, vm) : t \in got} # {StripPos(t, vm) : t \in trees} THEN o.cfg \o ":derivation-missing-from-forest"
            ELSE IF o.one \notin trees THEN o.cfg \o ":resolved-tree-is-not-a-derivation"
            ELSE IF Cardinality(trees) = 1 /\ o.isamb THEN o.cfg \o ":is_ambiguous-on-single-derivation"
            ELSE JudgeObs20(exp, trees, cyclic, vm, k + 1)

RECURSIVE JudgeBnf20(_, _, _, _)
JudgeBnf20(G, exp, w, k) ==
  IF k > Len(exp) THEN "ok"
  ELSE LET o == exp[k] IN
       IF o.out = 2 THEN o.cfg \o ":hang-or-unexpected-exception"
       ELSE IF o.out = 1 THEN JudgeBnf20(G, exp, w, k + 1)
       ELSE IF \E t \in Expand(o.tree) \cup {o.one} : ~IsDerivOf(G, t, w) THEN o.cfg \o ":forest-tree-that-is-not-a-derivation"
       ELSE JudgeBnf20(G, exp, w, k + 1)

\* ---- C05: ambiguity='resolve' picks a priority-optimal derivation, deterministically ----
\* G.rules[r].prio, c.tprio[terminal]; o.mode in normal|invert|none; o.dyn: terminal priorities count;
\* o.noprio: the tree the same configuration returns when every priority is erased; o.det: identical across
\* processes, hash seeds, repeated calls and fresh instances (all compared by the harness, all sent here)
RECURSIVE PrioOf(_, _, _, _)
PrioOf(G, tp, dyn, t) ==
  IF t[1] = "T" THEN (IF dyn THEN tp[t[2]] ELSE 0)
  ELSE IF t[1] # "R" THEN 0
  ELSE RuleNamed(G, t[2]).prio + SumSeq([q \in DOMAIN t[4] |-> PrioOf(G, tp, dyn, t[4][q])])

\* the built-in precedence: a directly empty alternative of a rule is chosen only where no non-empty alternative
\* of that rule matches the same (empty) span
RECURSIVE UsesEmptyWrongly(_, _, _)
UsesEmptyWrongly(G, w, t) ==
  IF t[1] # "R" THEN FALSE
  ELSE IF t[4] = <<>> THEN \E cl \in RuleResults(Ctx(G, w), t[2], 0, 0) : Len(cl) = 1 /\ cl[1][1] = "R" /\ cl[1][4] # <<>>
  ELSE \E q \in DOMAIN t[4] : UsesEmptyWrongly(G, w, t[4][q])

\* overlapping terminals (dynamic lexers): the input is a text, inp.toks lists its tokenisations, each a sequence of
\* <<terminal, code>> (code: the offset, or offset * 64 + length where one terminal matches several lengths); the
\* derivations of the text are those of all tokenisations, token leaves carrying the codes
RECURSIVE Reoffset(_, _)
Reoffset(t, tk) ==
  IF t[1] = "T" THEN <<"T", t[2], tk[t[3] + 1][2], <<>>>>
  ELSE IF t[1] # "R" THEN t
  ELSE <<"R", t[2], 0, [q \in DOMAIN t[4] |-> Reoffset(t[4][q], tk)]>>
TreesOfText(G, toks) ==
  UNION { {Reoffset(t, toks[k]) : t \in TreesOfInput(G, [q \in DOMAIN toks[k] |-> toks[k][q][1]])} : k \in DOMAIN toks }

RECURSIVE JudgeObs05(_, _, _, _)
JudgeObs05(c, obs, trees, k) ==
  IF k > Len(obs) THEN "ok"
  ELSE LET o == obs[k]
           ps == {PrioOf(c.G, c.tprio, o.dyn, t) : t \in trees}
           best == IF o.mode = "invert" THEN CHOOSE x \in ps : \A y \in ps : x <= y
                   ELSE CHOOSE x \in ps : \A y \in ps : x >= y
       IN IF o.out = 2 THEN o.cfg \o ":unexpected-exception"
          ELSE IF o.out = 1 THEN JudgeObs05(c, obs, trees, k + 1)          \* acceptance is C01's business
          ELSE IF o.tree \notin trees THEN o.cfg \o ":result-is-not-a-derivation"
          ELSE IF ~o.det THEN o.cfg \o ":result-differs-between-runs-processes-or-hash-seeds"
          ELSE IF o.mode = "none" /\ o.tree # o.noprio THEN o.cfg \o ":priority=None-result-affected-by-priorities"
          ELSE IF c.emptyalt /\ UsesEmptyWrongly(c.G, c.w0, o.tree) THEN o.cfg \o ":" \o o.mode \o ":empty-alternative-chosen-although-a-non-empty-one-matches"
          ELSE IF o.mode # "none" /\ ~c.emptyalt /\ PrioOf(c.G, c.tprio, o.dyn, o.tree) # best
               THEN o.cfg \o ":" \o o.mode \o ":result-is-not-priority-optimal"
          ELSE JudgeObs05(c, obs, trees, k + 1)

Init == tid \in 1..NCases /\ ii = 0 /\ verdict = "ok"
Next ==
  /\ ii < Len(Cases[tid].inputs)
  /\ ii' = ii + 1
  /\ LET c == Cases[tid]
         inp == c.inputs[ii + 1]
         trees == IF c.multitok THEN TreesOfText(c.G, inp.toks) ELSE TreesOfInput(c.G, inp.w)
         v == IF Which = "C05" THEN JudgeObs05(c, inp.obs, trees, 1)
              ELSE IF Which = "C20" /\ c.cyclic THEN JudgeBnf20(c.G, inp.exp, inp.w, 1)
              ELSE IF Which = "C20" THEN JudgeObs20(inp.exp, trees, c.cyclic, inp.vmap, 1)
              ELSE IF Which = "C04" /\ c.cyclic THEN JudgeBnf(c.G, inp.exp, inp.w, 1)
              ELSE IF Which = "C04" THEN JudgeObs04(inp.exp, trees, c.cyclic, inp.vmap, {c.G.rules[r].name : r \in {q \in DOMAIN c.G.rules : c.G.rules[q].expand1}}, c.exact, 1)
              ELSE IF Which = "LANG" THEN JudgeLang(inp.obs, trees # {}, 1)
              ELSE JudgeObs03(inp.obs, trees, trees # {}, 1)
     IN verdict' = Verdict(tid, ii + 1, v = "ok", v, IF c.cyclic THEN -1 ELSE Cardinality(trees))
  /\ UNCHANGED tid
Spec == Init /\ [][Next]_vars
VerdictOk == verdict = "ok"
=============================================================================
