-------------------------------- MODULE Cache -------------------------------
(***************************************************************************)
(* The grammar cache protocol of lark/lark.py (Lark.__init__ with cache=)  *)
(* over ONE cache path, with a non-atomic writer (atomicwrites is not      *)
(* installed here: FS.open is plain open()).                               *)
(*                                                                         *)
(* A build is identified by its key  k = <<grammar, options, version>> and *)
(* the current content of the imported file  imp.                          *)
(* The file is  "absent"  or a record of three segments                    *)
(*   hdr  : the key whose digest is in the first line, or "bad"            *)
(*   used : the import content recorded, or "bad" (unpickling raises)      *)
(*   body : [k, imp] of the parser it holds, or "raise" (unpickling        *)
(*          raises), "alien" (unpickles to a different parser: a payload   *)
(*          byte was changed), and  len \in 0..3 how many segments exist   *)
(*          (a crash or truncation leaves a prefix).                       *)
(* Reader steps (one action each, as in the code): Open, ReadHdr+LoadUsed, *)
(* Check, LoadBody; then Compile and the writer WriteHdr, WriteUsed,       *)
(* WriteBody, each separately crashable.                                   *)
(***************************************************************************)
EXTENDS CacheReader, TLC

CONSTANTS Keys, Imps, MaxBuilds

VARIABLES file, env, pc, cur, served, builds, log
vars == <<file, env, pc, cur, served, builds, log>>

Absent == [len |-> 0, hdr |-> "bad", used |-> "bad", body |-> P("", "", "raise")]
Valid(k, i) == [len |-> 3, hdr |-> k, used |-> i, body |-> P(k, i, "ok")]

Init == /\ file = Absent /\ env \in Imps /\ pc = "idle" /\ cur = "" /\ served = P("", "", "raise") /\ builds = 0 /\ log = <<>>

\* ---- environment -------------------------------------------------------------------------------
EditImport == pc = "idle" /\ \E i \in Imps \ {env} : env' = i /\ UNCHANGED <<file, pc, cur, served, builds, log>>
Truncate == pc = "idle" /\ file.len > 0 /\ \E n \in 0..(file.len - 1) : file' = [file EXCEPT !.len = n]
            /\ UNCHANGED <<env, pc, cur, served, builds, log>>
CorruptHdr == pc = "idle" /\ file.len >= 1 /\ file' = [file EXCEPT !.hdr = "bad"] /\ UNCHANGED <<env, pc, cur, served, builds, log>>
CorruptUsed == pc = "idle" /\ file.len >= 2 /\ file' = [file EXCEPT !.used = "bad"] /\ UNCHANGED <<env, pc, cur, served, builds, log>>
CorruptBodyRaise == pc = "idle" /\ file.len = 3 /\ file' = [file EXCEPT !.body.kind = "raise"] /\ UNCHANGED <<env, pc, cur, served, builds, log>>
\* a payload byte changed: still unpickles, to a parser that is not the one of any key
CorruptBodyAlien == pc = "idle" /\ file.len = 3 /\ file.body.kind = "ok"
                    /\ file' = [file EXCEPT !.body.kind = "alien"] /\ UNCHANGED <<env, pc, cur, served, builds, log>>

\* ---- Lark(grammar, cache=path) ------------------------------------------------------------------
Start == pc = "idle" /\ builds < MaxBuilds /\ \E k \in Keys : cur' = k /\ pc' = "open"
         /\ builds' = builds + 1 /\ UNCHANGED <<file, env, served, log>>
\* FS.open(...,'rb'): FileNotFoundError -> build
Open == pc = "open" /\ pc' = (IF file.len = 0 THEN "compile" ELSE "read") /\ UNCHANGED <<file, env, cur, served, builds, log>>
\* readline + pickle.load(used): a missing or damaged segment raises -> caught -> build
Read == pc = "read" /\ pc' = (IF file.len < 2 \/ file.used = "bad" THEN "compile" ELSE "check")
        /\ UNCHANGED <<file, env, cur, served, builds, log>>
\* file_sha256 == cache_sha256 and verify_used_files(cached_used_files)
Check == pc = "check" /\ pc' = (IF file.hdr = cur /\ file.used = env THEN "loadbody" ELSE "compile")
         /\ UNCHANGED <<file, env, cur, served, builds, log>>
\* pickle.load(body) + _load: raises -> caught -> build; otherwise whatever it holds is served
LoadBody == /\ pc = "loadbody"
            /\ IF file.len < 3 \/ file.body.kind = "raise" THEN pc' = "compile" /\ UNCHANGED <<served, log>>
               ELSE /\ served' = file.body /\ pc' = "idle"
                    /\ log' = Append(log, [k |-> cur, imp |-> env, got |-> file.body, from |-> "cache"])
            /\ UNCHANGED <<file, env, cur, builds>>
Compile == pc = "compile" /\ served' = P(cur, env, "ok") /\ pc' = "w0"
           /\ log' = Append(log, [k |-> cur, imp |-> env, got |-> P(cur, env, "ok"), from |-> "build"])
           /\ UNCHANGED <<file, env, cur, builds>>
\* open(...,'wb') truncates, then three writes
W0 == pc = "w0" /\ file' = [Absent EXCEPT !.len = 0] /\ pc' = "w1" /\ UNCHANGED <<env, cur, served, builds, log>>
W1 == pc = "w1" /\ file' = [file EXCEPT !.len = 1, !.hdr = cur] /\ pc' = "w2" /\ UNCHANGED <<env, cur, served, builds, log>>
W2 == pc = "w2" /\ file' = [file EXCEPT !.len = 2, !.used = served.imp] /\ pc' = "w3" /\ UNCHANGED <<env, cur, served, builds, log>>
W3 == pc = "w3" /\ file' = [file EXCEPT !.len = 3, !.body = served] /\ pc' = "idle" /\ UNCHANGED <<env, cur, served, builds, log>>
\* the process dies between two writer steps (the instance was already returned to nobody: no log entry is affected)
Crash == pc \in {"w1", "w2", "w3"} /\ pc' = "idle" /\ UNCHANGED <<file, env, cur, served, builds, log>>

Env == EditImport \/ Truncate \/ CorruptHdr \/ CorruptUsed \/ CorruptBodyRaise \/ CorruptBodyAlien
Next == Env \/ Start \/ Open \/ Read \/ Check \/ LoadBody \/ Compile \/ W0 \/ W1 \/ W2 \/ W3 \/ Crash
Spec == Init /\ [][Next]_vars

\* ---- properties -----------------------------------------------------------------------------------
\* the cache is only an optimisation: every served parser is the one an uncached build would give
ServedIsDenote == \A i \in DOMAIN log : log[i].got = P(log[i].k, log[i].imp, "ok")
\* ... which holds except for one file state: header and used-files intact, body payload altered
ServedIsDenoteUnlessAlienBody == \A i \in DOMAIN log : log[i].got # P(log[i].k, log[i].imp, "ok") => log[i].got = P(log[i].k, log[i].imp, "alien")
\* a build that was not interrupted leaves a valid entry for what it built (action property)
LeavesValidEntry == [][(pc = "w3" /\ pc' = "idle" /\ file'.len = 3) => file' = Valid(cur, env)]_vars
\* a stale or damaged file (detected: header/used/body-raise/truncated/other key) is replaced, never served
NeverServesOtherKey == \A i \in DOMAIN log : log[i].got.k = log[i].k /\ log[i].got.imp = log[i].imp
=============================================================================
