---------------------------- MODULE TraceIndenter ---------------------------
(***************************************************************************)
(* C18 code -> spec.  A case is a history: the streams one real Indenter   *)
(* object processed, in order.  Per stream: the abstract input tokens, the *)
(* output kinds the consumer received (possibly only a prefix: abandoned   *)
(* generator), the exception raised, and - for well-formed space-indented  *)
(* programs - the nesting depth CPython's tokenizer assigns to each        *)
(* content token.  Every stream is judged against the machine started from *)
(* Reset (the state of earlier streams must not matter).                   *)
(***************************************************************************)
EXTENDS Indenter, TraceBase
VARIABLES tid, si, verdict
vars == <<tid, si, verdict>>

Toks(s) == [i \in DOMAIN s.toks |-> [k |-> s.toks[i][1], ind |-> s.toks[i][2]]]
IsPrefix(a, b) == Len(a) <= Len(b) /\ SubSeq(b, 1, Len(a)) = a

JudgeStream(s) ==
  LET fin == Process(Toks(s)) IN
  IF fin.status = "CloseUnderflow" THEN "ok"              \* the code's assert: modelled, not judged (DESIGN 6/C18)
  ELSE IF s.abandoned THEN (IF IsPrefix(s.out, fin.out) THEN "ok" ELSE "emitted-tokens-differ")
  ELSE IF fin.status = "DedentError" THEN
       (IF s.err # "DedentError" THEN "DedentError-not-raised"
        ELSE IF s.out # fin.out THEN "tokens-before-DedentError-differ" ELSE "ok")
  ELSE IF s.err # "" THEN "unexpected-" \o s.err
  ELSE IF s.out # fin.out THEN "emitted-tokens-differ"
  ELSE IF Count(s.out, "INDENT") # Count(s.out, "DEDENT") THEN "unbalanced-at-end"
  ELSE IF s.cpy /\ (s.cpyerr \/ DepthsBeforeContent(fin.out) # s.cpydepths) THEN "nesting-differs-from-CPython"
  ELSE "ok"

JudgeCpyErr(s) ==
  \* CPython rejects the dedent exactly when the machine does (programs of the cross-check family)
  LET fin == Process(Toks(s)) IN
  IF s.cpy /\ s.cpyerr /\ fin.status # "DedentError" THEN "CPython-rejects-dedent-the-machine-accepts"
  ELSE IF s.cpy /\ ~s.cpyerr /\ fin.status = "DedentError" THEN "machine-rejects-dedent-CPython-accepts"
  ELSE "ok"

Init == tid \in 1..NCases /\ si = 0 /\ verdict = "ok"
Next ==
  /\ si < Len(Cases[tid].streams)
  /\ si' = si + 1
  /\ LET s == Cases[tid].streams[si + 1]
         v0 == JudgeCpyErr(s)
         v == IF v0 # "ok" THEN v0 ELSE IF s.cpy /\ s.cpyerr THEN (IF s.err = "DedentError" THEN "ok" ELSE "DedentError-not-raised") ELSE JudgeStream(s)
     IN verdict' = Verdict(tid, si + 1, v = "ok", v, si + 1)
  /\ UNCHANGED tid
Spec == Init /\ [][Next]_vars
VerdictOk == verdict = "ok"
=============================================================================
