------------------------------- MODULE LALR -------------------------------
(***************************************************************************)
(* LALR(1): L0 definition by LR(1) look-ahead propagation on the LR(0)     *)
(* automaton, L1 transcription of lark's DeRemer-Pennello computation      *)
(* (lark/parsers/lalr_analysis.py), the action table with lark's conflict  *)
(* policy, and the push-down driver (lalr_parser_state.py).                *)
(*                                                                         *)
(* rules : Seq([lhs, rhs, prio]); rule 0 is the augmented root             *)
(*         $root -> start  (as lark's lr0_root_rules).                     *)
(* LR(0) item: <<r, d>>; a state is identified by its closure (a set of    *)
(* items), exactly how lark's debug ParseTable names states.               *)
(***************************************************************************)
EXTENDS CFG

END == "$END"
ROOT == "$root"

RLhs(rules, start, r) == IF r = 0 THEN ROOT ELSE rules[r].lhs
RRhs(rules, start, r) == IF r = 0 THEN <<start>> ELSE rules[r].rhs
RuleIds(rules) == {0} \cup DOMAIN rules
ItComplete(rules, start, it) == it[2] = Len(RRhs(rules, start, it[1]))
ItNext(rules, start, it) == RRhs(rules, start, it[1])[it[2] + 1]

(***************************************************************************)
(* LR(0) automaton                                                         *)
(***************************************************************************)
RECURSIVE ClosureLfp(_, _, _)
ClosureLfp(rules, start, I) ==
  LET want == {ItNext(rules, start, it) : it \in {q \in I : ~ItComplete(rules, start, q)}}
      I2 == I \cup {<<r, 0>> : r \in {q \in DOMAIN rules : rules[q].lhs \in want}}
  IN IF I2 = I THEN I ELSE ClosureLfp(rules, start, I2)
Closure(rules, start, K) == ClosureLfp(rules, start, K)

GotoKernel(rules, start, I, X) ==
  {<<it[1], it[2] + 1>> : it \in {q \in I : ~ItComplete(rules, start, q) /\ ItNext(rules, start, q) = X}}
Goto(rules, start, I, X) == Closure(rules, start, GotoKernel(rules, start, I, X))
NextSyms(rules, start, I) == {ItNext(rules, start, it) : it \in {q \in I : ~ItComplete(rules, start, q)}}

State0(rules, start) == Closure(rules, start, {<<0, 0>>})

RECURSIVE StatesLfp(_, _, _)
StatesLfp(rules, start, S) ==
  LET S2 == S \cup UNION { {Goto(rules, start, I, X) : X \in NextSyms(rules, start, I)} : I \in S }
  IN IF S2 = S THEN S ELSE StatesLfp(rules, start, S2)
LR0States(rules, start) == StatesLfp(rules, start, {State0(rules, start)})

(***************************************************************************)
(* L0: LALR(1) look-aheads as the least fixpoint of LR(1) item propagation *)
(* over the LR(0) automaton (= canonical LR(1) merged by core).            *)
(* LA is a set of <<state, item, terminal>>.                                *)
(***************************************************************************)
\* FIRST of the string  beta . t   (beta a sequence of symbols, t a terminal)
RECURSIVE FirstOfSeq(_, _, _, _, _)
FirstOfSeq(F, nul, beta, k, t) ==
  IF k > Len(beta) THEN {t}
  ELSE IF beta[k] \in nul THEN F[beta[k]] \cup FirstOfSeq(F, nul, beta, k + 1, t)
  ELSE F[beta[k]]

LAStep(rules, start, F, nul, LA) ==
  LA
  \cup UNION { LET I == e[1]  it == e[2]  t == e[3] IN
               IF ItComplete(rules, start, it) THEN {}
               ELSE LET X == ItNext(rules, start, it)
                        rhs == RRhs(rules, start, it[1])
                        viaGoto == {<<Goto(rules, start, I, X), <<it[1], it[2] + 1>>, t>>}
                        viaClosure ==
                          IF IsNT(rules, X)
                          THEN {<<I, <<q, 0>>, b>> : q \in {p \in DOMAIN rules : rules[p].lhs = X},
                                                      b \in FirstOfSeq(F, nul, rhs, it[2] + 2, t)}
                          ELSE {}
                    IN viaGoto \cup viaClosure
               : e \in LA }

RECURSIVE LALfp(_, _, _, _, _)
LALfp(rules, start, F, nul, LA) ==
  LET LA2 == LAStep(rules, start, F, nul, LA) IN IF LA2 = LA THEN LA ELSE LALfp(rules, start, F, nul, LA2)

FirstWithEnd(rules) ==
  LET F == First(rules) IN [s \in DOMAIN F \cup {END} |-> IF s = END THEN {END} ELSE F[s]]

LAProp(rules, start) ==
  LALfp(rules, start, FirstWithEnd(rules), Nullable(rules), {<<State0(rules, start), <<0, 0>>, END>>})

\* reduce look-aheads of state I:  set of <<rule, terminal>>
ReduceLA(rules, start, LA, I) ==
  {<<e[2][1], e[3]>> : e \in {x \in LA : x[1] = I /\ ItComplete(rules, start, x[2]) /\ x[2][1] # 0}}

(***************************************************************************)
(* L1: DeRemer-Pennello as lark computes it.                               *)
(* A non-terminal transition is <<state, A>>.                              *)
(***************************************************************************)
NTTransitions(rules, start, S) ==
  UNION { {<<I, A>> : A \in {X \in NextSyms(rules, start, I) : IsNT(rules, X)}} : I \in S }

DirectlyReads(rules, start, nt) ==
  LET J == Goto(rules, start, nt[1], nt[2])
      dr == {X \in NextSyms(rules, start, J) : ~IsNT(rules, X)}
  IN IF nt = <<State0(rules, start), start>> THEN dr \cup {END} ELSE dr

\* nt reads nt2
Reads(rules, start, nul, nt) ==
  LET J == Goto(rules, start, nt[1], nt[2])
  IN {<<J, X>> : X \in {Y \in NextSyms(rules, start, J) : Y \in nul}}

\* state reached from I by the symbols rhs[a..b]
RECURSIVE Walk(_, _, _, _, _, _)
Walk(rules, start, I, rhs, a, b) ==
  IF a > b THEN I ELSE Walk(rules, start, Goto(rules, start, I, rhs[a]), rhs, a + 1, b)

\* <<nt2, nt>> : nt2 includes nt   (lark: self.includes[nt2].add(nt))
IncludesPairs(rules, start, nul, NTT) ==
  UNION { LET I == nt[1]  A == nt[2] IN
          UNION { LET rhs == RRhs(rules, start, it[1]) IN
                  {<<<<Walk(rules, start, I, rhs, it[2] + 1, i - 1), rhs[i]>>, nt>> :
                      i \in {j \in (it[2] + 1)..Len(rhs) :
                               /\ IsNT(rules, rhs[j])
                               /\ \A q \in (j + 1)..Len(rhs) : rhs[q] \in nul}}
                  \* only productions of A that START in I (dot at 0).  Until the fix "includes relation only from
                  \* productions started in the state" the code also walked kernel items A -> a . b from their dot,
                  \* which added bogus edges and look-aheads that are not LALR(1) (found by this check, seed 2:
                  \* start: Y n | Z / n: X | Y v | start Z / v: | X start X - state {n -> X .} got look-ahead Z)
                  : it \in {x \in I : RLhs(rules, start, x[1]) = A /\ x[2] = 0} }
          : nt \in NTT }

\* lookback: <<nt, state2, rule>>
LookbackTriples(rules, start, NTT) ==
  UNION { LET I == nt[1]  A == nt[2] IN
          {<<nt, Walk(rules, start, I, RRhs(rules, start, it[1]), 1, Len(RRhs(rules, start, it[1]))), it[1]>> :
              it \in {x \in I : RLhs(rules, start, x[1]) = A /\ x[2] = 0}}
          : nt \in NTT }

\* digraph(X, R, G): F(x) = G(x) \cup UNION {F(y) : x R y}   (least solution)
RECURSIVE DigraphLfp(_, _, _)
DigraphLfp(X, R, Fm) ==
  LET F2 == [x \in X |-> Fm[x] \cup UNION {Fm[y] : y \in R[x] \cap X}]
  IN IF F2 = Fm THEN Fm ELSE DigraphLfp(X, R, F2)

DPFollow(rules, start) ==
  LET S == LR0States(rules, start)
      nul == Nullable(rules)
      NTT == NTTransitions(rules, start, S)
      DR == [nt \in NTT |-> DirectlyReads(rules, start, nt)]
      RD == [nt \in NTT |-> Reads(rules, start, nul, nt)]
      ReadSets == DigraphLfp(NTT, RD, DR)
      incl == IncludesPairs(rules, start, nul, NTT)
      INC == [nt \in NTT |-> {p[2] : p \in {q \in incl : q[1] = nt}}]
  IN DigraphLfp(NTT, INC, ReadSets)

\* look-aheads lark attaches: set of <<state, rule, terminal>>
DPLookaheads(rules, start) ==
  LET S == LR0States(rules, start)
      NTT == NTTransitions(rules, start, S)
      Fo == DPFollow(rules, start)
  IN UNION { {<<lb[2], lb[3], t>> : t \in Fo[lb[1]]} : lb \in LookbackTriples(rules, start, NTT) }

\* the same information out of the L0 fixpoint, for comparison
PropLookaheads(rules, start) ==
  LET LA == LAProp(rules, start) IN
  {<<e[1], e[2][1], e[3]>> : e \in {x \in LA : ItComplete(rules, start, x[2]) /\ x[2][1] # 0}}

(***************************************************************************)
(* Action table with lark's conflict policy.  las: set of                  *)
(* <<state, rule, terminal>>.                                               *)
(***************************************************************************)
Prio(rules, r) == rules[r].prio
RulesOn(las, I, t) == {e[2] : e \in {x \in las : x[1] = I /\ x[3] = t}}
LATerms(las, I) == {e[3] : e \in {x \in las : x[1] = I}}

\* the winner of a reduce/reduce competition, or 0 when there is no strict winner
RRWinner(rules, R) ==
  IF Cardinality(R) = 1 THEN CHOOSE r \in R : TRUE
  ELSE LET best == CHOOSE r \in R : \A q \in R : Prio(rules, r) >= Prio(rules, q)
       IN IF \A q \in R \ {best} : Prio(rules, best) > Prio(rules, q) THEN best ELSE 0

RRConflicts(rules, start, las) ==
  {<<I, t>> \in LR0States(rules, start) \X (TermsOf(rules) \cup {END}) :
       Cardinality(RulesOn(las, I, t)) > 1 /\ RRWinner(rules, RulesOn(las, I, t)) = 0}

\* reduce/reduce competitions, resolved by priority or not
RRCompetitions(rules, start, las) ==
  {<<I, t>> \in LR0States(rules, start) \X (TermsOf(rules) \cup {END}) : Cardinality(RulesOn(las, I, t)) > 1}

SRConflicts(rules, start, las) ==
  {<<I, t>> \in LR0States(rules, start) \X TermsOf(rules) :
       /\ RulesOn(las, I, t) # {}
       /\ t \in NextSyms(rules, start, I)}

\* action of state I on symbol X: <<"S", target>> | <<"R", rule>> | <<"E">>
Action(rules, start, las, I, X) ==
  IF X \in NextSyms(rules, start, I) THEN <<"S", Goto(rules, start, I, X)>>
  ELSE LET R == RulesOn(las, I, X) IN
       IF R = {} THEN <<"E">>
       ELSE LET wnr == RRWinner(rules, R) IN IF wnr = 0 THEN <<"E">> ELSE <<"R", wnr>>

\* the row of a state: symbols with a non-error action
Row(rules, start, las, I) == NextSyms(rules, start, I) \cup LATerms(las, I)

(***************************************************************************)
(* Driver (ParserState.feed_token).  A configuration is the state stack    *)
(* (sequence of states).  Result of feeding one token type:                *)
(*   <<"ok", stack>> | <<"accept">> | <<"error", stack at error time>>     *)
(***************************************************************************)
EndState(rules, start) == Goto(rules, start, State0(rules, start), start)

\* A priority-resolved reduce/reduce conflict can make the automaton reduce an empty rule for ever
\* (start: a a / a.1: | start Y, input "y"): the driver is given fuel and reports <<"loop", stack>>.
Fuel == 200

RECURSIVE FeedF(_, _, _, _, _, _)
FeedF(rules, start, las, stack, t, fuel) ==
  LET I == stack[Len(stack)]
      act == Action(rules, start, las, I, t)
  IN IF act[1] = "E" THEN <<"error", stack>>
     ELSE IF act[1] = "S" THEN <<"ok", Append(stack, act[2])>>
     ELSE IF fuel = 0 THEN <<"loop", stack>>
     ELSE LET r == act[2]
              size == Len(rules[r].rhs)
              base == SubSeq(stack, 1, Len(stack) - size)
              J == Goto(rules, start, base[Len(base)], rules[r].lhs)
              st2 == Append(base, J)
          IN IF t = END /\ J = EndState(rules, start) THEN <<"accept">>
             ELSE FeedF(rules, start, las, st2, t, fuel - 1)
Feed(rules, start, las, stack, t) == FeedF(rules, start, las, stack, t, Fuel)

\* run a whole token string; result <<"accept">> | <<"error", k, stack>> | <<"loop", k, stack>>
\* (k = index of offending token, Len+1 for $END)
RECURSIVE RunLR(_, _, _, _, _, _)
RunLR(rules, start, las, stack, w, k) ==
  LET t == IF k > Len(w) THEN END ELSE w[k]
      r == Feed(rules, start, las, stack, t)
  IN IF r[1] = "accept" THEN <<"accept">>
     ELSE IF r[1] \in {"error", "loop"} THEN <<r[1], k, r[2]>>
     ELSE RunLR(rules, start, las, r[2], w, k + 1)

ParseLR(rules, start, las, w) == RunLR(rules, start, las, <<State0(rules, start)>>, w, 1)

\* terminals t such that feeding t from this stack does not end in error (accepts())
SpecAccepts(rules, start, las, stack) ==
  {t \in TermsOf(rules) \cup {END} : Feed(rules, start, las, stack, t)[1] \in {"ok", "accept"}}

=============================================================================
