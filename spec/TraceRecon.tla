------------------------------ MODULE TraceRecon ----------------------------
(* C19 code -> spec: case = a parser (compiled rules with filter flags, ph, unambiguous), trees: list of
   [same: parse(reconstruct(tree)) == tree, raised, items: the pieces reconstruct() emitted with the identifier-ness of
   their first and last characters, blanks: the positions where it put a blank] *)
EXTENDS Reconstruct, TraceBase
VARIABLES tid, ti, verdict
SetOf(s) == {s[i] : i \in DOMAIN s}
Init == tid \in 1..NCases /\ ti = 0 /\ verdict = "ok"
Next ==
  /\ ti < Len(Cases[tid].trees)
  /\ ti' = ti + 1
  /\ LET c == Cases[tid]
         t == c.trees[ti + 1]
         v == IF ~Supported(c) THEN "ok"                      \* outside the class: nothing is promised
              ELSE IF t.raised # "" THEN "reconstruct-raised-" \o t.raised \o (IF Expand1OverInlined(c) THEN "@expand1-over-inlined" ELSE "")
              ELSE IF SetOf(t.blanks) # Blanks(t.items) THEN "blank-not-where-identifier-characters-meet"
              ELSE IF ~t.same THEN "reconstructed-text-does-not-parse-to-the-same-tree"
              ELSE "ok"
     IN verdict' = Verdict(tid, ti + 1, v = "ok", v, IF Supported(c) THEN 1 ELSE 0)
  /\ UNCHANGED tid
Spec == Init /\ [][Next]_<<tid, ti, verdict>>
VerdictOk == verdict = "ok"
=============================================================================
