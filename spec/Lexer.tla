------------------------------- MODULE Lexer -------------------------------
(***************************************************************************)
(* The standard (basic) lexer of lark/lexer.py.                            *)
(*                                                                         *)
(* A terminal is a record                                                  *)
(*   name, prio, maxw (max width of its pattern), plen (length of the      *)
(*   pattern as written), isstr (string literal vs regexp),                *)
(*   fl (set of its own flags), ign (ignored), nlcode (lark believes it    *)
(*   can match a newline: newline_types)                                   *)
(* What a terminal matches is not specified here: it is a table            *)
(*   M[t][p+1] = end offset of t's own greedy match at offset p, 0 if none *)
(* supplied by the regex oracle (Python's re for the real lexer, finite    *)
(* languages in the model-checked instances).  Everything lark does WITH   *)
(* those matches is specified: the order, the choice, the keyword rule,    *)
(* ignoring, the error position, line/column bookkeeping.                  *)
(***************************************************************************)
EXTENDS Integers, Sequences, FiniteSets

\* ---- L0: the documented order -------------------------------------------
\* strings are atomic in TLC: names are compared through the index NameRank[name] supplied with the case
Before(a, b, rank) ==
  \/ a.prio > b.prio
  \/ a.prio = b.prio /\ a.maxw > b.maxw
  \/ a.prio = b.prio /\ a.maxw = b.maxw /\ a.plen > b.plen
  \/ a.prio = b.prio /\ a.maxw = b.maxw /\ a.plen = b.plen /\ rank[a.name] < rank[b.name]

\* terminals (indices into T) sorted by the documented key
RECURSIVE SortIdx(_, _, _)
SortIdx(T, S, rank) ==
  IF S = {} THEN <<>>
  ELSE LET m == CHOOSE i \in S : \A j \in S \ {i} : Before(T[i], T[j], rank)
       IN <<m>> \o SortIdx(T, S \ {m}, rank)
Order(T, rank) == SortIdx(T, DOMAIN T, rank)

\* ---- L0: tiling with the keyword rule ------------------------------------
\* first terminal in `order` (restricted to the set `among`) matching at offset p: <<index, end>> or <<0,0>>
RECURSIVE FirstMatch(_, _, _, _, _)
FirstMatch(M, order, among, p, k) ==
  IF k > Len(order) THEN <<0, 0>>
  ELSE IF order[k] \in among /\ M[order[k]][p + 1] > p THEN <<order[k], M[order[k]][p + 1]>>
  ELSE FirstMatch(M, order, among, p, k + 1)

\* documented keyword rule: text matched by regexp r which is exactly a same-priority string terminal
RECURSIVE KeywordOf(_, _, _, _, _, _, _)
KeywordOf(T, M, order, r, p, e, k) ==
  IF k > Len(order) THEN r
  ELSE LET s == order[k] IN
       IF T[s].isstr /\ T[s].prio = T[r].prio /\ M[s][p + 1] = e THEN s
       ELSE KeywordOf(T, M, order, r, p, e, k + 1)

TokenAt0(T, M, order, among, p) ==
  LET fm == FirstMatch(M, order, among, p, 1) IN
  IF fm[1] = 0 THEN <<0, 0>>
  ELSE IF T[fm[1]].isstr THEN fm
  ELSE <<KeywordOf(T, M, order, fm[1], p, fm[2], 1), fm[2]>>

\* the token list <<type index, start, end>> (ignored ones included, flagged by T[i].ign) and the error offset (-1: none)
RECURSIVE Tiling(_, _, _, _, _, _, _)
Tiling(T, M, order, among, p, n, acc) ==
  IF p >= n THEN <<acc, -1>>
  ELSE LET tk == TokenAt0(T, M, order, among, p) IN
       IF tk[1] = 0 THEN <<acc, p>>
       ELSE Tiling(T, M, order, among, tk[2], n, Append(acc, <<tk[1], p, tk[2]>>))

\* ---- L1: what the code does (unless-callbacks and embedded strings) ------
\* SM[r][s] : the regexp r, applied to the *spelling* of string terminal s, matches all of it
\* (s == _get_match(re_, retok.pattern.to_regexp(), s, g_regex_flags))
Unless(T, SM, r) == {s \in DOMAIN T : T[s].isstr /\ T[s].prio = T[r].prio /\ SM[r][s]}
\* a (sub-)lexer is built from the terminal set `among` only: the unless lists and the embedding are relative to it
Embedded(T, SM, among) ==
  {s \in among : T[s].isstr /\ \E r \in among : ~T[r].isstr /\ s \in Unless(T, SM, r) /\ T[s].fl \subseteq T[r].fl}

\* UnlessCallback: Scanner(unless).fullmatch(value): first string terminal of the unless list (in sorted order)
\* that matches the whole token text
RECURSIVE UnlessHit(_, _, _, _, _, _, _)
UnlessHit(T, M, order, U, p, e, k) ==
  IF k > Len(order) THEN 0
  ELSE IF order[k] \in U /\ M[order[k]][p + 1] = e THEN order[k]
  ELSE UnlessHit(T, M, order, U, p, e, k + 1)

TokenAt1(T, M, SM, order, among, p) ==
  LET fm == FirstMatch(M, order, among \ Embedded(T, SM, among), p, 1) IN
  IF fm[1] = 0 THEN <<0, 0>>
  ELSE IF T[fm[1]].isstr THEN fm
  ELSE LET h == UnlessHit(T, M, order, Unless(T, SM, fm[1]) \cap among, p, fm[2], 1)
       IN <<IF h = 0 THEN fm[1] ELSE h, fm[2]>>

RECURSIVE Lex1(_, _, _, _, _, _, _, _)
Lex1(T, M, SM, order, among, p, n, acc) ==
  IF p >= n THEN <<acc, -1>>
  ELSE LET tk == TokenAt1(T, M, SM, order, among, p) IN
       IF tk[1] = 0 THEN <<acc, p>>
       ELSE Lex1(T, M, SM, order, among, tk[2], n, Append(acc, <<tk[1], p, tk[2]>>))

\* the one place where the code is known to leave the documented rule (DESIGN section 7 item 10):
\* a token typed by a regexp although a same-priority string terminal matches exactly that text,
\* because the regexp does not match the string terminal's *spelling* (case-insensitive keywords)
SpellingDeviation(T, M, SM, order, among, p) ==
  LET t0 == TokenAt0(T, M, order, among, p)
      t1 == TokenAt1(T, M, SM, order, among, p)
  IN t0 # t1

\* Two ways in which L1 leaves L0, told apart by the FIRST matching terminal of the two scanners:
\*  "spelling": both scanners find the same regexp first; L0 names the same-priority string terminal that matches the text,
\*              the code asks only the strings whose SPELLING the regexp matches (case-insensitive keywords)
\*  "embedded": a string terminal that some same-priority regexp matches in isolation was REMOVED from the scanner, and here
\*              that regexp is not the one that produces the token - another terminal sorts between the two
\*              (A: "a", B: "a"i, C: /./ : 'a' is typed B), or the regexp does not match in this context
\*              (NAME: /(?<!1)[a-z]+/, IF: "if", text '1if': no token at 1)
DevKind(T, M, SM, order, among, p) ==
  IF FirstMatch(M, order, among, p, 1) = FirstMatch(M, order, among \ Embedded(T, SM, among), p, 1) THEN "spelling" ELSE "embedded"
RECURSIVE DevKindFrom(_, _, _, _, _, _, _)
DevKindFrom(T, M, SM, order, among, p, n) ==
  IF p >= n THEN "spelling"
  ELSE LET a == TokenAt0(T, M, order, among, p)
           b == TokenAt1(T, M, SM, order, among, p)
       IN IF a # b THEN DevKind(T, M, SM, order, among, p)
          ELSE IF a[1] = 0 THEN "spelling" ELSE DevKindFrom(T, M, SM, order, among, a[2], n)
EmbeddedDeviation(T, M, SM, order, among, p) ==
  SpellingDeviation(T, M, SM, order, among, p) /\ DevKind(T, M, SM, order, among, p) = "embedded"

\* BasicLexer.next_token: skip ignored tokens; <<index, start, end>> | <<0, error offset, 0>> | <<-1, n, n>> at the end
RECURSIVE NextTok1(_, _, _, _, _, _, _)
NextTok1(T, M, SM, order, among, p, n) ==
  IF p >= n THEN <<-1, n, n>>
  ELSE LET tk == TokenAt1(T, M, SM, order, among, p) IN
       IF tk[1] = 0 THEN <<0, p, 0>>
       ELSE IF T[tk[1]].ign THEN NextTok1(T, M, SM, order, among, tk[2], n)
       ELSE <<tk[1], p, tk[2]>>

RECURSIVE NextTok0(_, _, _, _, _, _)
NextTok0(T, M, order, among, p, n) ==
  IF p >= n THEN <<-1, n, n>>
  ELSE LET tk == TokenAt0(T, M, order, among, p) IN
       IF tk[1] = 0 THEN <<0, p, 0>>
       ELSE IF T[tk[1]].ign THEN NextTok0(T, M, order, among, tk[2], n)
       ELSE <<tk[1], p, tk[2]>>

\* ---- coordinates -----------------------------------------------------------
\* NL: set of offsets holding a newline character.  Coord(p) = <<line, column>> of offset p (1-based)
Line(NL, p) == 1 + Cardinality({q \in NL : q < p})
Col(NL, p) == LET before == {q \in NL : q < p} IN
              IF before = {} THEN p + 1 ELSE p - (CHOOSE q \in before : \A r \in before : r <= q)

\* L1: LineCounter.feed(token, test_newline) over a token [s,e)
\* lc = [pos, line, lsp]  (char_pos, line, line_start_pos)
LcFeed(lc, NL, s, e, test) ==
  LET inside == {q \in NL : q >= s /\ q < e} IN
  IF test /\ inside # {}
  THEN [pos |-> e, line |-> lc.line + Cardinality(inside),
        lsp |-> (CHOOSE q \in inside : \A r \in inside : r <= q) + 1]
  ELSE [pos |-> e, line |-> lc.line, lsp |-> lc.lsp]
LcCol(lc) == lc.pos - lc.lsp + 1
\* LineCounter.from_text_slice / advance_to: counter positioned at offset a of the buffer
LcAt(NL, a) ==
  LET before == {q \in NL : q < a} IN
  [pos |-> a, line |-> 1 + Cardinality(before),
   lsp |-> IF before = {} THEN 0 ELSE (CHOOSE q \in before : \A r \in before : r <= q) + 1]
=============================================================================
