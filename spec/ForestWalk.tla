----------------------------- MODULE ForestWalk ----------------------------
(***************************************************************************)
(* lark/parsers/earley_forest.py ForestVisitor.visit as a machine (L1)     *)
(* over an arbitrary finite graph: node x has the successor *list* S[x]    *)
(* (what the visit_*_in callback returns), Tok is the set of token leaves. *)
(* One step = one iteration of `while input_stack`.                        *)
(*   frames: <<"nd", x, 0>> a node, <<"it", x, pos>> the iterator over S[x] *)
(*   events: <<"in",x>> <<"out",x>> <<"tok",x>> <<"cycle",x>>               *)
(***************************************************************************)
EXTENDS Integers, Sequences, FiniteSets

InitWalk(root) == [stack |-> << <<"nd", root, 0>> >>, visiting |-> {}, visited |-> {}, path |-> <<>>, ev |-> <<>>]
Done(st) == st.stack = <<>>
Pop(s) == SubSeq(s, 1, Len(s) - 1)

Step(S, Tok, single, st) ==
  LET top == st.stack[Len(st.stack)] IN
  IF top[1] = "it" THEN
     LET lst == S[top[2]]  pos == top[3] IN
     IF pos > Len(lst) THEN [st EXCEPT !.stack = Pop(@)]                                   \* StopIteration
     ELSE LET nxt == lst[pos]
              adv == [st EXCEPT !.stack[Len(st.stack)] = <<"it", top[2], pos + 1>>]
          IN IF nxt \in st.visiting THEN [adv EXCEPT !.ev = Append(@, <<"cycle", nxt>>)]     \* oc(next_node, path)
             ELSE [adv EXCEPT !.stack = Append(@, <<"nd", nxt, 0>>)]
  ELSE LET x == top[2] IN
     IF x \in Tok THEN [st EXCEPT !.stack = Pop(@), !.ev = Append(@, <<"tok", x>>)]
     ELSE IF x \in st.visiting THEN
          [st EXCEPT !.stack = Pop(@), !.path = Pop(@), !.visiting = @ \ {x}, !.visited = @ \cup {x},
                     !.ev = Append(@, <<"out", x>>)]
     ELSE IF single /\ x \in st.visited THEN [st EXCEPT !.stack = Pop(@)]
     ELSE [st EXCEPT !.visiting = @ \cup {x}, !.path = Append(@, x), !.ev = Append(@, <<"in", x>>),
                     !.stack = Append(@, <<"it", x, 1>>)]

RECURSIVE RunWalk(_, _, _, _, _)
RunWalk(S, Tok, single, st, fuel) ==
  IF Done(st) \/ fuel = 0 THEN st ELSE RunWalk(S, Tok, single, Step(S, Tok, single, st), fuel - 1)

NoDup(s) == \A i, j \in DOMAIN s : i # j => s[i] # s[j]
=============================================================================
