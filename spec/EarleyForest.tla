---------------------------- MODULE EarleyForest ----------------------------
(***************************************************************************)
(* The shared packed parse forest the Earley machine of Earley.tla builds  *)
(* (lark/parsers/earley.py predict_and_complete / scan, earley_forest.py). *)
(*                                                                         *)
(* The node of an item is a function of the item and of the column it is   *)
(* in:  label = <<s, start, end>>,  s = the rule's origin when the item is *)
(* complete, else the dotted rule <<rule, dot>> (intermediate node); items *)
(* with the dot at 0 have no node.  node_cache makes the label the         *)
(* identity, add_family adds a packed node <<label, rule, left, right>>    *)
(* (a set: PackedNode equality).  The forest is the set of families.       *)
(*                                                                         *)
(* L0: the trees of the root are exactly the derivations of CFG.tla, and   *)
(*     the forest holds each of them once (choices = derivations).         *)
(***************************************************************************)
EXTENDS Earley

\* nodes are uniform 4-tuples <<kind, <<name, rule, dot>>, start, end>> (TLC compares only like-shaped values)
NONE == <<"none", <<"", 0, 0>>, 0, 0>>
SymOf(rules, it) == IF IsComplete(rules, it) THEN <<Lhs(rules, it), 0, 0>> ELSE <<"", it[1], it[2]>>
Label(rules, it, end) == <<"sym", SymOf(rules, it), it[3], end>>
\* the node an item carries while it sits in column `end`
NodeOf(rules, it, end) == IF it[2] = 0 THEN NONE ELSE Label(rules, it, end)
TokNode(name, pos) == <<"tok", <<name, 0, 0>>, pos, pos + 1>>
Fam(label, rule, left, right) == <<label, rule, left, right>>

\* families added by one iteration of the worklist loop for the popped item `it` (st: the state before)
NewFams(rules, st, it) ==
  IF IsComplete(rules, it) THEN
    LET A == Lhs(rules, it)
        me == Label(rules, it, st.i)
        own == IF it[2] = 0 THEN {Fam(me, it[1], NONE, NONE)} ELSE {}                    \* an empty rule: its node is created here
        origCol == IF it[3] = st.i THEN st.col ELSE st.cols[it[3] + 1]
        originators == {o \in origCol : ~IsComplete(rules, o) /\ Expect(rules, o) = A}
    IN own \cup {Fam(Label(rules, Advance(o), st.i), o[1], NodeOf(rules, o, it[3]), me) : o \in originators}
  ELSE IF ExpectsNT(rules, it) /\ Expect(rules, it) \in st.held
    THEN {Fam(Label(rules, Advance(it), st.i), it[1], NodeOf(rules, it, st.i), <<"sym", <<Expect(rules, it), 0, 0>>, st.i, st.i>>)}   \* held completion H
  ELSE {}
FStepItem(rules, st, it) == LET s2 == StepItem(rules, st, it) IN [s2 EXCEPT !.fam = @ \cup NewFams(rules, st, it)]

FInitState(rules, start) ==
  LET s == InitState(rules, start) IN
  [cols |-> s.cols, col |-> s.col, work |-> s.work, toScan |-> s.toScan, held |-> s.held, i |-> s.i, fam |-> {}]
FScanTok(rules, st, tok) ==
  LET s == ScanTok(rules, st, tok)
      new == {Fam(Label(rules, Advance(q), st.i + 1), q[1], NodeOf(rules, q, st.i), TokNode(tok, st.i)) : q \in {x \in st.toScan : Expect(rules, x) = tok}}
  IN [cols |-> s.cols, col |-> s.col, work |-> s.work, toScan |-> s.toScan, held |-> s.held, i |-> s.i, fam |-> st.fam \cup new]

RECURSIVE FRunColumn(_, _)
FRunColumn(rules, st) == IF st.work = {} THEN st ELSE FRunColumn(rules, FStepItem(rules, st, CHOOSE it \in st.work : TRUE))
\* <<accepted, forest>>
RECURSIVE FRunFrom(_, _, _, _, _)
FRunFrom(rules, start, w, k, st) ==
  LET s1 == FRunColumn(rules, st) IN
  IF k > Len(w) THEN <<Solutions(rules, start, s1) # {}, s1.fam>>
  ELSE IF ScanFails(rules, s1, w[k]) THEN <<FALSE, s1.fam>>
  ELSE FRunFrom(rules, start, w, k + 1, FScanTok(rules, s1, w[k]))
FRun(rules, start, w) == FRunFrom(rules, start, w, 1, FInitState(rules, start))

\* ---- reading the forest -----------------------------------------------------------------------------------------
FamsOf(F, label) == {f \in F : f[1] = label}
\* child lists (sequences of derivation trees of CFG.tla) a node stands for; a symbol node <<<<A>>, i, j>> stands for trees
RECURSIVE ChildLists(_, _), TreesAt(_, _)
TreesAt(F, node) ==
  IF node[1] = "tok" THEN {<<"t", node[2][1], node[3], node[4]>>}
  ELSE UNION {{<<"n", f[2], cs>> : cs \in ChildLists(F, f)} : f \in FamsOf(F, node)}
\* one family: the children of the left part (an intermediate node, or nothing) followed by the right child
ChildLists(F, f) ==
  LET lefts == IF f[3] = NONE THEN {<<>>} ELSE UNION {ChildLists(F, g) : g \in FamsOf(F, f[3])}
      rights == IF f[4] = NONE THEN {<<>>} ELSE {<<t>> : t \in TreesAt(F, f[4])}
  IN {l \o r : l \in lefts, r \in rights}
\* number of ways to choose one family per node met (the forest's own count of what it represents)
RECURSIVE WaysFam(_, _), WaysAt(_, _)
SumOver(S, g(_)) == LET RECURSIVE Acc(_)
                        Acc(T) == IF T = {} THEN 0 ELSE LET x == CHOOSE y \in T : TRUE IN g(x) + Acc(T \ {x})
                    IN Acc(S)
WaysAt(F, node) == IF node[1] = "tok" THEN 1 ELSE SumOver(FamsOf(F, node), LAMBDA f : WaysFam(F, f))
WaysFam(F, f) ==
  (IF f[3] = NONE THEN 1 ELSE SumOver(FamsOf(F, f[3]), LAMBDA g : WaysFam(F, g))) * (IF f[4] = NONE THEN 1 ELSE WaysAt(F, f[4]))

Root(start, w) == <<"sym", <<start, 0, 0>>, 0, Len(w)>>
=============================================================================
