----------------------------- MODULE TraceC08 ------------------------------
(***************************************************************************)
(* C08 code -> spec.  Every rejected input of a family grammar, under each *)
(* parser/lexer pair, with the exception the real lark raised:             *)
(*   cls, pos (pos_in_stream), tt (type of the offending token),           *)
(*   exp (expected / allowed), acc (accepts), hasacc.                      *)
(* The input is given as its non-ignored tokens `toks` with their offsets  *)
(* `tpos` (single-character terminals, so offsets are certain); "U" is a   *)
(* character no terminal matches.                                          *)
(*                                                                         *)
(* L0: fb = the first token index k with  ~Viable(toks[1..k])  (0: none,   *)
(* the input is a proper prefix of a sentence).  NextTerminals(prefix).    *)
(* LALR on grammars that are not reduced or have shift/reduce conflicts is *)
(* judged against the shift-resolved automaton of LALR.tla (reading).      *)
(* Late detection on grammars with an unproductive non-terminal is tagged  *)
(* "@nonreduced" (known finding, see DESIGN section 7 item 11).            *)
(***************************************************************************)
EXTENDS LALR, TraceBase, FiniteSetsExt

VARIABLES tid, ii, las, plain, verdict
vars == <<tid, ii, las, plain, verdict>>

StrSet(seq) == {seq[x] : x \in DOMAIN seq}

FirstBad(rules, start, toks) ==
  LET bad == {k \in 1..Len(toks) : ~Viable(rules, start, SubSeq(toks, 1, k))}
  IN IF bad = {} THEN 0 ELSE Min(bad)

NextE(rules, start, u) ==
  NextTerminals(rules, start, u) \cup (IF InLang(rules, start, u) THEN {END} ELSE {})

AllProductive(rules) == NTs(rules) \subseteq Productive(rules)
Tag(rules, clause) == IF AllProductive(rules) THEN clause ELSE clause \o "@nonreduced"

\* index at which the LALR automaton errs (Len+1: at $END); 0 when it loops; -1 accept
LRBad(c, l, toks) ==
  LET r == ParseLR(c.rules, c.start, l, toks)
  IN IF r[1] = "accept" THEN -1 ELSE IF r[1] = "loop" THEN 0 ELSE r[2]

JudgeEarley(c, inp, o, fb, nxt, dynamic) ==
  LET toks == inp.toks
      m == Len(toks)
      exp == StrSet(o.exp)
  IN IF fb = 0 THEN
        (IF o.cls # "UnexpectedEOF" THEN Tag(c.rules, "expected-UnexpectedEOF-got-" \o o.cls)
         ELSE IF ~(nxt \subseteq exp) THEN "expected-set-misses-legal-terminal"
         ELSE IF dynamic /\ exp # nxt THEN Tag(c.rules, "expected-set-has-illegal-terminal")
         ELSE "ok")
     ELSE
        (IF o.cls \notin {"UnexpectedToken", "UnexpectedCharacters"} THEN Tag(c.rules, "wrong-class-" \o o.cls)
         ELSE IF o.pos # inp.tpos[fb] THEN Tag(c.rules, IF o.pos > inp.tpos[fb] THEN "position-late" ELSE "position-early")
         ELSE IF dynamic /\ o.cls # "UnexpectedCharacters" THEN "dynamic-wrong-class"
         ELSE IF o.cls = "UnexpectedToken" /\ ~(nxt \subseteq exp) THEN "expected-set-misses-legal-terminal"
         ELSE IF dynamic /\ ~(nxt \subseteq exp) THEN "allowed-set-misses-legal-terminal"
         ELSE IF dynamic /\ exp # nxt THEN Tag(c.rules, "allowed-set-has-illegal-terminal")
         ELSE "ok")

JudgeLALR(c, inp, o, fb, l, pl) ==
  LET toks == inp.toks
      m == Len(toks)
      lb == LRBad(c, l, toks)
      \* error index: 1..m a token, m+1 end of input
      k == IF pl THEN (IF fb = 0 THEN m + 1 ELSE fb) ELSE lb
  IN IF o.cls = "Hang" THEN (IF lb = 0 THEN "hang@automaton-loops" ELSE "hang")
     ELSE IF k = 0 THEN "ok"
     ELSE IF k = -1 THEN "rejected-but-automaton-accepts"
     ELSE LET prefix == SubSeq(toks, 1, k - 1)
              nxt == NextE(c.rules, c.start, prefix)
              acc == StrSet(o.acc)
              \* an UnexpectedToken raised through the contextual lexer takes `expected` from the lexer, which
              \* has no end-of-input terminal: where only $END is missing the clause carries the suffix of known
              \* finding C08-end-not-in-expected (until the second hunt this was an exemption - DESIGN section 8)
              exp == StrSet(o.exp)
              NotInExp == IF o.cfg = "lalr/contextual" /\ acc \subseteq (exp \cup {END})
                          THEN "accepts-not-in-expected@end-through-contextual-lexer" ELSE "accepts-not-in-expected"
          IN IF k = m + 1 THEN
                (IF o.cls # "UnexpectedToken" \/ o.tt # END THEN "expected-$END-token-got-" \o o.cls \o ":" \o o.tt
                 ELSE IF o.pos # (IF m = 0 THEN 0 ELSE inp.tpos[m]) THEN "$END-does-not-carry-last-token-position"
                 ELSE IF o.hasacc /\ ~(acc \subseteq nxt) THEN Tag(c.rules, "accepts-has-illegal-terminal")
                 ELSE IF o.hasacc /\ ~(acc \subseteq exp) THEN NotInExp
                 ELSE "ok")
             ELSE
                (IF o.cls \notin {"UnexpectedToken", "UnexpectedCharacters"} THEN "wrong-class-" \o o.cls
                 ELSE IF o.pos # inp.tpos[k] THEN (IF o.pos > inp.tpos[k] THEN "position-late" ELSE "position-early")
                 ELSE IF o.cls = "UnexpectedToken" /\ o.hasacc /\ ~(acc \subseteq nxt) THEN Tag(c.rules, "accepts-has-illegal-terminal")
                 ELSE IF o.cls = "UnexpectedToken" /\ o.hasacc /\ ~(acc \subseteq exp) THEN NotInExp
                 ELSE "ok")

\* sent: the input is a sentence (then only an LALR rejection on a grammar with conflicts is judged here,
\* against the automaton; any other rejection of a sentence is C01's / C02's business)
JudgeObs(c, inp, o, fb, nxt, sent, l, pl) ==
  IF o.cls = "" THEN "ok"                     \* accepted under this configuration: not C08's business
  ELSE IF sent /\ o.cfg \notin {"lalr/basic", "lalr/contextual"} THEN "ok"
  ELSE IF sent /\ pl THEN "ok"
  ELSE IF o.cfg = "cyk" THEN (IF o.cls = "ParseError" \/ o.ui THEN "ok" ELSE "cyk-wrong-class-" \o o.cls)
  ELSE IF ~o.ui /\ o.cls # "Hang" THEN "not-UnexpectedInput-" \o o.cls
  ELSE IF o.cfg \in {"lalr/basic", "lalr/contextual"} THEN JudgeLALR(c, inp, o, fb, l, pl)
  ELSE IF o.cls = "Hang" THEN "hang"
  ELSE JudgeEarley(c, inp, o, fb, nxt, o.cfg # "earley/basic")

RECURSIVE FirstBadObs(_, _, _, _, _, _, _, _)
FirstBadObs(c, inp, fb, nxt, sent, l, pl, j) ==
  IF j > Len(inp.obs) THEN "ok"
  ELSE LET v == JudgeObs(c, inp, inp.obs[j], fb, nxt, sent, l, pl)
       IN IF v = "ok" THEN FirstBadObs(c, inp, fb, nxt, sent, l, pl, j + 1) ELSE inp.obs[j].cfg \o ":" \o v

Init == tid \in 1..NCases /\ ii = -1 /\ las = {} /\ plain = FALSE /\ verdict = "ok"

\* per grammar, once: the look-aheads the LALR judgement uses, and whether the grammar is "plain"
\* (reduced and free of shift/reduce conflicts: then LALR has the valid-prefix property w.r.t. the language)
Prepare ==
  /\ ii = -1 /\ ii' = 0
  /\ LET c == Cases[tid]
         red == Reduced(c.rules, c.start)
         l == IF red THEN PropLookaheads(c.rules, c.start) ELSE DPLookaheads(c.rules, c.start)
     IN /\ las' = l
        /\ plain' = (red /\ SRConflicts(c.rules, c.start, l) = {})
  /\ UNCHANGED <<tid, verdict>>

Judge ==
  /\ ii >= 0 /\ ii < Len(Cases[tid].inputs)
  /\ ii' = ii + 1
  /\ LET c == Cases[tid]
         inp == c.inputs[ii + 1]
         fb == FirstBad(c.rules, c.start, inp.toks)
         prefix == IF fb = 0 THEN inp.toks ELSE SubSeq(inp.toks, 1, fb - 1)
         nxt == NextTerminals(c.rules, c.start, prefix)
         v == FirstBadObs(c, inp, fb, nxt, InLang(c.rules, c.start, inp.toks), las, plain, 1)
     IN verdict' = Verdict(tid, ii + 1, v = "ok", v, fb)
  /\ UNCHANGED <<tid, las, plain>>

Next == Prepare \/ Judge
Spec == Init /\ [][Next]_vars
VerdictOk == verdict = "ok"
=============================================================================
