------------------------------ MODULE Serialize -----------------------------
(***************************************************************************)
(* lark/utils.py Serialize / SerializeMemoizer over an object graph.       *)
(* objs : id -> [cls, val, refs]   (refs: sequence of ids; the graph is a   *)
(* DAG: a rule is referenced from ParserConf.rules, from the parse table   *)
(* and from the callbacks' keys; a terminal from the lexer conf and memo). *)
(* Classes in Memoized (Rule, TerminalDef) are written once into the memo, *)
(* keyed by EQUALITY (__eq__/__hash__: class, val and the equality of what *)
(* they reference), and referenced by index; all other objects are written *)
(* inline, once per reference.  L0: what can be observed of the restored   *)
(* graph - its unfolding from the root - equals the unfolding of the       *)
(* original.                                                               *)
(***************************************************************************)
EXTENDS Integers, Sequences, FiniteSets

RECURSIVE Unfold(_, _)
Unfold(objs, id) == <<objs[id].cls, objs[id].val, [i \in DOMAIN objs[id].refs |-> Unfold(objs, objs[id].refs[i])]>>

\* serialize: memoized objects become <<"@", key>> where key is their unfolding (equality), others are inlined
RECURSIVE Ser(_, _, _)
Ser(objs, Memoized, id) ==
  IF objs[id].cls \in Memoized THEN <<"@", Unfold(objs, id)>>
  ELSE <<objs[id].cls, objs[id].val, [i \in DOMAIN objs[id].refs |-> Ser(objs, Memoized, objs[id].refs[i])]>>
\* the memo: one entry per distinct key reachable from the root
RECURSIVE Reach(_, _)
Reach(objs, id) == {id} \cup UNION {Reach(objs, objs[id].refs[i]) : i \in DOMAIN objs[id].refs}
Memo(objs, Memoized, root) == {Unfold(objs, x) : x \in {y \in Reach(objs, root) : objs[y].cls \in Memoized}}

\* deserialize = replace references by the memo entries; restored unfolding
RECURSIVE Deser(_)
Deser(s) == IF s[1] = "@" THEN s[2] ELSE <<s[1], s[2], [i \in DOMAIN s[3] |-> Deser(s[3][i])]>>

RoundTrip(objs, Memoized, root) == Deser(Ser(objs, Memoized, root)) = Unfold(objs, root)
\* sharing after restoring: two references that were equal (by key) become the SAME object; the number of restored
\* memoized objects is the number of distinct keys
RestoredShared(objs, Memoized, root) ==
  Cardinality(Memo(objs, Memoized, root)) <= Cardinality({y \in Reach(objs, root) : objs[y].cls \in Memoized})
=============================================================================
