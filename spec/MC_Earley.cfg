SPECIFICATION Spec
CONSTANTS
  MaxRules = 2
  MaxLen = 3
  MaxRhs = 2
  PopAny = TRUE
INVARIANT AcceptIffInLang
INVARIANT ColumnIsClosure
INVARIANT ItemsSound
INVARIANT Partition
PROPERTY Terminates
CHECK_DEADLOCK FALSE
