----------------------------- MODULE TraceForest ----------------------------
(* C20 code -> spec (drift level): the packed forest the real Earley parser returned with ambiguity='forest' - every family
   reachable from the root, nodes by their labels - against the forest the machine of EarleyForest.tla builds for the same
   compiled rules and tokens, restricted to what the root reaches.
   case: rules Seq([lhs, rhs]), w Seq(terminal), fams Seq(<<node, rule, left, right>>), node = <<kind, <<name, rule, dot>>, start, end>> *)
EXTENDS EarleyForest, TraceBase
VARIABLES tid, verdict
RECURSIVE ReachF(_, _)
ReachF(F, S) ==
  LET fs == {f \in F : f[1] \in S}
      S2 == S \cup {f[3] : f \in fs} \cup {f[4] : f \in fs}
  IN IF S2 = S THEN fs ELSE ReachF(F, S2)
Init == tid \in 1..NCases /\ verdict = "start"
Next ==
  /\ verdict = "start"
  /\ LET c == Cases[tid]
         got == {<<c.fams[i][1], c.fams[i][2], c.fams[i][3], c.fams[i][4]>> : i \in DOMAIN c.fams}
         res == FRun(c.rules, "start", c.w)
         want == ReachF(res[2], {Root("start", c.w)})
         v == IF ~res[1] THEN "machine-rejects-what-the-parser-accepted"
              ELSE IF got = want THEN "ok"
              ELSE IF got \subseteq want THEN "forest-lacks-a-family-of-the-machine"
              ELSE IF want \subseteq got THEN "forest-has-a-family-the-machine-does-not-build"
              ELSE "forest-families-differ"
     IN verdict' = Verdict(tid, 1, v = "ok", v, Cardinality(got))
  /\ UNCHANGED tid
Spec == Init /\ [][Next]_<<tid, verdict>>
VerdictOk == verdict \in {"ok", "start"}
=============================================================================
