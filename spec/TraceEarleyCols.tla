-------------------------- MODULE TraceEarleyCols --------------------------
(***************************************************************************)
(* C01 code -> spec, chart level (L1 binding).                             *)
(* A case is the *compiled* rule list of a real Lark instance, a token     *)
(* string, and what the wrapped predict_and_complete left behind after     *)
(* each call: the column and the scan buffer as sets of <<rule,dot,origin>>*)
(* Step k re-runs the machine of Earley.tla from its own previous state    *)
(* and compares; the last step compares the outcome.  A mismatch here is   *)
(* "drift" (the code no longer follows the machine), not yet a violation.  *)
(***************************************************************************)
EXTENDS Earley, TraceBase

VARIABLES tid, k, st, verdict
vars == <<tid, k, st, verdict>>

Items(seq) == {<<seq[x][1], seq[x][2], seq[x][3]>> : x \in DOMAIN seq}

Init ==
  /\ tid \in 1..NCases
  /\ k = 0
  /\ st = InitState(Cases[tid].rules, Cases[tid].start)
  /\ verdict = "ok"

\* event k+1 = column k (0-based position k)
Next ==
  LET c == Cases[tid]
      n == Len(c.w)
  IN
  /\ verdict = "ok"
  /\ k <= n /\ k < Len(c.cols)
  /\ LET s1 == RunColumn(c.rules, st)
         logged == c.cols[k + 1]
         colOk == s1.col = Items(logged[1])
         scanOk == s1.toScan = Items(logged[2])
         last == (k = n) \/ ScanFails(c.rules, s1, c.w[k + 1])
         specOut == IF k = n THEN (IF Solutions(c.rules, c.start, s1) # {} THEN "accept" ELSE "eof")
                    ELSE IF ScanFails(c.rules, s1, c.w[k + 1]) THEN "token" ELSE "run"
         outOk == IF last THEN (c.out = specOut /\ Len(c.cols) = k + 1) ELSE Len(c.cols) > k + 1
     IN /\ verdict' = IF ~colOk THEN Verdict(tid, k + 1, FALSE, "column-differs", k)
                      ELSE IF ~scanOk THEN Verdict(tid, k + 1, FALSE, "scanbuffer-differs", k)
                      ELSE IF ~outOk THEN Verdict(tid, k + 1, FALSE, "outcome-differs", specOut)
                      ELSE "ok"
        /\ st' = IF last THEN s1 ELSE ScanTok(c.rules, s1, c.w[k + 1])
        /\ k' = IF last THEN n + 1 ELSE k + 1
  /\ UNCHANGED tid

Spec == Init /\ [][Next]_vars
VerdictOk == verdict = "ok"
=============================================================================
