----------------------------- MODULE TraceBase -----------------------------
(***************************************************************************)
(* Common part of all batch trace validators.                              *)
(* A batch is a JSON file {cases: [...]} named by the environment variable *)
(* VERIF_BATCH.  One TLC behaviour = one case (tid chosen in Init), one    *)
(* step = one recorded event/observation of that case, judged by the       *)
(* specification; `verdict` names the failing clause.  TLC runs with       *)
(* -continue, so one run judges the whole batch and every failing case is  *)
(* printed as  VERDICT|tid|step|clause|detail .                            *)
(***************************************************************************)
EXTENDS Naturals, Sequences, FiniteSets, TLC, Json, IOUtils

Batch == JsonDeserialize(IOEnv.VERIF_BATCH)
Cases == Batch.cases
NCases == Len(Cases)

RangeOf(f) == {f[x] : x \in DOMAIN f}
\* JSON arrays of arrays -> sets of tuples
AsSet(seq) == {seq[x] : x \in DOMAIN seq}

Report(tid, k, clause, detail) ==
  PrintT("VERDICT|" \o ToString(tid) \o "|" \o ToString(k) \o "|" \o clause \o "|" \o ToString(detail))

\* returns the verdict string; prints when not ok
Verdict(tid, k, ok, clause, detail) ==
  IF ok THEN "ok" ELSE IF Report(tid, k, clause, detail) THEN clause ELSE clause
=============================================================================
