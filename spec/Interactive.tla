----------------------------- MODULE Interactive ----------------------------
(***************************************************************************)
(* InteractiveParser / ImmutableInteractiveParser handles over a heap.     *)
(*                                                                         *)
(* The part of the parser state that matters for independence of forks is  *)
(* the value stack: it holds references to child lists, and the LALR child *)
(* filter extends the list of an inlined left-recursive rule IN PLACE      *)
(* (parse_tree_builder.ChildFilterLALR).  The model keeps, per handle, a   *)
(* reference to one such list object; feeding a token appends to the       *)
(* object in place.  ParserState.copy(deepcopy_values) either copies the   *)
(* object (deep) or shares the reference (shallow).                        *)
(*                                                                         *)
(* L0: the content a handle sees is exactly its own token history          *)
(*     (= what a fresh parser fed that history holds).                     *)
(* The behaviours of this module (variable ops) are exported and replayed  *)
(* on real parsers; hist[h] tells the replay which history each real fork  *)
(* must be equivalent to.                                                  *)
(***************************************************************************)
EXTENDS Integers, Sequences, FiniteSets, TLC, Json

CONSTANTS MaxHandles, MaxOps, Toks,
          DeepCopy,          \* copy()/as_immutable()/ImmutableInteractiveParser.feed_token deep-copy the value stack (the code: TRUE)
          AcceptsMutates     \* accepts() feeds on a shallow copy WITH tree-building callbacks (the code: FALSE, callbacks = {})

VARIABLES hist,   \* handle -> token history           (domain = live handles)
          imm,    \* handle -> is an ImmutableInteractiveParser
          ref,    \* handle -> heap reference
          heap,   \* reference -> sequence of tokens (the list object)
          ops     \* the behaviour so far, for export
vars == <<hist, imm, ref, heap, ops>>

Handles == DOMAIN hist
NewH == Cardinality(Handles) + 1
NewRef == Cardinality(DOMAIN heap) + 1
Ext(f, k, v) == [x \in DOMAIN f \cup {k} |-> IF x = k THEN v ELSE f[x]]

Init == /\ hist = [h \in {1} |-> <<>>] /\ imm = [h \in {1} |-> FALSE]
        /\ ref = [h \in {1} |-> 1] /\ heap = [r \in {1} |-> <<>>] /\ ops = <<>>

Room == Len(ops) < MaxOps
CanFork == Cardinality(Handles) < MaxHandles

\* fork h into a new handle (copy semantics per DeepCopy)
Fork(h, isImm, opname) ==
  /\ Room /\ CanFork
  /\ hist' = Ext(hist, NewH, hist[h]) /\ imm' = Ext(imm, NewH, isImm)
  /\ IF DeepCopy THEN ref' = Ext(ref, NewH, NewRef) /\ heap' = Ext(heap, NewRef, heap[ref[h]])
     ELSE ref' = Ext(ref, NewH, ref[h]) /\ UNCHANGED heap
  /\ ops' = Append(ops, [op |-> opname, h |-> h, t |-> "", new |-> NewH])

Feed(h, t) ==            \* InteractiveParser.feed_token: in place
  /\ Room /\ ~imm[h]
  /\ hist' = [hist EXCEPT ![h] = Append(@, t)]
  /\ heap' = [heap EXCEPT ![ref[h]] = Append(@, t)]
  /\ ops' = Append(ops, [op |-> "feed", h |-> h, t |-> t, new |-> 0])
  /\ UNCHANGED <<imm, ref>>

ImmFeed(h, t) ==         \* ImmutableInteractiveParser.feed_token: c = copy(self); feed c; return c
  /\ Room /\ CanFork /\ imm[h]
  /\ hist' = Ext(hist, NewH, Append(hist[h], t)) /\ imm' = Ext(imm, NewH, TRUE)
  /\ IF DeepCopy THEN ref' = Ext(ref, NewH, NewRef) /\ heap' = Ext(heap, NewRef, Append(heap[ref[h]], t))
     ELSE ref' = Ext(ref, NewH, ref[h]) /\ heap' = [heap EXCEPT ![ref[h]] = Append(@, t)]
  /\ ops' = Append(ops, [op |-> "immfeed", h |-> h, t |-> t, new |-> NewH])

Copy(h) == ~imm[h] /\ Fork(h, FALSE, "copy")
AsImmutable(h) == ~imm[h] /\ Fork(h, TRUE, "as_immutable")
AsMutable(h) == imm[h] /\ Fork(h, FALSE, "as_mutable")

Accepts(h) ==            \* trial feeding on copy(deepcopy_values=False)
  /\ Room
  /\ IF AcceptsMutates THEN \E t \in Toks : heap' = [heap EXCEPT ![ref[h]] = Append(@, t)] ELSE UNCHANGED heap
  /\ ops' = Append(ops, [op |-> "accepts", h |-> h, t |-> "", new |-> 0])
  /\ UNCHANGED <<hist, imm, ref>>

Next == \E h \in Handles : \/ \E t \in Toks : Feed(h, t) \/ ImmFeed(h, t)
                           \/ Copy(h) \/ AsImmutable(h) \/ AsMutable(h) \/ Accepts(h)
Spec == Init /\ [][Next]_vars

\* L0: every live handle sees exactly its own history
OwnHistory == \A h \in Handles : heap[ref[h]] = hist[h]
\* no list object is reachable from two handles
NoSharing == \A a, b \in Handles : a # b => ref[a] # ref[b]

\* export: every complete behaviour (MaxOps operations) with the histories the handles must have
Export == Len(ops) = MaxOps => PrintT("OUT|" \o ToJson([ops |-> ops, hist |-> [h \in Handles |-> hist[h]]]))
=============================================================================
