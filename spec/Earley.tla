------------------------------ MODULE Earley ------------------------------
(***************************************************************************)
(* L1 - lark/parsers/earley.py as a machine.                               *)
(*                                                                         *)
(* Items are <<rule index, dot, origin>>.  As in the code, an item that    *)
(* expects a *terminal* lives only in the scan buffer (to_scan, Scott's Q),*)
(* every other item lives in the column (E_i).  predict_and_complete is a  *)
(* worklist over the column: one popped item = one step (StepItem).        *)
(* The code pops LIFO from a deque; the machine lets any item be popped,   *)
(* which contains the LIFO order (TLC then shows that the result does not  *)
(* depend on the order).  "held" is held_completions (Scott's H).          *)
(*                                                                         *)
(* The Joop-Leo branch (`if item.rule.origin in transitives[item.start]`)  *)
(* is vestigial in the pinned tree - the transitives dicts are never       *)
(* filled - and is therefore not an action of the machine.                 *)
(***************************************************************************)
EXTENDS CFG

Lhs(rules, it) == rules[it[1]].lhs
Rhs(rules, it) == rules[it[1]].rhs
IsComplete(rules, it) == it[2] = Len(Rhs(rules, it))
Expect(rules, it) == Rhs(rules, it)[it[2] + 1]          \* only when ~IsComplete
Advance(it) == <<it[1], it[2] + 1, it[3]>>
\* TERMINALS in the code: symbols that are terminals in some expansion
ExpectsTerm(rules, it) == ~IsComplete(rules, it) /\ ~IsNT(rules, Expect(rules, it))
ExpectsNT(rules, it) == ~IsComplete(rules, it) /\ IsNT(rules, Expect(rules, it))

\* GrammarAnalyzer.expand_rule: rules reachable through left corners
RECURSIVE PredLfp(_, _)
PredLfp(rules, R) ==
  LET firstNTs == {rules[r].rhs[1] : r \in {q \in R : Len(rules[q].rhs) > 0 /\ IsNT(rules, rules[q].rhs[1])}}
      R2 == R \cup {r \in DOMAIN rules : rules[r].lhs \in firstNTs}
  IN IF R2 = R THEN R ELSE PredLfp(rules, R2)
Predictions(rules, A) == PredLfp(rules, {r \in DOMAIN rules : rules[r].lhs = A})

\* distribute freshly created items: terminal-expecting ones to the scan buffer, the
\* others to the column and the worklist unless already in the column
AddItems(rules, st, new) ==
  LET toQ == {it \in new : ExpectsTerm(rules, it)}
      toE == {it \in new : ~ExpectsTerm(rules, it) /\ it \notin st.col}
  IN [st EXCEPT !.toScan = @ \cup toQ, !.col = @ \cup toE, !.work = @ \cup toE]

\* one iteration of the `while items:` loop for the popped item `it`
StepItem(rules, st, it) ==
  LET s0 == [st EXCEPT !.work = @ \ {it}] IN
  IF IsComplete(rules, it) THEN
    LET A == Lhs(rules, it)
        s1 == IF it[3] = s0.i THEN [s0 EXCEPT !.held = @ \cup {A}] ELSE s0
        \* columns[item.start]: the live column when item.start = i
        origCol == IF it[3] = s0.i THEN s0.col ELSE s0.cols[it[3] + 1]
        originators == {o \in origCol : ~IsComplete(rules, o) /\ Expect(rules, o) = A}
    IN AddItems(rules, s1, {Advance(o) : o \in originators})
  ELSE IF ExpectsNT(rules, it) THEN
    LET B == Expect(rules, it)
        pred == {<<r, 0, s0.i>> : r \in Predictions(rules, B)}
        heldAdv == IF B \in s0.held THEN {Advance(it)} ELSE {}
    IN AddItems(rules, s0, pred \cup heldAdv)
  ELSE s0   \* cannot happen: terminal-expecting items are never in the column

\* Parser.parse: initial prediction for the start symbol
InitState(rules, start) ==
  LET its == {<<r, 0, 0>> : r \in Predictions(rules, start)}
      E0 == {it \in its : ~ExpectsTerm(rules, it)}
  IN [cols |-> <<>>, col |-> E0, work |-> E0, toScan |-> its \ E0, held |-> {}, i |-> 0]

\* the basic-lexer scanner for one token of type `tok` (term_matcher = equality of names)
\* closes the current column, opens the next one
ScanTok(rules, st, tok) ==
  LET adv == {Advance(it) : it \in {q \in st.toScan : Expect(rules, q) = tok}}
      nextE == {it \in adv : ~ExpectsTerm(rules, it)}
  IN [cols |-> Append(st.cols, st.col), col |-> nextE, work |-> nextE,
      toScan |-> adv \ nextE, held |-> {}, i |-> st.i + 1]
ScanFails(rules, st, tok) == \A q \in st.toScan : Expect(rules, q) # tok

\* acceptance test of Parser.parse on the final column
Solutions(rules, start, st) ==
  {it \in st.col : IsComplete(rules, it) /\ Lhs(rules, it) = start /\ it[3] = 0}

ExpectedTerms(rules, st) == {Expect(rules, q) : q \in st.toScan}

\* deterministic big step (used by trace validation): run the worklist to exhaustion
RECURSIVE RunColumn(_, _)
RunColumn(rules, st) ==
  IF st.work = {} THEN st
  ELSE RunColumn(rules, StepItem(rules, st, CHOOSE it \in st.work : TRUE))

\* whole recognizer, big-step; result: <<"accept">> | <<"token", k, expected>> | <<"eof", expected>>
RECURSIVE RunFrom(_, _, _, _, _)
RunFrom(rules, start, w, k, st) ==
  LET s1 == RunColumn(rules, st) IN
  IF k > Len(w) THEN
     IF Solutions(rules, start, s1) # {} THEN <<"accept">> ELSE <<"eof", ExpectedTerms(rules, s1)>>
  ELSE IF ScanFails(rules, s1, w[k]) THEN <<"token", k, ExpectedTerms(rules, s1)>>
  ELSE RunFrom(rules, start, w, k + 1, ScanTok(rules, s1, w[k]))
Run(rules, start, w) == RunFrom(rules, start, w, 1, InitState(rules, start))

(***************************************************************************)
(* The textbook closure of a column, for comparison (L0-side):             *)
(* least set containing the kernel, closed under prediction and completion *)
(***************************************************************************)
RECURSIVE CloseLfp(_, _, _, _)
CloseLfp(rules, cols, i, S) ==
  LET colAt(o) == IF o = i THEN S ELSE cols[o + 1]
      pred == UNION { {<<r, 0, i>> : r \in {q \in DOMAIN rules : rules[q].lhs = Expect(rules, it)}}
                      : it \in {q \in S : ExpectsNT(rules, q)} }
      comp == UNION { {Advance(o) : o \in {q \in colAt(it[3]) :
                                             ~IsComplete(rules, q) /\ Expect(rules, q) = Lhs(rules, it)}}
                      : it \in {q \in S : IsComplete(rules, q)} }
      S2 == S \cup pred \cup comp
  IN IF S2 = S THEN S ELSE CloseLfp(rules, cols, i, S2)
\* cols here are *full* sets (column \cup scan buffer) of the earlier positions
IdealClose(rules, fullCols, i, kernel) == CloseLfp(rules, fullCols, i, kernel)

=============================================================================
