------------------------------- MODULE CFG -------------------------------
(***************************************************************************)
(* L0 - declarative definitions for context-free grammars.                 *)
(*                                                                         *)
(* A grammar is a sequence of rules; a rule is a record with at least      *)
(*   lhs : STRING          the non-terminal it defines                     *)
(*   rhs : Seq(STRING)     its expansion (possibly empty)                  *)
(* A symbol is a non-terminal iff it is the lhs of some rule.              *)
(* The input is either a sequence of terminal names (token level) or is    *)
(* given as a set of *base spans* <<terminal, i, j>> over character         *)
(* positions 0..n (character level, spans supplied by the regex oracle).   *)
(*                                                                         *)
(* Nothing here follows lark's algorithms: the language is the least       *)
(* fixpoint of the derivation relation on spans, derivations are the       *)
(* trees of that relation.                                                 *)
(***************************************************************************)
EXTENDS Naturals, Sequences, FiniteSets

Range(f) == {f[x] : x \in DOMAIN f}

NTs(rules) == {rules[r].lhs : r \in DOMAIN rules}
IsNT(rules, s) == s \in NTs(rules)
SymbolsOf(rules) == NTs(rules) \cup UNION {Range(rules[r].rhs) : r \in DOMAIN rules}
TermsOf(rules) == SymbolsOf(rules) \ NTs(rules)

(***************************************************************************)
(* Spans.  A span <<X,i,j>> says "X derives input[i..j)".                  *)
(***************************************************************************)
TokenSpans(w) == {<<w[p], p - 1, p>> : p \in 1..Len(w)}

\* positions reachable from the set P by matching rhs[k..] using the spans S
RECURSIVE EndsFrom(_, _, _, _)
EndsFrom(rhs, k, P, S) ==
  IF k > Len(rhs) \/ P = {} THEN P
  ELSE EndsFrom(rhs, k + 1, {sp[3] : sp \in {s \in S : s[1] = rhs[k] /\ s[2] \in P}}, S)

SpanStep(rules, n, S) ==
  S \cup UNION { {<<rules[ri[1]].lhs, ri[2], j>> : j \in EndsFrom(rules[ri[1]].rhs, 1, {ri[2]}, S)}
                 : ri \in (DOMAIN rules) \X (0..n) }

RECURSIVE SpanLfp(_, _, _)
SpanLfp(rules, n, S) ==
  LET S2 == SpanStep(rules, n, S) IN IF S2 = S THEN S ELSE SpanLfp(rules, n, S2)

\* All derivable spans, from base (terminal) spans over positions 0..n
DerFrom(rules, n, base) == SpanLfp(rules, n, base)
Der(rules, w) == DerFrom(rules, Len(w), TokenSpans(w))
InLang(rules, start, w) == <<start, 0, Len(w)>> \in Der(rules, w)

(***************************************************************************)
(* Character-level language with ignored terminals.                        *)
(*   tspans : set of <<t,i,j>>   t matches text[i..j)                       *)
(*   ig     : set of <<i,j>>     some ignored terminal matches text[i..j)   *)
(* A sentence is  ig* t1 ig* t2 ... tk ig*  with t1..tk in the token-level *)
(* language.  Each ig* run is attached to the token that follows it, the   *)
(* last one is checked at the end.                                         *)
(***************************************************************************)
RECURSIVE SkipClose(_, _)
SkipClose(P, ig) ==
  LET P2 == P \cup {g[2] : g \in {h \in ig : h[1] \in P /\ h[2] > h[1]}}
  IN IF P2 = P THEN P ELSE SkipClose(P2, ig)

LedSpans(tspans, ig, n) ==
  UNION { {<<sp[1], i, sp[3]>> : sp \in {s \in tspans : s[2] \in SkipClose({i}, ig)}} : i \in 0..n }

CharDer(rules, n, tspans, ig) == DerFrom(rules, n, LedSpans(tspans, ig, n))

CharInLang(rules, start, n, tspans, ig) ==
  LET D == CharDer(rules, n, tspans, ig)
  IN \E j \in 0..n : <<start, 0, j>> \in D /\ n \in SkipClose({j}, ig)

(***************************************************************************)
(* Classical grammar predicates (token level).                             *)
(***************************************************************************)
RECURSIVE NullableLfp(_, _)
NullableLfp(rules, N) ==
  LET N2 == N \cup {rules[r].lhs : r \in {q \in DOMAIN rules : Range(rules[q].rhs) \subseteq N}}
  IN IF N2 = N THEN N ELSE NullableLfp(rules, N2)
Nullable(rules) == NullableLfp(rules, {})

RECURSIVE ProductiveLfp(_, _)
ProductiveLfp(rules, P) ==
  LET P2 == P \cup {rules[r].lhs : r \in {q \in DOMAIN rules : Range(rules[q].rhs) \subseteq P}}
  IN IF P2 = P THEN P ELSE ProductiveLfp(rules, P2)
\* symbols deriving some terminal string (terminals are productive)
Productive(rules) == ProductiveLfp(rules, TermsOf(rules))

RECURSIVE ReachLfp(_, _)
ReachLfp(rules, R) ==
  LET R2 == R \cup UNION {Range(rules[r].rhs) : r \in {q \in DOMAIN rules : rules[q].lhs \in R}}
  IN IF R2 = R THEN R ELSE ReachLfp(rules, R2)
Reachable(rules, start) == ReachLfp(rules, {start})

\* every non-terminal productive and reachable from start
Reduced(rules, start) ==
  /\ NTs(rules) \subseteq Productive(rules)
  /\ NTs(rules) \subseteq Reachable(rules, start)

\* FIRST sets as a function sym -> set of terminals
RECURSIVE FirstLfp(_, _, _)
FirstLfp(rules, nul, F) ==
  LET F2 == [s \in DOMAIN F |->
               F[s] \cup UNION { UNION { F[rules[r].rhs[k]] :
                                          k \in {m \in 1..Len(rules[r].rhs) :
                                                  \A q \in 1..(m-1) : rules[r].rhs[q] \in nul} }
                                  : r \in {q \in DOMAIN rules : rules[q].lhs = s} } ]
  IN IF F2 = F THEN F ELSE FirstLfp(rules, nul, F2)
First(rules) ==
  LET syms == SymbolsOf(rules)
      nts == NTs(rules)
  IN FirstLfp(rules, Nullable(rules), [s \in syms |-> IF s \in nts THEN {} ELSE {s}])

\* A ==>+ A for some non-terminal (unit/epsilon cycles): infinitely many derivations possible
UnitReach1(rules) ==
  LET nul == Nullable(rules) IN
  UNION { {<<rules[r].lhs, rules[r].rhs[k]>> :
             k \in {m \in 1..Len(rules[r].rhs) :
                     /\ rules[r].rhs[m] \in NTs(rules)
                     /\ \A q \in (1..Len(rules[r].rhs)) \ {m} : rules[r].rhs[q] \in nul}}
          : r \in DOMAIN rules }

RECURSIVE TransClose(_)
TransClose(R) ==
  LET R2 == R \cup {<<a[1], b[2]>> : <<a, b>> \in {ab \in R \X R : ab[1][2] = ab[2][1]}}
  IN IF R2 = R THEN R ELSE TransClose(R2)

DerivCyclic(rules) == \E p \in TransClose(UnitReach1(rules)) : p[1] = p[2]

(***************************************************************************)
(* Derivation trees (for grammars that are not DerivCyclic).               *)
(*   token leaf : <<"t", terminal, i, j>>                                   *)
(*   node       : <<"n", rule index, <<children>>>>                         *)
(* D is the set of derivable spans (prunes the search).                    *)
(***************************************************************************)
RECURSIVE TreesOf(_, _, _, _, _), SeqTrees(_, _, _, _, _, _)
TreesOf(rules, D, X, i, j) ==
  IF <<X, i, j>> \notin D THEN {}
  ELSE IF ~IsNT(rules, X) THEN {<<"t", X, i, j>>}
  ELSE UNION { {<<"n", r, cs>> : cs \in SeqTrees(rules, D, rules[r].rhs, 1, i, j)}
               : r \in {q \in DOMAIN rules : rules[q].lhs = X} }

\* all child lists for rhs[k..] spanning exactly i..j
SeqTrees(rules, D, rhs, k, i, j) ==
  IF k > Len(rhs) THEN (IF i = j THEN {<<>>} ELSE {})
  ELSE UNION { {<<t>> \o rest : t \in TreesOf(rules, D, rhs[k], i, m),
                                 rest \in SeqTrees(rules, D, rhs, k + 1, m, j)}
               : m \in {q \in i..j : <<rhs[k], i, q>> \in D /\ j \in EndsFrom(rhs, k + 1, {q}, D)} }     \* (the rest must fit: left recursion)

Derivs(rules, start, w) == TreesOf(rules, Der(rules, w), start, 0, Len(w))

(***************************************************************************)
(* Viable prefixes (token level), for error positions.                     *)
(* A prefix u is viable iff some sentence starts with u.  Computed on the  *)
(* productive part: Earley items over the productive sub-grammar have the  *)
(* valid-prefix property, so "the Earley set after u is non-empty" is      *)
(* equivalent to viability.  Defined declaratively here through spans with *)
(* an open right end:  <<X,i>> in Open  iff  X =>* u[i..) v  for some v.   *)
(***************************************************************************)
ProdRules(rules) ==
  LET P == Productive(rules) IN SelectSeq(rules, LAMBDA r : Range(r.rhs) \subseteq P)

\* X can start at i and run over the end of the prefix (consuming u[i..n) entirely and more)
RECURSIVE OpenLfp(_, _, _, _)
OpenLfp(rules, n, D, O) ==
  LET O2 == O \cup
        UNION { {<<rules[ri[1]].lhs, ri[2]>> :
                   k \in {m \in 1..Len(rules[ri[1]].rhs) :
                           \E p \in EndsFrom(SubSeq(rules[ri[1]].rhs, 1, m - 1), 1, {ri[2]}, D) :
                              <<rules[ri[1]].rhs[m], p>> \in O}}
                : ri \in (DOMAIN rules) \X (0..n) }
  IN IF O2 = O THEN O ELSE OpenLfp(rules, n, D, O2)

\* every (productive) symbol is open at position n (it derives some string)
Viable(rules, start, u) ==
  LET pr == ProdRules(rules)
      n == Len(u)
      D == Der(pr, u)
      base == {<<X, n>> : X \in SymbolsOf(pr)}
  IN start \in NTs(pr) /\ (<<start, 0, n>> \in D \/ <<start, 0>> \in OpenLfp(pr, n, D, base))

\* terminals t such that u \o <<t>> is viable
NextTerminals(rules, start, u) ==
  {t \in TermsOf(rules) : Viable(rules, start, u \o <<t>>)}

=============================================================================
