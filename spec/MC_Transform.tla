----------------------------- MODULE MC_Transform ---------------------------
(* all ordered trees with <= MaxNodes nodes: each of the four traversal machines returns the fold and runs every
   callback exactly once, children before parents *)
EXTENDS Transform, TLC
CONSTANT MaxNodes
\* trees as parent vectors in preorder: node k>1 has parent p[k] < k such that the numbering is a valid preorder
IsPreorder(p, n) == \A k \in 2..n : p[k] < k /\ \A j \in (p[k] + 1)..(k - 1) : p[j] >= p[k]
Shapes == UNION { {p \in [1..n -> 0..n] : p[1] = 0 /\ (\A k \in 2..n : p[k] >= 1) /\ IsPreorder(p, n)} : n \in 1..MaxNodes }
RECURSIVE Build(_, _)
Build(p, k) == <<k, LET ks == {c \in DOMAIN p : p[c] = k}
                    IN [i \in 1..Cardinality(ks) |-> Build(p, CHOOSE c \in ks : Cardinality({d \in ks : d < c}) = i - 1)]>>
VARIABLE p
Init == p \in Shapes
Next == UNCHANGED p
Spec == Init /\ [][Next]_p
T == Build(p, 1)
AllFold == /\ Recursive(T)[1] = Fold(T) /\ NonRecursive(T)[1] = Fold(T) /\ InPlace(T)[1] = Fold(T)
AllGoodLogs == GoodLog(T, Recursive(T)[2]) /\ GoodLog(T, NonRecursive(T)[2]) /\ GoodLog(T, InPlace(T)[2])
SameOrderRecNonRec == Recursive(T)[2] = NonRecursive(T)[2]
=============================================================================
