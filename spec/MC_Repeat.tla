----------------------------- MODULE MC_Repeat -----------------------------
EXTENDS Repeat, TLC
CONSTANT B
VARIABLES mn, mx
Init == mn \in 0..B /\ mx \in mn..B
Next == UNCHANGED <<mn, mx>>
Spec == Init /\ [][Next]_<<mn, mx>>
FactorsRefold == Refold(SmallFactors(mx), 1, 1) = mx /\ \A q \in DOMAIN SmallFactors(mx) :
                   SmallFactors(mx)[q][1] + SmallFactors(mx)[q][2] <= SMALL
CountsExact == GenerateRepeats(mn, mx) = mn..mx
LoopInvariant == (mx >= BREAK /\ mx > mn) => OptIsPrefix(SmallFactors(mx - mn + 1), 1, 1, {0})
=============================================================================
