--------------------------- MODULE MC_LineCounter ---------------------------
(***************************************************************************)
(* Design-level check of the LineCounter machine (Lexer.tla Feed/LcAt):    *)
(* every text over {other, newline} up to MaxLen, every window start, every *)
(* split into consecutive tokens, every assignment of the "may contain a   *)
(* newline" flag (lark's newline_types) to the tokens.                     *)
(*  - if every token that contains a newline is flagged, the machine's     *)
(*    line/column after each token are Coord of its end (and of the start  *)
(*    of the next token);                                                  *)
(*  - if a token containing a newline is not flagged, they are not: the    *)
(*    property reduces exactly to the flag obligation  nlSem => nlCode.    *)
(***************************************************************************)
EXTENDS Lexer, TLC
CONSTANT MaxLen
VARIABLES text, a, cuts, flag
vars == <<text, a, cuts, flag>>
NLs == {p \in 0..(Len(text) - 1) : text[p + 1] = 1}
Init ==
  /\ text \in UNION {[1..m -> {0, 1}] : m \in 1..MaxLen}
  /\ a \in 0..(Len(text) - 1)
  /\ cuts \in SUBSET ((a + 1)..(Len(text) - 1))
  /\ flag \in [(cuts \cup {a}) -> BOOLEAN]
Next == UNCHANGED vars
Spec == Init /\ [][Next]_vars

Starts == cuts \cup {a}
EndOf(s) == LET later == {c \in cuts : c > s} IN
            IF later = {} THEN Len(text) ELSE CHOOSE c \in later : \A d \in later : c <= d
HasNL(s) == \E q \in NLs : q >= s /\ q < EndOf(s)

\* the machine run over the tokens in order; result: lc after the token starting at s
RECURSIVE After(_)
After(s) ==
  LET prev == {c \in Starts : c < s}
      lc0 == IF prev = {} THEN LcAt(NLs, a) ELSE After(CHOOSE c \in prev : \A d \in prev : d <= c)
  IN LcFeed(lc0, NLs, s, EndOf(s), flag[s])

CoordOk(s) == LET lc == After(s) IN lc.line = Line(NLs, EndOf(s)) /\ LcCol(lc) = Col(NLs, EndOf(s))

MachineIsCoordWhenFlagged ==
  (\A s \in Starts : HasNL(s) => flag[s]) => \A s \in Starts : CoordOk(s)
UnflaggedNewlineBreaksCoord ==
  \A s \in Starts : (HasNL(s) /\ ~flag[s] /\ \A r \in Starts : r < s => (HasNL(r) => flag[r])) => ~CoordOk(s)
=============================================================================
