------------------------------ MODULE MC_XEarley ----------------------------
(* the dynamic scanner machine accepts exactly the character-level language (longest matches for lexer='dynamic', all
   match lengths for 'dynamic_complete', ignored terminals included), on: all well-formed grammars of <= MaxRules rules
   over {s,a} x {X,Y}; X, Y overlapping multi-character languages over {1=a, 2=b}; ignored terminal none, {" "} or
   {" ", "  "} (3 = blank); every text up to MaxLen. *)
EXTENDS XEarley, FiniteSetsExt, SequencesExt, TLC
CONSTANTS MaxRules, MaxLen, IgnoreAllLengths
NT == {"s", "a"}
T == {"X", "Y"}
Syms == NT \cup T
Rhss == UNION {[1..m -> Syms] : m \in 0..2}
Cand == {[lhs |-> A, rhs |-> r] : A \in NT, r \in Rhss}
WellFormed(G) == (\E r \in G : r.lhs = "s") /\ \A r \in G : \A x \in Range(r.rhs) : x \in NT => \E q \in G : q.lhs = x
Grammars == {G \in UNION {kSubset(m, Cand) : m \in 1..MaxRules} : WellFormed(G)}
Texts == UNION {[1..m -> 1..3] : m \in 0..MaxLen}
LangSets == { [X |-> {<<1>>, <<1, 2>>}, Y |-> {<<2>>, <<2, 2>>}],          \* "a" | "ab"   and   "b" | "bb"  (overlap on b)
              [X |-> {<<1>>, <<1, 1>>}, Y |-> {<<1, 2>>, <<3, 2>>}] }      \* a+ (<=2)     and   "ab" | " b" (starts with a blank)
IgSets == { <<>>, <<{<<3>>}>>, <<{<<3>>, <<3, 3>>}>> }
VARIABLES rules, langs, ig, text, complete, res
vars == <<rules, langs, ig, text, complete, res>>
Init == /\ \E G \in Grammars : rules = SetToSeq(G)
        /\ langs \in LangSets /\ ig \in IgSets /\ text \in Texts /\ complete \in BOOLEAN /\ res = "todo"
Compute == /\ res = "todo"
       /\ res' = XRun(rules, "s", langs, ig, text, complete, complete /\ IgnoreAllLengths)[1]
       /\ UNCHANGED <<rules, langs, ig, text, complete>>
Next == Compute
Spec == Init /\ [][Next]_vars
AcceptIffCharInLang ==
  res # "todo" => ((res = "accept") <=> XExpected(rules, "s", langs, ig, text, complete))
=============================================================================
