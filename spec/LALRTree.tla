------------------------------ MODULE LALRTree ------------------------------
(***************************************************************************)
(* The LALR driver of LALR.tla with its VALUE stack: a shift pushes the    *)
(* token, a reduction pops the values of the rule's symbols and pushes     *)
(* what the rule's callback (TreeBuilder.Callback) returns - lark's        *)
(* ParserState.feed_token.  The result of a parse is the value left when   *)
(* the start rule is reduced on $END.                                      *)
(* g: compiled rules with both the CFG fields (lhs, rhs) and the builder   *)
(* options (Matcher.tla's record).                                         *)
(* L0: the value is the shaping (Matcher.Shape) of a derivation of the     *)
(*     input; for an unambiguous grammar, of THE derivation.               *)
(***************************************************************************)
EXTENDS LALR, Matcher

RECURSIVE FeedV(_, _, _, _, _, _, _, _)
\* <<"ok", stack, vals>> | <<"accept", value>> | <<"error">> | <<"loop">>
FeedV(g, start, las, stack, vals, t, pos, fuel) ==
  LET I == stack[Len(stack)]
      act == Action(g, start, las, I, t)
  IN IF act[1] = "E" THEN <<"error">>
     ELSE IF act[1] = "S" THEN <<"ok", Append(stack, act[2]), Append(vals, Tok(t, pos, pos + 1))>>
     ELSE IF fuel = 0 THEN <<"loop">>
     ELSE LET r == act[2]
              size == Len(g[r].rhs)
              base == SubSeq(stack, 1, Len(stack) - size)
              kids == SubSeq(vals, Len(vals) - size + 1, Len(vals))
              v == Callback(g[r], kids, FALSE)
              vals2 == Append(SubSeq(vals, 1, Len(vals) - size), v)
              J == Goto(g, start, base[Len(base)], g[r].lhs)
          IN IF t = END /\ J = EndState(g, start) THEN <<"accept", v>>
             ELSE FeedV(g, start, las, Append(base, J), vals2, t, pos, fuel - 1)
RECURSIVE RunV(_, _, _, _, _, _, _)
RunV(g, start, las, stack, vals, w, k) ==
  LET t == IF k > Len(w) THEN END ELSE w[k]
      r == FeedV(g, start, las, stack, vals, t, k - 1, Fuel)
  IN IF r[1] = "ok" THEN RunV(g, start, las, r[2], r[3], w, k + 1) ELSE r
ParseTree(g, start, las, w) == RunV(g, start, las, <<State0(g, start)>>, <<>>, w, 1)
=============================================================================
