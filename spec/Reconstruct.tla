------------------------------ MODULE Reconstruct ---------------------------
(***************************************************************************)
(* C19.  The class the Reconstructor supports, as a predicate over the     *)
(* parser's compiled rules, and the round-trip law.                        *)
(* rules : Seq([lhs, rhs: Seq([name, isterm, filtered, isstr])])           *)
(*   filtered : the symbol does not appear in the tree (filtered terminal) *)
(*   isstr    : a filtered terminal that is a string literal (or covered   *)
(*              by term_subs) - the reconstructor can write it             *)
(* Supported:  maybe_placeholders off, unambiguous (harness: LALR strict   *)
(* construction succeeds), no useless rules, every filtered terminal is    *)
(* writable, every alternative keeps at least one unfiltered symbol other  *)
(* than the rule itself.                                                   *)
(* Space insertion (L1 of reconstruct()): a blank goes between two items   *)
(* exactly when the LAST character of the previous one and the FIRST of    *)
(* the next are both identifier characters.                                *)
(***************************************************************************)
EXTENDS Integers, Sequences, FiniteSets
Rg(s) == {s[i] : i \in DOMAIN s}
NTsR(rules) == {rules[r].lhs : r \in DOMAIN rules}
RECURSIVE ReachR(_, _), ProdR(_, _)
ReachR(rules, S) ==
  LET S2 == S \cup UNION {{rules[r].rhs[i].name : i \in DOMAIN rules[r].rhs} : r \in {q \in DOMAIN rules : rules[q].lhs \in S}}
  IN IF S2 = S THEN S ELSE ReachR(rules, S2)
ProdR(rules, P) ==
  LET P2 == P \cup {rules[r].lhs : r \in {q \in DOMAIN rules : \A i \in DOMAIN rules[q].rhs : rules[q].rhs[i].isterm \/ rules[q].rhs[i].name \in P}}
  IN IF P2 = P THEN P ELSE ProdR(rules, P2)
NoUselessRules(rules, start) == NTsR(rules) \subseteq ReachR(rules, {start}) /\ NTsR(rules) \subseteq ProdR(rules, {})
FilteredWritable(rules) == \A r \in DOMAIN rules : \A i \in DOMAIN rules[r].rhs : rules[r].rhs[i].filtered => rules[r].rhs[i].isstr
KeepsSomething(rules) ==
  \A r \in DOMAIN rules : \E i \in DOMAIN rules[r].rhs : ~rules[r].rhs[i].filtered /\ rules[r].rhs[i].name # rules[r].lhs
\* written_ok: no useless rule in the grammar AS WRITTEN (lark silently prunes unused rules before compiling)
Supported(c) == ~c.ph /\ c.unambiguous /\ c.written_ok /\ NoUselessRules(c.rules, c.start) /\ FilteredWritable(c.rules) /\ KeepsSomething(c.rules)

\* Known gap of the tree matcher (known finding C19-expand1-inlined): a ?rule with an alternative whose symbols, once the
\* filtered terminals are taken out (tree_matcher builds its rules from what is visible in the tree), are one inlined
\* non-terminal (an EBNF repetition or a _rule) is treated as always collapsed; when it has several children the node
\* exists and cannot be matched.   ?z: NEG+    ?z: B+ "d"
Expand1OverInlined(c) ==
  \E r \in DOMAIN c.rules :
     /\ c.rules[r].expand1
     /\ LET kept == SelectSeq(c.rules[r].rhs, LAMBDA x : ~x.filtered) IN Len(kept) = 1 /\ kept[1].inlined

\* items: Seq([first, last] : is the first / last character an identifier character); where blanks go
Blanks(items) == {i \in 1..(Len(items) - 1) : items[i].last /\ items[i + 1].first}
=============================================================================
