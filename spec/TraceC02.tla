----------------------------- MODULE TraceC02 ------------------------------
(***************************************************************************)
(* C02 code -> spec.  A case is the compiled rule list of a real           *)
(* Lark(parser='lalr', debug=True) instance (or the GrammarError it        *)
(* raised), its parse table with states named by their item sets, and for  *)
(* a list of token strings: the outcome of parse() under both lexers and,  *)
(* from an InteractiveParser, after every consumed prefix the state stack, *)
(* choices() and accepts().                                                *)
(*                                                                         *)
(* Step 0 judges construction: GrammarError <=> unresolved reduce/reduce   *)
(* conflict, table = the L0 table (LR(1) propagation + lark's policy).     *)
(* On non-reduced grammars (reading of C02) the table is judged against    *)
(* the L1 DeRemer-Pennello transcription instead.                          *)
(* Step i judges input i: accept => sentence; no S/R conflict => accept    *)
(* <=> sentence; outcome and every intermediate stack = the spec driver;   *)
(* choices() = row of the state, accepts() = trial feeding in the spec.    *)
(***************************************************************************)
EXTENDS LALR, TraceBase

VARIABLES tid, ii, las, verdict
vars == <<tid, ii, las, verdict>>

ItemsOf(seq) == {<<seq[x][1], seq[x][2]>> : x \in DOMAIN seq}
StrSet(seq) == {seq[x] : x \in DOMAIN seq}

RealState(c, i) == ItemsOf(c.states[i])
\* real row i as a set of <<symbol, action>>
RealRow(c, i) ==
  {<<a[1], IF a[2] = 0 THEN <<"S", RealState(c, a[3])>> ELSE <<"R", a[3]>>>> : a \in AsSet(c.rows[i])}
SpecRow(c, l, I) == {<<X, Action(c.rules, c.start, l, I, X)>> : X \in Row(c.rules, c.start, l, I)}

JudgeConstruct(c, l) ==
  LET rr == RRConflicts(c.rules, c.start, l) # {} IN
  IF c.gerr # rr THEN (IF rr THEN "conflict-not-reported" ELSE "spurious-GrammarError")
  ELSE IF c.gerr THEN "ok"
  ELSE IF {RealState(c, i) : i \in DOMAIN c.states} # LR0States(c.rules, c.start) THEN "state-set-differs"
  ELSE IF \E i \in DOMAIN c.states : RealRow(c, i) # SpecRow(c, l, RealState(c, i)) THEN "table-row-differs"
  ELSE IF RealState(c, c.startstate) # State0(c.rules, c.start) THEN "start-state-differs"
  ELSE "ok"

\* interactive events: evs[p+1] = [stack idxs, choices, accepts] after p tokens
RECURSIVE JudgeEvents(_, _, _, _, _)
JudgeEvents(c, l, inp, p, stack) ==
  IF p + 1 > Len(inp.evs) THEN "ok"
  ELSE LET e == inp.evs[p + 1]
           realStack == [x \in DOMAIN e[1] |-> RealState(c, e[1][x])]
           top == stack[Len(stack)]
       IN IF realStack # stack THEN "stack-differs"
          ELSE IF StrSet(e[2]) # Row(c.rules, c.start, l, top) THEN "choices-differ"
          ELSE IF StrSet(e[3]) # SpecAccepts(c.rules, c.start, l, stack) THEN "accepts-differ"
          ELSE IF p + 1 > Len(inp.w) THEN "ok"
          ELSE LET r == Feed(c.rules, c.start, l, stack, inp.w[p + 1])
               IN IF r[1] = "ok" THEN JudgeEvents(c, l, inp, p + 1, r[2])
                  ELSE IF p + 2 > Len(inp.evs) THEN "ok" ELSE "consumed-after-spec-error"

JudgeInput(c, l, inp) ==
  LET r == ParseLR(c.rules, c.start, l, inp.w)
      sent == InLang(c.rules, c.start, inp.w)
      acc == inp.out = 0
      \* "conflict-free": no shift/reduce conflict and no reduce/reduce competition settled by priority (a resolved
      \* conflict necessarily drops the sentences that needed the losing reduction - reading of C02, DESIGN section 6)
      noSR == SRConflicts(c.rules, c.start, l) = {} /\ RRCompetitions(c.rules, c.start, l) = {}
  IN IF r[1] = "loop" THEN (IF inp.out = 0 THEN "accepted-where-automaton-loops"
                            ELSE "ok")   \* a hang on a non-sentence is C08's business
     ELSE IF inp.out > 1 THEN "not-UnexpectedInput-or-hang"
     ELSE IF acc /\ ~sent THEN "accepted-nonsentence"
     ELSE IF noSR /\ sent /\ ~acc THEN "rejected-sentence-of-conflict-free-grammar"
     ELSE IF acc # (r[1] = "accept") THEN "outcome-differs-from-automaton"
     ELSE IF ~acc /\ inp.errk # r[2] THEN "error-token-index-differs"
     ELSE IF inp.out2 # inp.out THEN "contextual-differs-from-basic"
     ELSE JudgeEvents(c, l, inp, 0, <<State0(c.rules, c.start)>>)

Init == tid \in 1..NCases /\ ii = 0 /\ las = {} /\ verdict = "ok"

Construct ==
  /\ ii = 0
  /\ LET c == Cases[tid]
         l == IF Reduced(c.rules, c.start) THEN PropLookaheads(c.rules, c.start)
              ELSE DPLookaheads(c.rules, c.start)
         v == JudgeConstruct(c, l)
     IN /\ las' = l
        /\ verdict' = Verdict(tid, 0, v = "ok", v, 0)
        /\ ii' = IF c.gerr \/ v # "ok" THEN Len(c.inputs) + 1 ELSE 1
  /\ UNCHANGED tid

OneInput ==
  /\ ii >= 1 /\ ii <= Len(Cases[tid].inputs)
  /\ LET c == Cases[tid]
         v == JudgeInput(c, las, c.inputs[ii])
     IN verdict' = Verdict(tid, ii, v = "ok", v, ii)
  /\ ii' = ii + 1
  /\ UNCHANGED <<tid, las>>

Next == Construct \/ OneInput
Spec == Init /\ [][Next]_vars
VerdictOk == verdict = "ok"
=============================================================================
