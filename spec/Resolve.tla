------------------------------- MODULE Resolve ------------------------------
(***************************************************************************)
(* L1 of C05: ambiguity='resolve' on the forest of EarleyForest.tla -      *)
(* ForestSumVisitor (priorities cascade upwards) and the choice            *)
(* ForestToParseTree makes at every ambiguous symbol node                  *)
(* (earley_forest.py PackedNode.sort_key, SymbolNode.children).            *)
(*                                                                         *)
(*  packed node : priority = the rule's priority (only when its parent is  *)
(*                a symbol node of a non-terminal, not an intermediate     *)
(*                one) + priority(left) + priority(right)                  *)
(*  symbol node : priority = max over its packed nodes                     *)
(*  choice      : the packed node with the least                           *)
(*                <<is_empty, -priority, rule.order>>                      *)
(*                (ties - same rule, another split - go by insertion order *)
(*                 in the code; the model keeps every tie)                 *)
(* P: rule index -> priority (already negated for priority='invert').      *)
(* L0: the resolved tree is a derivation whose summed rule priorities are  *)
(*     the greatest any derivation has (grammars without empty rules).     *)
(***************************************************************************)
EXTENDS EarleyForest

IsSymNode(node) == node[1] = "sym"
IsIntermediate(node) == node[1] = "sym" /\ node[2][1] = ""
MaxOf(S) == CHOOSE x \in S : \A y \in S : y <= x
RECURSIVE PrioFam(_, _, _), PrioNode(_, _, _)
PrioNode(F, P, node) == IF ~IsSymNode(node) THEN 0 ELSE MaxOf({PrioFam(F, P, f) : f \in FamsOf(F, node)})
PrioFam(F, P, f) == (IF IsIntermediate(f[1]) THEN 0 ELSE P[f[2]]) + PrioNode(F, P, f[4]) + PrioNode(F, P, f[3])

RuleOrder(rules, r) == Cardinality({q \in DOMAIN rules : q < r /\ rules[q].lhs = rules[r].lhs})
Key(rules, F, P, f) == <<IF f[3] = NONE /\ f[4] = NONE THEN 1 ELSE 0, 0 - PrioFam(F, P, f), RuleOrder(rules, f[2])>>
LexLeq(a, b) == a[1] < b[1] \/ (a[1] = b[1] /\ (a[2] < b[2] \/ (a[2] = b[2] /\ a[3] <= b[3])))
Best(rules, F, P, node) == {f \in FamsOf(F, node) : \A g \in FamsOf(F, node) : LexLeq(Key(rules, F, P, f), Key(rules, F, P, g))}

\* the trees ambiguity='resolve' can return (one per way of breaking the remaining ties)
RECURSIVE ResolvedLists(_, _, _, _), ResolvedAt(_, _, _, _)
ResolvedAt(rules, F, P, node) ==
  IF node[1] = "tok" THEN {<<"t", node[2][1], node[3], node[4]>>}
  ELSE UNION {{<<"n", f[2], cs>> : cs \in ResolvedLists(rules, F, P, f)} : f \in Best(rules, F, P, node)}
ResolvedLists(rules, F, P, f) ==
  LET lefts == IF f[3] = NONE THEN {<<>>} ELSE UNION {ResolvedLists(rules, F, P, g) : g \in Best(rules, F, P, f[3])}
      rights == IF f[4] = NONE THEN {<<>>} ELSE {<<t>> : t \in ResolvedAt(rules, F, P, f[4])}
  IN {l \o r : l \in lefts, r \in rights}

RECURSIVE TreePrio(_, _)
SumSeqR(s) == LET RECURSIVE Acc(_)
                  Acc(i) == IF i > Len(s) THEN 0 ELSE s[i] + Acc(i + 1)
              IN Acc(1)
TreePrio(P, d) == IF d[1] = "t" THEN 0 ELSE P[d[2]] + SumSeqR([k \in DOMAIN d[3] |-> TreePrio(P, d[3][k])])
=============================================================================
