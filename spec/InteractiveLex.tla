--------------------------- MODULE InteractiveLex ---------------------------
(***************************************************************************)
(* Interactive parsers that lex their own text (Lark.parse_interactive(text))*)
(* and are forked while doing so.                                          *)
(*                                                                         *)
(* A handle owns a lexer thread (InteractiveParser.lexer_thread: used by   *)
(* iter_parse / exhaust_lexer) and its parser state refers to a lexer      *)
(* thread as well (ParserState.lexer: used by resume_parse through         *)
(* parse_from_state).  A lexer thread is a heap cell holding a cursor into *)
(* the token sequence of the text.  copy() / as_immutable() / as_mutable() *)
(* copy the handle's thread; RebindOnCopy says whether the copied parser   *)
(* state is made to refer to the copied thread (the code since d7b44fd) or *)
(* keeps referring to the original's (the pinned code, "XXX copy").        *)
(*                                                                         *)
(* L0: the tokens a handle is fed are a prefix of the text, in order, none *)
(*     skipped; a handle that finished (resume_parse, or exhaust_lexer +   *)
(*     feed_eof) was fed the whole text - whatever the other forks did.    *)
(***************************************************************************)
EXTENDS Integers, Sequences, FiniteSets, TLC, Json

CONSTANTS MaxHandles, MaxOps, TextLen, RebindOnCopy

VARIABLES hist,   \* handle -> indices of the tokens fed so far
          thr,    \* handle -> cell of its lexer thread
          slex,   \* handle -> cell its parser state refers to
          cur,    \* cell -> number of tokens already lexed
          done,   \* handle -> finished (result computed)
          ops
vars == <<hist, thr, slex, cur, done, ops>>
Handles == DOMAIN hist
NewH == Cardinality(Handles) + 1
NewC == Cardinality(DOMAIN cur) + 1
Ext(f, k, v) == [x \in DOMAIN f \cup {k} |-> IF x = k THEN v ELSE f[x]]
Text == [i \in 1..TextLen |-> i]
FromTo(a, b) == [i \in 1..(b - a + 1) |-> a + i - 1]

Init == /\ hist = [h \in {1} |-> <<>>] /\ thr = [h \in {1} |-> 1] /\ slex = [h \in {1} |-> 1]
        /\ cur = [c \in {1} |-> 0] /\ done = [h \in {1} |-> FALSE] /\ ops = <<>>
Room == Len(ops) < MaxOps

\* one round of  for tok in ip.lexer_thread.lex(ip.parser_state): ip.feed_token(tok); break
Step(h) ==
  /\ Room /\ ~done[h] /\ cur[thr[h]] < TextLen
  /\ hist' = [hist EXCEPT ![h] = Append(@, cur[thr[h]] + 1)]
  /\ cur' = [cur EXCEPT ![thr[h]] = @ + 1]
  /\ ops' = Append(ops, [op |-> "step", h |-> h, new |-> 0])
  /\ UNCHANGED <<thr, slex, done>>

Fork(h, opname) ==
  /\ Room /\ ~done[h] /\ Cardinality(Handles) < MaxHandles
  /\ hist' = Ext(hist, NewH, hist[h]) /\ done' = Ext(done, NewH, FALSE)
  /\ thr' = Ext(thr, NewH, NewC) /\ cur' = Ext(cur, NewC, cur[thr[h]])
  /\ slex' = Ext(slex, NewH, IF RebindOnCopy THEN NewC ELSE slex[h])
  /\ ops' = Append(ops, [op |-> opname, h |-> h, new |-> NewH])

\* lex to the end through cell c, feeding h; then $END
Finish(h, c, opname) ==
  /\ Room /\ ~done[h]
  /\ hist' = [hist EXCEPT ![h] = @ \o FromTo(cur[c] + 1, TextLen)]
  /\ cur' = [cur EXCEPT ![c] = TextLen]
  /\ done' = [done EXCEPT ![h] = TRUE]
  /\ ops' = Append(ops, [op |-> opname, h |-> h, new |-> 0])
  /\ UNCHANGED <<thr, slex>>
Resume(h) == Finish(h, slex[h], "resume")                  \* resume_parse(): parse_from_state lexes through state.lexer
Exhaust(h) == Finish(h, thr[h], "exhaust")                 \* exhaust_lexer() + feed_eof(): lexes through lexer_thread

Next == \E h \in Handles : Step(h) \/ Fork(h, "copy") \/ Fork(h, "immutable") \/ Resume(h) \/ Exhaust(h)
Spec == Init /\ [][Next]_vars

NoSkip == \A h \in Handles : \A i \in DOMAIN hist[h] : hist[h][i] = i
ResultOwn == \A h \in Handles : done[h] => hist[h] = Text
Export == Len(ops) = MaxOps => PrintT("OUT|" \o ToJson([ops |-> ops]))
=============================================================================
