--------------------------- MODULE MC_TreeBuilder ---------------------------
(***************************************************************************)
(* Design-level check of TreeBuilder.tla: a value is wrapped by up to      *)
(* MaxDepth reductions taken from a catalogue of rule shapes (kept and     *)
(* filtered tokens at either edge, ?rules with and without alias, _helper  *)
(* rules whose children are spliced into the parent, unmatched [..] items  *)
(* giving Nones); tokens get the positions the lexer would give them.      *)
(*   SpanLaw      : the node a reduction creates spans exactly the tokens  *)
(*                  the reduction covers, filtered ones included (C06)     *)
(*   ContainerLaw : the container span of whatever a reduction returns is  *)
(*                  that extent - the lemma that makes SpanLaw inductive   *)
(*                  through ?rule pass-throughs                            *)
(*   NoHelperLeft : no _helper node is a child of a visible node (C03)     *)
(*   NonesCounted : a reduction inserts as many Nones as its rule has      *)
(*                  unmatched [..] items                                   *)
(***************************************************************************)
EXTENDS TreeBuilder, TLC
CONSTANT MaxDepth

Sym(isterm, fo, inl) == [isterm |-> isterm, filter_out |-> fo, inl |-> inl]
K == Sym(TRUE, FALSE, FALSE)      \* kept token
F == Sym(TRUE, TRUE, FALSE)       \* filtered token
X == Sym(FALSE, FALSE, FALSE)     \* the wrapped value (a visible rule)
H == Sym(FALSE, FALSE, TRUE)      \* the wrapped value, when it is a _helper tree
Rule(label, hasalias, e1, ka, helper, syms, empty) ==
  [origin |-> label, label |-> label, hasalias |-> hasalias, expand1 |-> e1, keepall |-> ka, helper |-> helper, syms |-> syms, empty |-> empty]
\* shapes: the position of the wrapped value among the symbols is the one non-terminal
Shapes == <<
  Rule("pair", FALSE, FALSE, FALSE, FALSE, <<K, X, K>>, <<>>),
  Rule("paren", FALSE, FALSE, FALSE, FALSE, <<F, X, F>>, <<>>),
  Rule("qparen", FALSE, TRUE, FALSE, FALSE, <<F, X, F>>, <<>>),            \* ?rule: returns the child, container grows
  Rule("qstmt", FALSE, TRUE, FALSE, FALSE, <<X, F>>, <<>>),
  Rule("qpass", FALSE, TRUE, FALSE, FALSE, <<X>>, <<>>),
  Rule("qalias", TRUE, TRUE, FALSE, FALSE, <<X, F>>, <<>>),                \* ?rule with alias: always a node
  Rule("qtwo", FALSE, TRUE, FALSE, FALSE, <<K, X>>, <<>>),                 \* ?rule with two children: a node
  Rule("_h", FALSE, FALSE, FALSE, TRUE, <<F, X, K>>, <<>>),                \* helper: spliced into the next reduction
  Rule("keepall", FALSE, FALSE, TRUE, FALSE, <<F, X, F>>, <<>>),
  Rule("maybe", FALSE, FALSE, FALSE, FALSE, <<X, F>>, <<TRUE, FALSE, TRUE, TRUE, FALSE>>),
  Rule("qmaybe", FALSE, TRUE, FALSE, FALSE, <<F, X>>, <<FALSE, TRUE, FALSE>>) >>

VARIABLES val,     \* the value built so far
          ext,     \* extent of the tokens it covers
          helper,  \* val is a _helper tree (the next rule refers to it as an inlined non-terminal)
          fresh,   \* the last reduction created val (it did not pass a child through)
          nones,   \* Nones the last reduction had to insert / did insert
          lost,    \* some reduction returned a bare TOKEN although its rule covered more than that token: a token has no
                   \* container span, so what the ?rule matched around it is lost (known finding C06-token-through-expand1)
          depth
vars == <<val, ext, helper, fresh, nones, lost, depth>>

Init == /\ val = Tok("A", 100, 101) /\ ext = <<100, 101>> /\ helper = FALSE /\ fresh = FALSE /\ nones = <<0, 0>> /\ lost = FALSE /\ depth = 0

XPos(rule) == CHOOSE i \in DOMAIN rule.syms : ~rule.syms[i].isterm
CountNones(cs) == Cardinality({i \in DOMAIN cs : cs[i] = None})
Wrap(r0) ==
  LET rule == [r0 EXCEPT !.syms = [i \in DOMAIN r0.syms |-> IF ~r0.syms[i].isterm /\ helper THEN H ELSE r0.syms[i]]]
      x == XPos(rule)
      nl == x - 1
      nr == Len(rule.syms) - x
      kids == [i \in DOMAIN rule.syms |->
                 IF i < x THEN Tok("L", ext[1] - (x - i), ext[1] - (x - i) + 1)
                 ELSE IF i > x THEN Tok("R", ext[2] + (i - x) - 1, ext[2] + (i - x))
                 ELSE val]
      res == Callback(rule, kids, TRUE)
      before == IF IsTree(val) /\ helper THEN CountNones(val[3]) ELSE 0
  IN /\ depth < MaxDepth
     /\ IsTree(val) \/ ~helper
     /\ val' = res
     /\ ext' = <<ext[1] - nl, ext[2] + nr>>
     /\ helper' = rule.helper
     /\ fresh' = (res # val /\ (~IsTree(val) \/ res[2] # val[2] \/ res[3] # val[3]))
     /\ nones' = <<Cardinality({i \in DOMAIN rule.empty : rule.empty[i]}) + before, IF IsTree(res) /\ res # val THEN CountNones(res[3]) ELSE -1>>
     /\ lost' = (lost \/ (IsTok(res) /\ (nl + nr > 0)))
     /\ depth' = depth + 1
Next == \E s \in DOMAIN Shapes : Wrap(Shapes[s])
Spec == Init /\ [][Next]_vars

SpanLaw == (IsTree(val) /\ fresh /\ ~helper /\ ~lost) => val[4] = ext
ContainerLaw == (IsTree(val) /\ depth > 0 /\ ~lost) => val[5] = ext
\* the statement of C06 without the exemption - TLC refutes it:  start: x / ?x: "(" A ")"  on "(a)" gives start the span of "a"
SpanLawEvenThroughTokens == (IsTree(val) /\ fresh /\ ~helper) => val[4] = ext
RECURSIVE HelperInside(_)
HelperInside(v) == IsTree(v) /\ \E i \in DOMAIN v[3] : (IsTree(v[3][i]) /\ v[3][i][2] = "_h") \/ HelperInside(v[3][i])
NoHelperLeft == ~helper => ~HelperInside(val)
NonesCounted == (fresh /\ nones[2] >= 0) => nones[1] = nones[2]
=============================================================================
