----------------------------- MODULE TraceC01 ------------------------------
(***************************************************************************)
(* C01 code -> spec.  Each case is a grammar (as written) with a list of   *)
(* inputs; each input carries the base spans computed by the regex oracle  *)
(* (shared table Batch.inputs; tsA/igA: every full match of every terminal / ignored terminal,        *)
(* tsL/igL: only the longest match per start position) and, per Earley     *)
(* lexer mode, what the real lark did.  The step judges one input:         *)
(*   basic, dynamic_complete : accept <=> CharInLang(all matches)          *)
(*   dynamic                 : accept <=> CharInLang(longest matches)      *)
(*   a rejection must be an UnexpectedInput ("ui")                         *)
(***************************************************************************)
EXTENDS CFG, TraceBase

VARIABLES tid, k, verdict
vars == <<tid, k, verdict>>

Spans3(seq) == {<<seq[x][1], seq[x][2], seq[x][3]>> : x \in DOMAIN seq}
Spans2(seq) == {<<seq[x][1], seq[x][2]>> : x \in DOMAIN seq}

\* observation codes: 0 accept, 1 reject with an UnexpectedInput, 2 reject with another exception, 3 hang/other
JudgeObs(mode, code, expA, expL) ==
  LET exp == IF mode = "dynamic" THEN expL ELSE expA IN
  IF code = 0 THEN (IF exp THEN "ok" ELSE "accepted-nonsentence:" \o mode)
  ELSE IF code = 1 THEN (IF exp THEN "rejected-sentence:" \o mode ELSE "ok")
  ELSE IF code = 2 THEN (IF exp THEN "rejected-sentence:" \o mode ELSE "not-UnexpectedInput:" \o mode)
  ELSE "hang-or-bad-outcome:" \o mode

RECURSIVE FirstBad(_, _, _, _, _)
FirstBad(modes, codes, expA, expL, j) ==
  IF j > Len(modes) THEN "ok"
  ELSE LET v == JudgeObs(modes[j], codes[j], expA, expL)
       IN IF v = "ok" THEN FirstBad(modes, codes, expA, expL, j + 1) ELSE v

Inputs == Batch.inputs

Init == tid \in 1..NCases /\ k = 0 /\ verdict = "ok"

Next ==
  /\ k < Len(Cases[tid].ins)
  /\ k' = k + 1
  /\ LET c == Cases[tid]
         inp == Inputs[c.ins[k + 1]]
         expA == CharInLang(c.rules, c.start, inp.n, Spans3(inp.tsA), Spans2(inp.igA))
         expL == CharInLang(c.rules, c.start, inp.n, Spans3(inp.tsL), Spans2(inp.igL))
         v == FirstBad(c.modes, c.obs[k + 1], expA, expL, 1)
     IN verdict' = Verdict(tid, k + 1, v = "ok", v, c.ins[k + 1])
  /\ UNCHANGED tid

Spec == Init /\ [][Next]_vars
VerdictOk == verdict = "ok"
=============================================================================
