----------------------------- MODULE TraceMatcher ---------------------------
(* C19 code -> spec (drift level): the matching rules the real TreeMatcher built for a parser - TreeMatcher.rules and
   rules_for_root - against General / RootRules of Matcher.tla computed from the same compiled rules.
   case: g (compiled rules), general: Seq([lhs, rhs]), roots: Seq([label, lhs, rhs]) *)
EXTENDS Matcher, TraceBase
VARIABLES tid, verdict
Plain2(S) == {[lhs |-> x.lhs, rhs |-> x.rhs] : x \in S}
Labels(g) == {MSym(g, r) : r \in DOMAIN g}
Init == tid \in 1..NCases /\ verdict = "start"
Next ==
  /\ verdict = "start"
  /\ LET c == Cases[tid]
         gen == {[lhs |-> c.general[i].lhs, rhs |-> c.general[i].rhs] : i \in DOMAIN c.general}
         roots == {<<c.roots[i].label, [lhs |-> c.roots[i].lhs, rhs |-> c.roots[i].rhs]>> : i \in DOMAIN c.roots}
         want == UNION {{<<l, x>> : x \in Plain2(RootRules(c.g, l))} : l \in Labels(c.g)}
         v == IF gen # Plain2(General(c.g)) THEN "general-matching-rules-differ"
              ELSE IF roots # want THEN "root-matching-rules-differ"
              ELSE "ok"
     IN verdict' = Verdict(tid, 1, v = "ok", v, Cardinality(gen))
  /\ UNCHANGED tid
Spec == Init /\ [][Next]_<<tid, verdict>>
VerdictOk == verdict \in {"ok", "start"}
=============================================================================
