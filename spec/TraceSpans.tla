----------------------------- MODULE TraceSpans ----------------------------
(***************************************************************************)
(* C06 under ambiguity='explicit': the nesting law of the statement on the *)
(* trees Earley returns with propagate_positions ("children's spans are    *)
(* ordered, disjoint and nested inside their parent's").                   *)
(*                                                                         *)
(* A case is one parse: nodes = every non-_ambig tree node with a          *)
(* non-empty meta, as                                                      *)
(*   <<start, end, kids>>   kids = <<kstart, kend, through>> in order      *)
(* A kid is a token, a child tree with non-empty meta, or - for a child    *)
(* that is an _ambig node - ITS alternatives' common extent (all           *)
(* alternatives of one _ambig node derive the same stretch of input;       *)
(* through = 1 marks such a kid, and the extent is the hull of the         *)
(* alternatives' metas).  The _ambig node itself carries no meta; the      *)
(* pinned tree builder therefore skips it when it computes the parent's    *)
(* span (hunted, section 7b of DESIGN.md): the clause then ends in         *)
(* @through-ambig, which known_findings.json lists.                        *)
(***************************************************************************)
EXTENDS TraceBase, Integers
VARIABLES tid, ni, verdict
vars == <<tid, ni, verdict>>

Ordered(ks) == \A i \in 1..(Len(ks) - 1) : ks[i][2] <= ks[i + 1][1]
JudgeNode(nd) ==
  LET ks == nd[3]
      out == {i \in DOMAIN ks : ks[i][1] < nd[1] \/ ks[i][2] > nd[2]}
  IN IF out # {} THEN
        (IF \A i \in out : ks[i][3] = 1 THEN "child-span-outside-parent@through-ambig" ELSE "child-span-outside-parent")
     ELSE IF ~Ordered(ks) THEN
        (IF \E i \in DOMAIN ks : ks[i][3] = 1 THEN "children-spans-not-ordered-disjoint@through-ambig" ELSE "children-spans-not-ordered-disjoint")
     ELSE IF nd[1] > nd[2] THEN "span-ends-before-it-starts"
     ELSE "ok"

Init == tid \in 1..NCases /\ ni = 0 /\ verdict = "ok"
Next ==
  /\ ni < Len(Cases[tid].nodes)
  /\ ni' = ni + 1
  /\ LET v == JudgeNode(Cases[tid].nodes[ni + 1]) IN verdict' = Verdict(tid, ni + 1, v = "ok", v, ni + 1)
  /\ UNCHANGED tid
Spec == Init /\ [][Next]_vars
VerdictOk == verdict = "ok"
=============================================================================
