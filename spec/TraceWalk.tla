------------------------------ MODULE TraceWalk ----------------------------
(* C20 code -> spec: the callback sequence of a real ForestVisitor.visit (recording subclass) on a graph - a synthetic
   one driven through visit_symbol_node_in, or the real SPPF of a parse - must be exactly the event sequence of the
   ForestWalk.tla machine on the same graph, and the machine must be done when the events end. *)
EXTENDS ForestWalk, TraceBase
VARIABLES tid, verdict
SetOf(s) == {s[i] : i \in DOMAIN s}
Init == tid \in 1..NCases /\ verdict = "new"
Next ==
  /\ verdict = "new"
  /\ LET c == Cases[tid]
         S == [x \in 1..c.n |-> c.S[x]]
         fin == RunWalk(S, SetOf(c.tok), c.single, InitWalk(c.root), 6 * Len(c.ev) + 20)
         evs == [i \in DOMAIN c.ev |-> <<c.ev[i][1], c.ev[i][2]>>]
         v == IF ~c.finished THEN "walk-did-not-terminate"
              ELSE IF ~Done(fin) THEN "machine-still-running-where-the-code-stopped"
              ELSE IF fin.ev # evs THEN "callback-sequence-differs"
              ELSE "ok"
     IN verdict' = Verdict(tid, 1, v = "ok", v, c.n)
  /\ UNCHANGED tid
Spec == Init /\ [][Next]_<<tid, verdict>>
VerdictOk == verdict \in {"new", "ok"}
=============================================================================
