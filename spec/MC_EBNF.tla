------------------------------ MODULE MC_EBNF ------------------------------
(***************************************************************************)
(* Known answers for EBNF.tla, taken from lark's documentation             *)
(* (docs/tree_construction.md: inlining with _, conditional inlining with  *)
(* ?, pinning with !, filtering of literals, [item] placeholders), and the *)
(* count semantics of the repetition operators for all small bounds.       *)
(* The oracle is checked before it is used to judge the implementation.    *)
(***************************************************************************)
EXTENDS EBNF, TLC

Tok(n, kp) == [k |-> "tok", name |-> n, keep |-> kp]
Ref(n) == [k |-> "rule", name |-> n]
Sq(its) == [k |-> "seq", items |-> its]
Al(as) == [k |-> "alt", alts |-> as]
Op(x) == [k |-> "opt", x |-> x]
Mb(x) == [k |-> "maybe", x |-> x]
Rp(x, n, m) == [k |-> "rep", x |-> x, n |-> n, m |-> m]
Rule(n, e1, ka, inl, alts) == [name |-> n, expand1 |-> e1, keepall |-> ka, inline |-> inl, prio |-> 0, alts |-> alts]
Alt(al, b) == [alias |-> al, body |-> b]
Gr(rules, ka, ph) == [start |-> "start", ka |-> ka, ph |-> ph, rules |-> rules]
T(n, i) == <<"T", n, i, <<>>>>
R(d, ks) == <<"R", d, 0, ks>>

\* start: "(" _greet ")"   _greet: /\w+/ /\w+/          "(hello world)" -> start(hello, world)
G1 == Gr(<<Rule("start", FALSE, FALSE, FALSE, <<Alt("", Sq(<<Tok("LPAR", FALSE), Ref("_greet"), Tok("RPAR", FALSE)>>))>>),
           Rule("_greet", FALSE, FALSE, TRUE, <<Alt("", Sq(<<Tok("W", TRUE), Tok("W", TRUE)>>))>>)>>, FALSE, TRUE)
A1 == TreesOfInput(G1, <<"LPAR", "W", "W", "RPAR">>) = {R("start", <<T("W", 1), T("W", 2)>>)}

\* start: greet greet   ?greet: "(" /\w+/ ")" | /\w+/ /\w+/      "hello world (planet)" -> start(greet(hello, world), planet)
G2 == Gr(<<Rule("start", FALSE, FALSE, FALSE, <<Alt("", Sq(<<Ref("greet"), Ref("greet")>>))>>),
           Rule("greet", TRUE, FALSE, FALSE, <<Alt("", Sq(<<Tok("LPAR", FALSE), Tok("W", TRUE), Tok("RPAR", FALSE)>>)),
                                               Alt("", Sq(<<Tok("W", TRUE), Tok("W", TRUE)>>))>>)>>, FALSE, TRUE)
A2 == TreesOfInput(G2, <<"W", "W", "LPAR", "W", "RPAR">>) =
        {R("start", <<R("greet", <<T("W", 0), T("W", 1)>>), T("W", 3)>>)}

\* !expr: "(" expr ")" | NAME+        "((hello world))" keeps the brackets;  without ! they are filtered
G3(pin) == Gr(<<Rule("start", FALSE, pin, FALSE, <<Alt("", Sq(<<Tok("LPAR", FALSE), Ref("start"), Tok("RPAR", FALSE)>>)),
                                                   Alt("", Rp(Tok("NAME", TRUE), 1, -1))>>)>>, FALSE, TRUE)
W3 == <<"LPAR", "LPAR", "NAME", "NAME", "RPAR", "RPAR">>
A3 == /\ TreesOfInput(G3(TRUE), W3) =
           {R("start", <<T("LPAR", 0), R("start", <<T("LPAR", 1), R("start", <<T("NAME", 2), T("NAME", 3)>>), T("RPAR", 4)>>), T("RPAR", 5)>>)}
      /\ TreesOfInput(G3(FALSE), W3) = {R("start", <<R("start", <<R("start", <<T("NAME", 2), T("NAME", 3)>>)>>)>>)}

\* start: [A] B [A "d"]    "b" -> start(None, b, None) with placeholders, start(b) without; keep_all_tokens counts "d" too
G4(ka, ph) == Gr(<<Rule("start", FALSE, FALSE, FALSE,
                        <<Alt("", Sq(<<Mb(Tok("A", TRUE)), Tok("B", TRUE), Mb(Sq(<<Tok("A", TRUE), Tok("D", FALSE)>>))>>))>>)>>, ka, ph)
A4 == /\ TreesOfInput(G4(FALSE, TRUE), <<"B">>) = {R("start", <<NoneV, T("B", 0), NoneV>>)}
      /\ TreesOfInput(G4(FALSE, FALSE), <<"B">>) = {R("start", <<T("B", 0)>>)}
      /\ TreesOfInput(G4(TRUE, TRUE), <<"B">>) = {R("start", <<NoneV, T("B", 0), NoneV, NoneV>>)}
      /\ TreesOfInput(G4(FALSE, TRUE), <<"A", "B", "A", "D">>) = {R("start", <<T("A", 0), T("B", 1), T("A", 2)>>)}

\* an alias renames the node and prevents the ?-collapse
G5 == Gr(<<Rule("start", TRUE, FALSE, FALSE, <<Alt("one", Tok("A", TRUE)), Alt("", Tok("B", TRUE))>>)>>, FALSE, TRUE)
A5 == /\ TreesOfInput(G5, <<"A">>) = {R("one", <<T("A", 0)>>)}
      /\ TreesOfInput(G5, <<"B">>) = {T("B", 0)}

VARIABLES n, m, kk
Init == n \in 0..3 /\ m \in n..4 /\ kk \in 0..6
Next == UNCHANGED <<n, m, kk>>
Spec == Init /\ [][Next]_<<n, m, kk>>

KnownAnswers == A1 /\ A2 /\ A3 /\ A4 /\ A5

\* start: X~n..m, X*, X+, X?  on X^kk : accepted iff the count is allowed, children = kk tokens in order
GC(e) == Gr(<<Rule("start", FALSE, FALSE, FALSE, <<Alt("", e)>>)>>, FALSE, TRUE)
Xs == [q \in 1..kk |-> "X"]
Kids == [q \in 1..kk |-> T("X", q - 1)]
Exactly(e, ok) == TreesOfInput(GC(e), Xs) = (IF ok THEN {R("start", Kids)} ELSE {})
CountsExact ==
  /\ Exactly(Rp(Tok("X", TRUE), n, m), kk >= n /\ kk <= m)
  /\ Exactly(Rp(Tok("X", TRUE), n, n), kk = n)
  /\ Exactly(Rp(Tok("X", TRUE), 0, -1), TRUE)
  /\ Exactly(Rp(Tok("X", TRUE), 1, -1), kk >= 1)
  /\ Exactly(Op(Tok("X", TRUE)), kk <= 1)
  /\ Exactly(Rp(Sq(<<Tok("X", TRUE), Tok("X", TRUE)>>), n, m), kk % 2 = 0 /\ kk \div 2 >= n /\ kk \div 2 <= m)
=============================================================================
