---------------------------- MODULE MC_Serialize ----------------------------
(* all DAGs on N objects (object k references only larger ids, sequences of <= 2 references), classes
   {Conf, Rule, Term}, values {0,1}; Rule and Term memoized *)
EXTENDS Serialize, TLC
CONSTANT N
Ids == 1..N
VARIABLE objs
Init == objs \in [Ids -> [cls : {"Conf", "Rule", "Term"}, val : {0, 1}, refs : UNION {[1..d -> Ids] : d \in 0..2}]]
        /\ \A k \in Ids : \A i \in DOMAIN objs[k].refs : objs[k].refs[i] > k
Next == UNCHANGED objs
Spec == Init /\ [][Next]_objs
RoundTripOk == RoundTrip(objs, {"Rule", "Term"}, 1)
SharingOk == RestoredShared(objs, {"Rule", "Term"}, 1)
=============================================================================
