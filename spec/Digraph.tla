------------------------------ MODULE Digraph ------------------------------
(***************************************************************************)
(* lark/parsers/lalr_analysis.py digraph()/traverse() (DeRemer-Pennello's  *)
(* SCC-based computation of F(x) = G(x) \cup UNION {F(y) : x R y}).        *)
(*                                                                         *)
(* L0: the least solution by naive iteration (DigraphLfp).                 *)
(* L1: the recursive traversal with the stack S, the weights N and the     *)
(*     low-link update, transcribed statement by statement.  R[x] is a     *)
(*     *sequence* here because the code iterates a Python set, whose order *)
(*     is arbitrary: the model checker tries every order.                  *)
(* Nodes are 1..n, values are sets.                                        *)
(***************************************************************************)
EXTENDS Naturals, Sequences, FiniteSets

\* ---- L0 -----------------------------------------------------------------
RECURSIVE LfpIter(_, _, _)
LfpIter(n, R, Fm) ==
  LET F2 == [x \in 1..n |-> Fm[x] \cup UNION {Fm[R[x][i]] : i \in DOMAIN R[x]}]
  IN IF F2 = Fm THEN Fm ELSE LfpIter(n, R, F2)
Lfp(n, R, G) == LfpIter(n, R, [x \in 1..n |-> G[x]])

\* ---- L1 -----------------------------------------------------------------
\* state: [S |-> stack (seq of nodes), N |-> weights, F |-> node -> set, def |-> nodes with F defined]
RECURSIVE Traverse(_, _, _, _), Succs(_, _, _, _, _, _), PopScc(_, _, _)

\* while True: z = S.pop(); N[z] = -1; F[z] = f_x; if z == x: break      (-1 encoded as n+1000)
PopScc(st, x, fx) ==
  LET z == st.S[Len(st.S)]
      st2 == [st EXCEPT !.S = SubSeq(@, 1, Len(@) - 1), !.N[z] = 100000, !.F[z] = fx]
  IN IF z = x THEN st2 ELSE PopScc(st2, x, fx)

\* for y in R[x] (from index i on)
Succs(st, R, G, x, d, i) ==
  IF i > Len(R[x]) THEN st
  ELSE LET y == R[x][i]
           s1 == IF st.N[y] = 0 THEN Traverse(st, R, G, y) ELSE st
           nx == s1.N[x]
           ny == s1.N[y]
           \* if (n_y > 0) and (n_y < n_x): N[x] = n_y      (popped nodes have N = -1, here a huge number)
           s2 == IF ny < 100000 /\ ny > 0 /\ ny < nx THEN [s1 EXCEPT !.N[x] = ny] ELSE s1
           s3 == [s2 EXCEPT !.F[x] = @ \cup s2.F[y]]
       IN Succs(s3, R, G, x, d, i + 1)

Traverse(st, R, G, x) ==
  LET S1 == Append(st.S, x)
      d == Len(S1)
      s1 == [st EXCEPT !.S = S1, !.N[x] = d, !.F[x] = G[x]]
      s2 == Succs(s1, R, G, x, d, 1)
  IN IF s2.N[x] = d THEN PopScc(s2, x, s2.F[x]) ELSE s2

\* for x in X: if N[x] == 0: traverse(x)        (X in the order `order`)
RECURSIVE DigraphFrom(_, _, _, _, _)
DigraphFrom(st, R, G, order, i) ==
  IF i > Len(order) THEN st
  ELSE DigraphFrom(IF st.N[order[i]] = 0 THEN Traverse(st, R, G, order[i]) ELSE st, R, G, order, i + 1)

DigraphL1(n, R, G, order) ==
  DigraphFrom([S |-> <<>>, N |-> [x \in 1..n |-> 0], F |-> [x \in 1..n |-> {}]], R, G, order, 1).F
=============================================================================
