----------------------------- MODULE MC_Indenter ----------------------------
(***************************************************************************)
(* All streams of <= MaxLen tokens over NL(0..MaxInd), OPEN, CLOSE, OTHER, *)
(* fed token by token.  L0 laws of the statement as invariants.            *)
(***************************************************************************)
EXTENDS Indenter, TLC
CONSTANTS MaxLen, MaxInd
Toks == {[k |-> "NL", ind |-> n] : n \in 0..MaxInd} \cup {[k |-> x, ind |-> 0] : x \in {"OPEN", "CLOSE", "OTHER", "NLC"}}
VARIABLES fed, st
vars == <<fed, st>>
Init == fed = <<>> /\ st = Reset
Feed == /\ st.status = "run" /\ Len(fed) < MaxLen
        /\ \E t \in Toks : fed' = Append(fed, t) /\ st' = FeedTok(st, t)
End == st.status = "run" /\ st' = Finish(st) /\ UNCHANGED fed
Next == Feed \/ End
Spec == Init /\ [][Next]_vars

\* the level stack is strictly increasing from 0, and #INDENT - #DEDENT = Len(lv) - 1
StackLaw == /\ st.lv[1] = 0 /\ \A i \in 1..(Len(st.lv) - 1) : st.lv[i] < st.lv[i + 1]
            /\ Count(st.out, "INDENT") - Count(st.out, "DEDENT") = Len(st.lv) - 1
\* balanced at the end of a stream
Balanced == st.status = "done" => Count(st.out, "INDENT") = Count(st.out, "DEDENT")
\* INDENT/DEDENT only directly after an emitted NL (or DEDENTs at the very end)
OnlyAfterNL == \A i \in DOMAIN st.out : st.out[i] = "INDENT" => (i > 1 /\ st.out[i - 1] = "NL")
\* a newline token without indentation to read (comment tail) never moves the level stack
CommentNeutral ==
  (st.status = "run" /\ fed # <<>> /\ fed[Len(fed)].k = "NLC") =>
     LET before == FeedAll(Reset, SubSeq(fed, 1, Len(fed) - 1), 1) IN st.lv = before.lv /\ st.status = before.status
\* nothing is emitted for newlines inside brackets, everything else passes through in order
PassThrough ==
  LET kept == SelectSeq(st.out, LAMBDA x : x \in {"OPEN", "CLOSE", "OTHER"})
      src == SelectSeq(fed, LAMBDA t : t.k \notin {"NL", "NLC"})
  IN kept = [i \in DOMAIN src |-> src[i].k] \/ st.status = "CloseUnderflow"
\* DedentError exactly on a dedent (outside brackets) to a column that is not an open level
ErrorLaw ==
  st.status = "DedentError" =>
     LET t == fed[Len(fed)]
         before == FeedAll(Reset, SubSeq(fed, 1, Len(fed) - 1), 1)
     IN t.k = "NL" /\ before.paren = 0 /\ t.ind < Top(before.lv) /\ t.ind \notin {before.lv[i] : i \in DOMAIN before.lv}
NoSpuriousOk ==
  (st.status = "run" /\ fed # <<>> /\ fed[Len(fed)].k = "NL") =>
     LET t == fed[Len(fed)]
         before == FeedAll(Reset, SubSeq(fed, 1, Len(fed) - 1), 1)
     IN before.paren > 0 \/ t.ind >= Top(before.lv) \/ t.ind \in {before.lv[i] : i \in DOMAIN before.lv}
=============================================================================
