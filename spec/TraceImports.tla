----------------------------- MODULE TraceImports ---------------------------
(* C17 code -> spec: the real lark, given the grammar that USES %import / %override / %extend / templates (modules as
   real .lark files), against the trees of the grammar Imports.tla assembles by writing the definitions out.
   case: sys, cyclic, err (construction error class or ""), inputs: [w: Seq(<<module, TERMINAL>>), obs: [cfg, out, tree]] *)
EXTENDS Imports, TraceBase
VARIABLES tid, ii, verdict
RECURSIVE JudgeObs(_, _, _)
JudgeObs(obs, trees, k) ==
  IF k > Len(obs) THEN "ok"
  ELSE LET o == obs[k] IN
       IF o.out = 2 THEN o.cfg \o ":unexpected-exception"
       ELSE IF o.out = 0 /\ trees = {} THEN o.cfg \o ":accepts-what-the-written-out-grammar-rejects"
       \* (an LALR rejection of a sentence is a matter of conflicts - C02 -, not of imports)
       ELSE IF o.out = 1 /\ trees # {} /\ o.cfg = "earley/dynamic" THEN o.cfg \o ":rejects-what-the-written-out-grammar-accepts"
       ELSE IF o.out = 0 /\ o.tree \notin trees THEN o.cfg \o ":tree-differs-from-the-written-out-grammar"
       ELSE JudgeObs(obs, trees, k + 1)
Init == tid \in 1..NCases /\ ii = 0 /\ verdict = "ok"
Next ==
  /\ ii < Len(Cases[tid].inputs)
  /\ ii' = ii + 1
  /\ LET c == Cases[tid]
         inp == c.inputs[ii + 1]
         G == Assemble(c.sys)
         w == [i \in DOMAIN inp.w |-> FinalName(c.sys, inp.w[i][1], inp.w[i][2])]
         v == JudgeObs(inp.obs, TreesOfInput(G, w), 1)
     IN verdict' = Verdict(tid, ii + 1, v = "ok", v, ii + 1)
  /\ UNCHANGED tid
Spec == Init /\ [][Next]_<<tid, ii, verdict>>
VerdictOk == verdict = "ok"
=============================================================================
