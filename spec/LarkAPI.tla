------------------------------- MODULE LarkAPI ------------------------------
(***************************************************************************)
(* A Lark instance as shared memory: the cells that calls on one instance  *)
(* share, and the code that touches them at source-line grain.             *)
(*                                                                         *)
(* Cells (lark/lexer.py BasicLexer): _scanner (lazily built), callback     *)
(* (dict terminal -> callback: keyword/unless callbacks merged with the    *)
(* user's lexer_callbacks).  A call that lexes runs                        *)
(*   scanner property : if _scanner is None: _scanner = _build_scanner()   *)
(*   _build_scanner   : [publish-early design, the pinned code]            *)
(*                        self.callback = unless-callbacks        (create) *)
(*                        self.callback[...] = user callbacks     (merge)  *)
(*                      [publish-late design, after the fix]               *)
(*                        build the complete dict locally, then            *)
(*                        self.callback = dict                    (create) *)
(*   next_token       : for every token: cb = self.callback.get(type)      *)
(* A token is "right" iff the user callback was applied to it (that is     *)
(* what a fresh instance does).                                            *)
(***************************************************************************)
EXTENDS Integers, Sequences, FiniteSets, TLC

CONSTANTS Threads, NTokens, PublishLate

VARIABLES scanner,    \* "none" | "built"
          callback,   \* "none" | "base" (without the user's callbacks) | "full"
          pc,         \* per thread
          left,       \* per thread: tokens still to lex
          wrong       \* per thread: saw a token without the user callback
vars == <<scanner, callback, pc, left, wrong>>

Init == /\ scanner = "none" /\ callback = "none"
        /\ pc = [t \in Threads |-> "check"] /\ left = [t \in Threads |-> NTokens] /\ wrong = [t \in Threads |-> FALSE]

Check(t) ==  \* `if self._scanner is None`
  /\ pc[t] = "check" /\ pc' = [pc EXCEPT ![t] = IF scanner = "none" THEN "create" ELSE "lex"]
  /\ UNCHANGED <<scanner, callback, left, wrong>>
Create(t) == \* terminals, self.callback = _create_unless(...)      (or, publish-late: the finished dict)
  /\ pc[t] = "create"
  /\ callback' = IF PublishLate THEN "full" ELSE "base"
  /\ pc' = [pc EXCEPT ![t] = IF PublishLate THEN "publish" ELSE "merge"]
  /\ UNCHANGED <<scanner, left, wrong>>
Merge(t) ==  \* for type_, f in self.user_callbacks.items(): self.callback[type_] = ...   (in place)
  /\ pc[t] = "merge" /\ callback' = "full" /\ pc' = [pc EXCEPT ![t] = "publish"]
  /\ UNCHANGED <<scanner, left, wrong>>
Publish(t) == \* self._scanner = Scanner(...)
  /\ pc[t] = "publish" /\ scanner' = "built" /\ pc' = [pc EXCEPT ![t] = "lex"]
  /\ UNCHANGED <<callback, left, wrong>>
Lex(t) ==    \* one token: looks the callback up in self.callback
  /\ pc[t] = "lex" /\ left[t] > 0
  /\ wrong' = [wrong EXCEPT ![t] = @ \/ callback # "full"]
  /\ left' = [left EXCEPT ![t] = @ - 1]
  /\ pc' = [pc EXCEPT ![t] = IF left[t] = 1 THEN "done" ELSE "lex"]
  /\ UNCHANGED <<scanner, callback>>

Next == \E t \in Threads : Check(t) \/ Create(t) \/ Merge(t) \/ Publish(t) \/ Lex(t)
Spec == Init /\ [][Next]_vars /\ WF_vars(Next)

\* every call returns what a fresh instance returns
ResultIsDenote == \A t \in Threads : ~wrong[t]
AllFinish == <>(\A t \in Threads : pc[t] = "done")
=============================================================================
