------------------------------ MODULE MC_Resolve ----------------------------
(* Resolve.tla on every grammar of <= MaxRules rules over {s,a} x {X,Y} without derivation cycles, every assignment of rule
   priorities from Prios, every input up to MaxLen:  the resolved tree is a derivation (always) and, where the grammar has no
   empty rule, one of greatest summed priority.  With empty rules the first component of the sort key (non-empty first)
   overrides priorities: OptimalEvenWithEmptyRules is refuted (the reading of C05 in DESIGN.md). *)
EXTENDS Resolve, FiniteSetsExt, SequencesExt, TLC
CONSTANTS MaxRules, MaxLen, Prios
NT == {"s", "a"}
T == {"X", "Y"}
Syms == NT \cup T
Rhss == UNION {[1..m -> Syms] : m \in 0..2}
Cand == {[lhs |-> A, rhs |-> r] : A \in NT, r \in Rhss}
WellFormed(G) == (\E r \in G : r.lhs = "s") /\ \A r \in G : \A x \in Range(r.rhs) : x \in NT => \E q \in G : q.lhs = x
Grammars == {G \in UNION {kSubset(m, Cand) : m \in 1..MaxRules} : WellFormed(G)}
Inputs == UNION {[1..m -> T] : m \in 0..MaxLen}
VARIABLES rules, P, w
Init == /\ \E G \in Grammars : rules = SetToSeq(G)
        /\ ~DerivCyclic(rules)
        /\ w \in Inputs
        /\ Cardinality(Derivs(rules, "s", w)) > 1                 \* only ambiguous inputs are of interest
        /\ P \in [DOMAIN rules -> Prios]
Next == UNCHANGED <<rules, P, w>>
Spec == Init /\ [][Next]_<<rules, P, w>>
Res == FRun(rules, "s", w)
Ds == Derivs(rules, "s", w)
Got == ResolvedAt(rules, Res[2], P, Root("s", w))
NoEmptyRule == \A r \in DOMAIN rules : rules[r].rhs # <<>>
ResolvedIsDerivation == Got # {} /\ Got \subseteq Ds
Optimal == NoEmptyRule => \A t \in Got : \A d \in Ds : TreePrio(P, d) <= TreePrio(P, t)
OptimalEvenWithEmptyRules == \A t \in Got : \A d \in Ds : TreePrio(P, d) <= TreePrio(P, t)
=============================================================================
