------------------------------- MODULE Compile ------------------------------
(***************************************************************************)
(* L1 of C03/C01/C09: lark's compilation of a grammar written in EBNF to   *)
(* BNF rules with options  (load_grammar.py: EBNF_to_BNF, then             *)
(* SimplifyRule_Visitor, then Grammar.compile).                            *)
(*                                                                         *)
(* An expression is compiled to the LIST OF ALTERNATIVES it stands for,    *)
(* each a sequence of symbols - the two passes merged:                     *)
(*   x?      alternatives of x, and the empty one                          *)
(*   [x]     alternatives of x, and one made of as many <EMPTY> markers as *)
(*           x can keep symbols (FindRuleSize = EBNF.KeptSize); without    *)
(*           maybe_placeholders like x?                                    *)
(*   x+ x*   a helper rule  h: x | h x  named __<rule>_<plus|star>_<i>,    *)
(*           shared by equal sub-expressions of rules that agree on        *)
(*           keep_all_tokens (rules_cache); x* is  h | (empty)             *)
(*   x~n..m  for every k in n..m, k copies of x side by side (below the    *)
(*           threshold of 50; above it: Repeat.tla)                        *)
(*   a b c   the alternatives of the items distributed, the first item     *)
(*           varying slowest;  (a|b)  their lists one after the other;     *)
(*           duplicates removed, first kept                                *)
(* A rule's alternatives become Rule(origin, expansion without the         *)
(* markers, order, alias, options) where an alternative with markers gets  *)
(* its own empty_indices; rules with equal origin and expansion are one    *)
(* (the first; only legal when the expansion is empty).  Helper rules are  *)
(* appended after the rules of the grammar, in the order of creation.      *)
(*                                                                         *)
(* Helper rules are numbered in the order EBNF_to_BNF meets their x* / x+   *)
(* nodes: deepest first (see below), one counter for the whole grammar.     *)
(***************************************************************************)
EXTENDS EBNF, TLC
B == INSTANCE Matcher          \* TreeBuilder.Callback, CFG.Derivs, Shape (no constants)

Sym(name, isterm, fo, inl) == [name |-> name, isterm |-> isterm, filter_out |-> fo, inl |-> inl, empty |-> FALSE]
EmptyMark == [name |-> "<EMPTY>", isterm |-> TRUE, filter_out |-> FALSE, inl |-> FALSE, empty |-> TRUE]
RECURSIVE DedupFrom(_, _)
DedupFrom(s, i) == IF i > Len(s) THEN <<>> ELSE (IF \E q \in 1..(i - 1) : s[q] = s[i] THEN <<>> ELSE <<s[i]>>) \o DedupFrom(s, i + 1)
Dedup(s) == DedupFrom(s, 1)
RECURSIVE Cat(_, _)
Cat(ss, i) == IF i > Len(ss) THEN <<>> ELSE ss[i] \o Cat(ss, i + 1)
\* all ways to pick one alternative per item, the first item varying slowest, each pick concatenated
RECURSIVE Cross(_, _)
Cross(lists, i) ==
  IF i > Len(lists) THEN << <<>> >>
  ELSE LET rest == Cross(lists, i + 1) IN Cat([a \in DOMAIN lists[i] |-> [r \in DOMAIN rest |-> lists[i][a] \o rest[r]]], 1)
Copies(x, k) == [q \in 1..k |-> x]

Lookup(cache, key) == {c[2] : c \in {d \in cache : d[1] = key}}

\* ---- where the helper rules get their numbers ---------------------------------------------------------------------------
\* EBNF_to_BNF is a Transformer_InPlace: Tree.iter_subtrees() lists the nodes of the rule's tree breadth-first and the list is
\* walked backwards, every node transforming its children left to right.  So the x* / x+ nodes of one rule are compiled
\* DEEPEST FIRST, and left to right among nodes of equal depth - depth counted in lark's own tree of the rule:
\*    expansions > [alias >] expansion > expr > ( group: expansions > expansion | maybe > expansions > expansion ) > ...
\* A node is named by its path in the expression (seq item i / alternative i / operand 0).
\* ItemNodes(e, d, path): e is an item of an `expansion` node at depth d.  -> set of <<depth, path>> of its unbounded repetitions
RECURSIVE ItemNodes(_, _, _), AtomNodes(_, _, _), ItemsOf(_, _, _)
ItemsOf(x, d, path) ==              \* x written as the content of ONE expansion at depth d
  IF x.k = "seq" THEN UNION {ItemNodes(x.items[i], d, Append(path, i)) : i \in DOMAIN x.items} ELSE ItemNodes(x, d, path)
AtomNodes(x, dx, path) ==           \* x is the operand of an expr node at depth dx
  CASE x.k \in {"tok", "rule"} -> {}
    [] x.k = "alt" -> UNION {ItemsOf(x.alts[i], dx + 2, Append(path, i)) : i \in DOMAIN x.alts}              \* ( a | b ): expansions, expansion
    [] x.k = "maybe" -> ItemsOf(x.x, dx + 3, Append(path, 0))                                                \* [ .. ]: maybe, expansions, expansion
    [] OTHER -> ItemsOf(x, dx + 2, path)                                                                      \* ( .. ) added by the writer: expansions, expansion
ItemNodes(e, d, path) ==
  CASE e.k \in {"tok", "rule"} -> {}
    [] e.k = "opt" -> AtomNodes(e.x, d + 1, Append(path, 0))
    [] e.k = "rep" -> (IF e.m < 0 THEN {<<d + 1, path>>} ELSE {}) \cup AtomNodes(e.x, d + 1, Append(path, 0))
    [] e.k = "maybe" -> ItemsOf(e.x, d + 3, Append(path, 0))
    [] e.k = "alt" -> UNION {ItemsOf(e.alts[i], d + 2, Append(path, i)) : i \in DOMAIN e.alts}
    [] e.k = "seq" -> ItemsOf(e, d, path)                    \* (the writer puts a sequence inside a sequence without brackets)
\* lexicographic order of paths
RECURSIVE PathLess(_, _)
PathLess(a, b) == IF a = <<>> THEN b # <<>> ELSE IF b = <<>> THEN FALSE ELSE IF a[1] # b[1] THEN a[1] < b[1] ELSE PathLess(Tail(a), Tail(b))
Before(m, n) == m[1] > n[1] \/ (m[1] = n[1] /\ PathLess(m[2], n[2]))
RECURSIVE SortNodes(_)
SortNodes(S) == IF S = {} THEN <<>> ELSE LET f == CHOOSE x \in S : \A y \in S \ {x} : Before(x, y) IN <<f>> \o SortNodes(S \ {f})
RECURSIVE NodeAt(_, _)
NodeAt(e, path) ==
  IF path = <<>> THEN e
  ELSE CASE e.k = "seq" -> NodeAt(e.items[path[1]], Tail(path))
         [] e.k = "alt" -> NodeAt(e.alts[path[1]], Tail(path))
         [] OTHER -> NodeAt(e.x, Tail(path))

\* names: set of <<path, name>> of the unbounded repetitions already compiled in this rule alternative set
RECURSIVE CompileE(_, _, _, _, _), CompileList(_, _, _, _, _, _)
\* -> the list of alternatives of e (pure: helper names are looked up by path)
CompileE(G, e, ka, names, path) ==
  CASE e.k = "tok"  -> << <<Sym(e.name, TRUE, ~e.keep, FALSE)>> >>
    [] e.k = "rule" -> << <<Sym(e.name, FALSE, FALSE, RuleNamed(G, e.name).inline)>> >>
    [] e.k = "seq"  -> Dedup(Cross(CompileList(G, e.items, 1, ka, names, path), 1))
    [] e.k = "alt"  -> Dedup(Cat(CompileList(G, e.alts, 1, ka, names, path), 1))
    [] e.k = "opt"  -> Dedup(Append(CompileE(G, e.x, ka, names, Append(path, 0)), <<>>))
    [] e.k = "maybe" ->
         IF G.ph THEN Dedup(Append(CompileE(G, e.x, ka, names, Append(path, 0)), Copies(EmptyMark, KeptSize(G, e.x, ka))))
         ELSE Dedup(Append(CompileE(G, e.x, ka, names, Append(path, 0)), <<>>))
    [] e.k = "rep" /\ e.m < 0 ->
         LET h == Sym(CHOOSE n \in Lookup(names, path) : TRUE, FALSE, FALSE, TRUE) IN IF e.n = 0 THEN << <<h>>, <<>> >> ELSE << <<h>> >>
    [] e.k = "rep" /\ e.m >= 0 ->
         LET a == CompileE(G, e.x, ka, names, Append(path, 0)) IN
         Dedup(Cat([k \in 1..(e.m - e.n + 1) |-> Cross(Copies(a, e.n + k - 1), 1)], 1))
CompileList(G, es, i, ka, names, path) ==
  IF i > Len(es) THEN <<>> ELSE <<CompileE(G, es[i], ka, names, Append(path, i))>> \o CompileList(G, es, i + 1, ka, names, path)

\* name the x* / x+ nodes of one rule (all its alternatives form ONE tree) in lark's order, creating or re-using helper rules
\* st: [i, cache: set of <<key, name>>, new: Seq([name, alts, keepall])]
RECURSIVE NameNodes(_, _, _, _, _, _, _)
NameNodes(G, r, ka, nodes, k, names, st) ==
  IF k > Len(nodes) THEN [names |-> names, st |-> st]
  ELSE LET path == nodes[k][2]
           e == NodeAt(r.alts[path[1]].body, Tail(path))
           inner == CompileE(G, e.x, ka, names, Append(path, 0))
           \* rules_cache is keyed by the operand's TREE (and keep_all_tokens): equal trees = equal sub-expressions as written
           \* ( (A | A)+ does not share the helper of A+ although both compile to the same alternatives )
           key == <<e.x, ka>>
           hit == Lookup(st.cache, key)
           name == IF hit # {} THEN CHOOSE n \in hit : TRUE
                   ELSE "__" \o r.name \o "_" \o (IF e.n = 0 THEN "star" ELSE "plus") \o "_" \o ToString(st.i)
           h == Sym(name, FALSE, FALSE, TRUE)
           st2 == IF hit # {} THEN st
                  ELSE [i |-> st.i + 1, cache |-> st.cache \cup {<<key, name>>},
                        new |-> Append(st.new, [name |-> name, keepall |-> ka, alts |-> Dedup(inner \o [q \in DOMAIN inner |-> <<h>> \o inner[q]])])]
       IN NameNodes(G, r, ka, nodes, k + 1, names \cup {<<path, name>>}, st2)
RuleNodes(r) == UNION {ItemsOf(r.alts[a].body, IF r.alts[a].alias # "" THEN 2 ELSE 1, <<a>>) : a \in DOMAIN r.alts}

\* one compiled rule, in the shape TreeBuilder.tla / Matcher.tla / CFG.tla read
MkRule(origin, alias, e1, helper, keepall, expansion, ph) ==
  LET syms == SelectSeq(expansion, LAMBDA x : ~x.empty)
      marks == [q \in DOMAIN expansion |-> expansion[q].empty]
  IN [lhs |-> origin, rhs |-> [q \in DOMAIN syms |-> syms[q].name], origin |-> origin, alias |-> alias,
      label |-> IF alias # "" THEN alias ELSE origin, hasalias |-> alias # "", expand1 |-> e1, keepall |-> keepall, helper |-> helper,
      empty |-> IF ph /\ \E q \in DOMAIN marks : marks[q] THEN marks ELSE <<>>,
      syms |-> [q \in DOMAIN syms |-> [name |-> syms[q].name, isterm |-> syms[q].isterm, filter_out |-> syms[q].filter_out, inl |-> syms[q].inl]]]

\* the rules of the grammar in definition order (threading the helper state), then the helpers in order of creation
RECURSIVE CompileRules(_, _, _)
CompileRules(G, k, st) ==
  IF k > Len(G.rules) THEN [rules |-> <<>>, st |-> st]
  ELSE LET r == G.rules[k]
           ka == r.keepall \/ G.ka
           nn == NameNodes(G, r, ka, SortNodes(RuleNodes(r)), 1, {}, st)
           mine == Cat([a \in DOMAIN r.alts |->
                          LET c == CompileE(G, r.alts[a].body, ka, nn.names, <<a>>)
                          IN [q \in DOMAIN c |-> MkRule(r.name, r.alts[a].alias, r.expand1, r.inline, ka, c[q], G.ph)]], 1)
           rest == CompileRules(G, k + 1, nn.st)
       IN [rules |-> mine \o rest.rules, st |-> rest.st]
SameRule(a, b) == a.origin = b.origin /\ a.rhs = b.rhs
RECURSIVE DedupRules(_, _)
DedupRules(rs, i) ==
  IF i > Len(rs) THEN <<>> ELSE (IF \E q \in 1..(i - 1) : SameRule(rs[q], rs[i]) THEN <<>> ELSE <<rs[i]>>) \o DedupRules(rs, i + 1)
Compiled(G) ==
  LET c == CompileRules(G, 1, [i |-> 0, cache |-> {}, new |-> <<>>])
      helpers == Cat([h \in DOMAIN c.st.new |->
                        [q \in DOMAIN c.st.new[h].alts |-> MkRule(c.st.new[h].name, "", FALSE, TRUE, c.st.new[h].keepall, c.st.new[h].alts[q], G.ph)]], 1)
  IN DedupRules(c.rules \o helpers, 1)
\* "Rules defined twice": two alternatives of a rule with the same NON-EMPTY expansion - lark refuses the grammar
DefinedTwice(G) ==
  LET c == CompileRules(G, 1, [i |-> 0, cache |-> {}, new |-> <<>>]) IN
  \E a, b \in DOMAIN c.rules : a < b /\ SameRule(c.rules[a], c.rules[b]) /\ c.rules[a].rhs # <<>>

\* ---- what the compiled grammar means: derivations of CFG.tla shaped by TreeBuilder.tla, as EBNF.tla values --------------
RECURSIVE To4(_)
To4(v) == IF v[1] = "T" THEN <<"T", v[2], v[4][1], <<>>>>
          ELSE IF v[1] = "N" THEN NoneV
          ELSE <<"R", v[2], 0, [q \in DOMAIN v[3] |-> To4(v[3][q])]>>
CompiledTrees(G, w) ==
  LET cg == Compiled(G)
      plain == [r \in DOMAIN cg |-> [lhs |-> cg[r].lhs, rhs |-> cg[r].rhs]]
  IN {To4(B!Shape(cg, d)) : d \in B!Derivs(plain, G.start, w)}
=============================================================================
