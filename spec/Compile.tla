------------------------------- MODULE Compile ------------------------------
(***************************************************************************)
(* L1 of C03/C01/C09: lark's compilation of a grammar written in EBNF to   *)
(* BNF rules with options  (load_grammar.py: EBNF_to_BNF, then             *)
(* SimplifyRule_Visitor, then Grammar.compile).                            *)
(*                                                                         *)
(* An expression is compiled to the LIST OF ALTERNATIVES it stands for,    *)
(* each a sequence of symbols - the two passes merged:                     *)
(*   x?      alternatives of x, and the empty one                          *)
(*   [x]     alternatives of x, and one made of as many <EMPTY> markers as *)
(*           x can keep symbols (FindRuleSize = EBNF.KeptSize); without    *)
(*           maybe_placeholders like x?                                    *)
(*   x+ x*   a helper rule  h: x | h x  named __<rule>_<plus|star>_<i>,    *)
(*           shared by equal sub-expressions of rules that agree on        *)
(*           keep_all_tokens (rules_cache); x* is  h | (empty)             *)
(*   x~n..m  for every k in n..m, k copies of x side by side (below the    *)
(*           threshold of 50; above it: Repeat.tla)                        *)
(*   a b c   the alternatives of the items distributed, the first item     *)
(*           varying slowest;  (a|b)  their lists one after the other;     *)
(*           duplicates removed, first kept                                *)
(* A rule's alternatives become Rule(origin, expansion without the         *)
(* markers, order, alias, options) where an alternative with markers gets  *)
(* its own empty_indices; rules with equal origin and expansion are one    *)
(* (the first; only legal when the expansion is empty).  Helper rules are  *)
(* appended after the rules of the grammar, in the order of creation.      *)
(*                                                                         *)
(* st: [i, cache: set of <<key, name>>, new: Seq([name, alts, keepall])]   *)
(***************************************************************************)
EXTENDS EBNF, TLC
B == INSTANCE Matcher          \* TreeBuilder.Callback, CFG.Derivs, Shape (no constants)

Sym(name, isterm, fo, inl) == [name |-> name, isterm |-> isterm, filter_out |-> fo, inl |-> inl, empty |-> FALSE]
EmptyMark == [name |-> "<EMPTY>", isterm |-> TRUE, filter_out |-> FALSE, inl |-> FALSE, empty |-> TRUE]
RECURSIVE DedupFrom(_, _)
DedupFrom(s, i) == IF i > Len(s) THEN <<>> ELSE (IF \E q \in 1..(i - 1) : s[q] = s[i] THEN <<>> ELSE <<s[i]>>) \o DedupFrom(s, i + 1)
Dedup(s) == DedupFrom(s, 1)
RECURSIVE Cat(_, _)
Cat(ss, i) == IF i > Len(ss) THEN <<>> ELSE ss[i] \o Cat(ss, i + 1)
\* all ways to pick one alternative per item, the first item varying slowest, each pick concatenated
RECURSIVE Cross(_, _)
Cross(lists, i) ==
  IF i > Len(lists) THEN << <<>> >>
  ELSE LET rest == Cross(lists, i + 1) IN Cat([a \in DOMAIN lists[i] |-> [r \in DOMAIN rest |-> lists[i][a] \o rest[r]]], 1)
Copies(x, k) == [q \in 1..k |-> x]

Lookup(cache, key) == {c[2] : c \in {d \in cache : d[1] = key}}

RECURSIVE CompileE(_, _, _, _, _), CompileSeq(_, _, _, _, _, _)
\* -> [alts, st]
CompileE(G, e, prefix, ka, st) ==
  CASE e.k = "tok"  -> [alts |-> << <<Sym(e.name, TRUE, ~e.keep, FALSE)>> >>, st |-> st]
    [] e.k = "rule" -> [alts |-> << <<Sym(e.name, FALSE, FALSE, RuleNamed(G, e.name).inline)>> >>, st |-> st]
    [] e.k = "seq"  -> LET r == CompileSeq(G, e.items, 1, prefix, ka, st) IN [alts |-> Dedup(Cross(r.lists, 1)), st |-> r.st]
    [] e.k = "alt"  -> LET r == CompileSeq(G, e.alts, 1, prefix, ka, st) IN [alts |-> Dedup(Cat(r.lists, 1)), st |-> r.st]
    [] e.k = "opt"  -> LET r == CompileE(G, e.x, prefix, ka, st) IN [alts |-> Dedup(Append(r.alts, <<>>)), st |-> r.st]
    [] e.k = "maybe" ->
         LET r == CompileE(G, e.x, prefix, ka, st) IN
         IF G.ph THEN [alts |-> Dedup(Append(r.alts, Copies(EmptyMark, KeptSize(G, e.x, ka \/ G.ka)))), st |-> r.st]
         ELSE [alts |-> Dedup(Append(r.alts, <<>>)), st |-> r.st]
    [] e.k = "rep" /\ e.m < 0 ->
         LET r == CompileE(G, e.x, prefix, ka, st)
             key == <<r.alts, ka>>
             hit == Lookup(r.st.cache, key)
             kind == IF e.n = 0 THEN "star" ELSE "plus"
             name == IF hit # {} THEN CHOOSE n \in hit : TRUE ELSE "__" \o prefix \o "_" \o kind \o "_" \o ToString(r.st.i)
             h == Sym(name, FALSE, FALSE, TRUE)
             st2 == IF hit # {} THEN r.st
                    ELSE [i |-> r.st.i + 1, cache |-> r.st.cache \cup {<<key, name>>},
                          new |-> Append(r.st.new, [name |-> name, keepall |-> ka,
                                                    alts |-> Dedup(r.alts \o [q \in DOMAIN r.alts |-> <<h>> \o r.alts[q]])])]
         IN [alts |-> IF e.n = 0 THEN << <<h>>, <<>> >> ELSE << <<h>> >>, st |-> st2]
    [] e.k = "rep" /\ e.m >= 0 ->
         LET r == CompileE(G, e.x, prefix, ka, st) IN
         [alts |-> Dedup(Cat([k \in 1..(e.m - e.n + 1) |-> Cross(Copies(r.alts, e.n + k - 1), 1)], 1)), st |-> r.st]
\* the items of a sequence / the alternatives of an alternation, left to right, threading the state
CompileSeq(G, es, i, prefix, ka, st) ==
  IF i > Len(es) THEN [lists |-> <<>>, st |-> st]
  ELSE LET r == CompileE(G, es[i], prefix, ka, st)
           rest == CompileSeq(G, es, i + 1, prefix, ka, r.st)
       IN [lists |-> <<r.alts>> \o rest.lists, st |-> rest.st]

\* one compiled rule, in the shape TreeBuilder.tla / Matcher.tla / CFG.tla read
MkRule(origin, alias, e1, helper, keepall, expansion, ph) ==
  LET syms == SelectSeq(expansion, LAMBDA x : ~x.empty)
      marks == [q \in DOMAIN expansion |-> expansion[q].empty]
  IN [lhs |-> origin, rhs |-> [q \in DOMAIN syms |-> syms[q].name], origin |-> origin, alias |-> alias,
      label |-> IF alias # "" THEN alias ELSE origin, hasalias |-> alias # "", expand1 |-> e1, keepall |-> keepall, helper |-> helper,
      empty |-> IF ph /\ \E q \in DOMAIN marks : marks[q] THEN marks ELSE <<>>,
      syms |-> [q \in DOMAIN syms |-> [name |-> syms[q].name, isterm |-> syms[q].isterm, filter_out |-> syms[q].filter_out, inl |-> syms[q].inl]]]

\* the rules of the grammar in definition order (threading the helper state), then the helpers in order of creation
RECURSIVE CompileRules(_, _, _), CompileAlts(_, _, _, _, _)
CompileAlts(G, r, a, ka, st) ==
  IF a > Len(r.alts) THEN [rules |-> <<>>, st |-> st]
  ELSE LET c == CompileE(G, r.alts[a].body, r.name, ka, st)
           mine == [q \in DOMAIN c.alts |-> MkRule(r.name, r.alts[a].alias, r.expand1, r.inline, ka, c.alts[q], G.ph)]
           rest == CompileAlts(G, r, a + 1, ka, c.st)
       IN [rules |-> mine \o rest.rules, st |-> rest.st]
CompileRules(G, k, st) ==
  IF k > Len(G.rules) THEN [rules |-> <<>>, st |-> st]
  ELSE LET r == G.rules[k]
           c == CompileAlts(G, r, 1, r.keepall \/ G.ka, st)
           rest == CompileRules(G, k + 1, c.st)
       IN [rules |-> c.rules \o rest.rules, st |-> rest.st]
SameRule(a, b) == a.origin = b.origin /\ a.rhs = b.rhs
RECURSIVE DedupRules(_, _)
DedupRules(rs, i) ==
  IF i > Len(rs) THEN <<>> ELSE (IF \E q \in 1..(i - 1) : SameRule(rs[q], rs[i]) THEN <<>> ELSE <<rs[i]>>) \o DedupRules(rs, i + 1)
Compiled(G) ==
  LET c == CompileRules(G, 1, [i |-> 0, cache |-> {}, new |-> <<>>])
      helpers == Cat([h \in DOMAIN c.st.new |->
                        [q \in DOMAIN c.st.new[h].alts |-> MkRule(c.st.new[h].name, "", FALSE, TRUE, c.st.new[h].keepall, c.st.new[h].alts[q], G.ph)]], 1)
  IN DedupRules(c.rules \o helpers, 1)
\* "Rules defined twice": two alternatives of a rule with the same NON-EMPTY expansion - lark refuses the grammar
DefinedTwice(G) ==
  LET c == CompileRules(G, 1, [i |-> 0, cache |-> {}, new |-> <<>>]) IN
  \E a, b \in DOMAIN c.rules : a < b /\ SameRule(c.rules[a], c.rules[b]) /\ c.rules[a].rhs # <<>>

\* ---- what the compiled grammar means: derivations of CFG.tla shaped by TreeBuilder.tla, as EBNF.tla values --------------
RECURSIVE To4(_)
To4(v) == IF v[1] = "T" THEN <<"T", v[2], v[4][1], <<>>>>
          ELSE IF v[1] = "N" THEN NoneV
          ELSE <<"R", v[2], 0, [q \in DOMAIN v[3] |-> To4(v[3][q])]>>
CompiledTrees(G, w) ==
  LET cg == Compiled(G)
      plain == [r \in DOMAIN cg |-> [lhs |-> cg[r].lhs, rhs |-> cg[r].rhs]]
  IN {To4(B!Shape(cg, d)) : d \in B!Derivs(plain, G.start, w)}
=============================================================================
