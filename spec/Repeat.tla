------------------------------- MODULE Repeat ------------------------------
(***************************************************************************)
(* lark/load_grammar.py EBNF_to_BNF._generate_repeats and utils.small_factors *)
(* (L1), with each helper rule abstracted to the set of repetition counts  *)
(* it matches; L0: x~mn..mx matches exactly mn..mx occurrences.            *)
(***************************************************************************)
EXTENDS Integers, Sequences, FiniteSets

SMALL == 5          \* SMALL_FACTOR_THRESHOLD
BREAK == 50         \* REPEAT_BREAK_THRESHOLD

\* small_factors(n, max_factor): [(a,b), ...] with  n = fold(x -> x*a + b) from 1
RECURSIVE SmallFactors(_)
SmallFactors(n) ==
  IF n <= SMALL THEN << <<n, 0>> >>
  ELSE LET good == {a \in 2..SMALL : a + (n % a) <= SMALL}
           a == CHOOSE x \in good : \A y \in good : y <= x           \* for a in range(max_factor, 1, -1): first hit
       IN SmallFactors(n \div a) \o << <<a, n % a>> >>

RECURSIVE Refold(_, _, _)
Refold(fs, k, x) == IF k > Len(fs) THEN x ELSE Refold(fs, k + 1, x * fs[k][1] + fs[k][2])

\* _add_repeat_rule(a, b, target, atom): target^a atom^b   (target matches exactly t atoms)
RepeatRule(a, b, t) == a * t + b
\* _add_repeat_opt_rule(a, b, target, target_opt, atom): target^i target_opt (i < a) | target^a atom^i (i < b)
RepeatOptRule(a, b, t, O) == {i * t + o : i \in 0..(a - 1), o \in O} \cup {a * t + i : i \in 0..(b - 1)}

RECURSIVE MnTarget(_, _, _)
MnTarget(fs, k, t) == IF k > Len(fs) THEN t ELSE MnTarget(fs, k + 1, RepeatRule(fs[k][1], fs[k][2], t))

\* the loop over diff_factors[:-1] and the final opt rule; state <<target count, opt count set>>
RECURSIVE DiffLoop(_, _, _, _)
DiffLoop(fs, k, t, O) ==
  IF k = Len(fs) THEN RepeatOptRule(fs[k][1], fs[k][2], t, O)
  ELSE DiffLoop(fs, k + 1, RepeatRule(fs[k][1], fs[k][2], t), RepeatOptRule(fs[k][1], fs[k][2], t, O))

\* the set of counts the generated expression matches
GenerateRepeats(mn, mx) ==
  IF mx < BREAK THEN mn..mx
  ELSE LET mnT == MnTarget(SmallFactors(mn), 1, 1)
       IN IF mx = mn THEN {mnT}
          ELSE LET O == DiffLoop(SmallFactors(mx - mn + 1), 1, 1, {0}) IN {mnT + o : o \in O}

\* intermediate invariant of the loop: target_opt matches exactly 0 .. target-1
RECURSIVE OptIsPrefix(_, _, _, _)
OptIsPrefix(fs, k, t, O) ==
  /\ O = 0..(t - 1)
  /\ (k <= Len(fs) => OptIsPrefix(fs, k + 1, RepeatRule(fs[k][1], fs[k][2], t), RepeatOptRule(fs[k][1], fs[k][2], t, O)))
=============================================================================
