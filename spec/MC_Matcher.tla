------------------------------ MODULE MC_Matcher ----------------------------
(***************************************************************************)
(* Matcher.tla over a catalogue of small compiled grammars and every       *)
(* sentence up to MaxLen: every node the parser builds is matched          *)
(* (Matchable) and only by root rules made from the rule that built it     *)
(* (OriginExact) - except for the two known gaps, which the same run finds *)
(* when the exemptions are taken out (MatchableNoExemption,                *)
(* OriginExactNoExemption must be violated).                               *)
(***************************************************************************)
EXTENDS Matcher, TLC
CONSTANT MaxLen

K(n) == [name |-> n, isterm |-> TRUE, filter_out |-> FALSE, inl |-> FALSE]
F(n) == [name |-> n, isterm |-> TRUE, filter_out |-> TRUE, inl |-> FALSE]
N(n) == [name |-> n, isterm |-> FALSE, filter_out |-> FALSE, inl |-> FALSE]
H(n) == [name |-> n, isterm |-> FALSE, filter_out |-> FALSE, inl |-> TRUE]
R(origin, alias, e1, helper, syms) ==
  [lhs |-> origin, rhs |-> [i \in DOMAIN syms |-> syms[i].name], origin |-> origin, alias |-> alias,
   label |-> IF alias # "" THEN alias ELSE origin, hasalias |-> alias # "", expand1 |-> e1, keepall |-> FALSE, helper |-> helper,
   empty |-> <<>>, syms |-> syms]

Grammars == <<
  \* 1 plain rules, filtered tokens
  << R("start", "", FALSE, FALSE, <<K("A"), N("x"), F("c")>>), R("x", "", FALSE, FALSE, <<K("A")>>), R("x", "", FALSE, FALSE, <<K("B"), F("d"), N("x")>>) >>,
  \* 2 an inlined list  start: _l / _l: item | _l "c" item / item: A | "d" B
  << R("start", "", FALSE, FALSE, <<H("_l")>>), R("_l", "", FALSE, TRUE, <<N("item")>>), R("_l", "", FALSE, TRUE, <<H("_l"), F("c"), N("item")>>),
     R("item", "", FALSE, FALSE, <<K("A")>>), R("item", "", FALSE, FALSE, <<F("d"), K("B")>>) >>,
  \* 3 ?rules with operator alternatives  start: sum / ?sum: prod | sum "c" prod / ?prod: A | prod "d" A
  << R("start", "", FALSE, FALSE, <<N("sum")>>), R("sum", "", TRUE, FALSE, <<N("prod")>>), R("sum", "", TRUE, FALSE, <<N("sum"), F("c"), N("prod")>>),
     R("prod", "", TRUE, FALSE, <<K("A")>>), R("prod", "", TRUE, FALSE, <<N("prod"), F("d"), K("A")>>) >>,
  \* 4 aliases within one rule  start: x x / x: A -> one | A B -> two | B
  << R("start", "", FALSE, FALSE, <<N("x"), N("x")>>), R("x", "one", FALSE, FALSE, <<K("A")>>), R("x", "two", FALSE, FALSE, <<K("A"), K("B")>>),
     R("x", "", FALSE, FALSE, <<K("B")>>) >>,
  \* 5 a ?rule with an aliased alternative  start: z "c" z / ?z: A -> za | B B
  << R("start", "", FALSE, FALSE, <<N("z"), F("c"), N("z")>>), R("z", "za", TRUE, FALSE, <<K("A")>>), R("z", "", TRUE, FALSE, <<K("B"), K("B")>>) >>,
  \* 6 KNOWN GAP: a ?rule over an inlined repetition  start: A z / ?z: _h "d" / _h: B | _h B
  << R("start", "", FALSE, FALSE, <<K("A"), N("z")>>), R("z", "", TRUE, FALSE, <<H("_h"), F("d")>>), R("_h", "", FALSE, TRUE, <<K("B")>>),
     R("_h", "", FALSE, TRUE, <<H("_h"), K("B")>>) >>,
  \* 7 KNOWN GAP: an alias shared by alternatives of two rules  start: x -> al0 | "d" A -> al1 / x: A "c" | A -> al1
  << R("start", "al0", FALSE, FALSE, <<N("x")>>), R("start", "al1", FALSE, FALSE, <<F("d"), K("A")>>), R("x", "", FALSE, FALSE, <<K("A"), F("c")>>),
     R("x", "al1", FALSE, FALSE, <<K("A")>>) >>,
  \* 8 helper inside a ?rule alternative with other visible symbols  start: z / ?z: A _h | B / _h: B | _h B
  << R("start", "", FALSE, FALSE, <<N("z")>>), R("z", "", TRUE, FALSE, <<K("A"), H("_h")>>), R("z", "", TRUE, FALSE, <<K("B")>>),
     R("_h", "", FALSE, TRUE, <<K("B")>>), R("_h", "", FALSE, TRUE, <<H("_h"), K("B")>>) >>
>>

Terms == {"A", "B", "c", "d"}
VARIABLES gi, w
Init == gi \in DOMAIN Grammars /\ w \in UNION {[1..n -> Terms] : n \in 0..MaxLen}
Next == UNCHANGED <<gi, w>>
Spec == Init /\ [][Next]_<<gi, w>>

G == Grammars[gi]
Plain == [r \in DOMAIN G |-> [lhs |-> G[r].lhs, rhs |-> G[r].rhs]]
AllNodes == UNION {NodesOf(G, d) : d \in Derivs(Plain, "start", w)}

MatchableNoExemption == \A p \in AllNodes : MatchTree(G, p[1])
OriginExactNoExemption == \A p \in AllNodes : \A rho \in MatchingRoots(G, p[1]) : rho.o = G[p[2]].origin
Matchable == Expand1OverInlinedG(G) \/ MatchableNoExemption
OriginExact == LabelShared(G) \/ OriginExactNoExemption
\* the exemptions are about grammars 6 and 7 only
ExemptionsAreTheKnownGaps == (Expand1OverInlinedG(G) <=> gi = 6) /\ (LabelShared(G) <=> gi = 7)
=============================================================================
