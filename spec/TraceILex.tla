------------------------------ MODULE TraceILex -----------------------------
(***************************************************************************)
(* C13 spec -> code -> spec: behaviours exported from InteractiveLex.tla   *)
(* executed on real interactive parsers that lex their own text.  After    *)
(* every operation the harness recorded, for every live real handle, which *)
(* tokens of the text it has been fed (read off its value stack; for a     *)
(* finished handle off its result).  This module takes the same steps with *)
(* InteractiveLex's actions and compares: refinement step by step.         *)
(***************************************************************************)
EXTENDS InteractiveLex, TraceBase
VARIABLES tid, k, verdict
tvars == <<vars, tid, k, verdict>>

TraceInit == Init /\ tid \in 1..NCases /\ k = 0 /\ verdict = "ok"
Act(o) == CASE o.op = "step" -> Step(o.h)
            [] o.op \in {"copy", "immutable"} -> Fork(o.h, o.op)
            [] o.op = "resume" -> Resume(o.h)
            [] o.op = "exhaust" -> Exhaust(o.h)
Judge(s, h2) ==
  IF {s.fed[i][1] : i \in DOMAIN s.fed} # DOMAIN h2 THEN "live-handles-differ"
  ELSE IF \E i \in DOMAIN s.fed : s.fed[i][2] # h2[s.fed[i][1]] THEN "handle-was-fed-other-tokens-than-its-own-prefix-of-the-text"
  ELSE IF s.exc # "" THEN "operation-raised-" \o s.exc
  ELSE "ok"
TraceNext ==
  /\ k < Len(Cases[tid].steps)
  /\ k' = k + 1
  /\ LET s == Cases[tid].steps[k + 1] IN
     IF ENABLED Act(s.o)
     THEN /\ Act(s.o)
          /\ LET v == Judge(s, hist') IN verdict' = Verdict(tid, k + 1, v = "ok", v, s.o.op)
     ELSE /\ UNCHANGED vars
          /\ verdict' = Verdict(tid, k + 1, FALSE, "operation-not-enabled-in-the-specification", s.o.op)
  /\ UNCHANGED tid
TraceSpec == TraceInit /\ [][TraceNext]_tvars
VerdictOk == verdict = "ok"
=============================================================================
