----------------------------- MODULE TreeBuilder ----------------------------
(***************************************************************************)
(* L1 of C03 / C06(meta): what one reduction does to its children - the    *)
(* callback chain parse_tree_builder.ParseTreeBuilder builds for a rule of *)
(* the compiled grammar (LALR, no ambiguity):                              *)
(*                                                                         *)
(*   PropagatePositions( ChildFilter( ExpandSingleChild( Tree ) ) )        *)
(*                                                                         *)
(* rule : [origin, label (alias, else template source, else origin),       *)
(*         hasalias, expand1, keepall,                                     *)
(*         syms  : Seq([isterm, filter_out, inl (a _rule non-terminal)]),  *)
(*         empty : Seq(BOOLEAN)  (RuleOptions.empty_indices; <<>> when     *)
(*                 maybe_placeholders is off or the rule has none)]        *)
(* value: <<tag, label, children, span, cspan>>                            *)
(*         tag "T" token (span = cspan = <<start_pos, end_pos>>),          *)
(*             "R" tree  (span: meta.start_pos/end_pos, -1 = unset;        *)
(*                        cspan: meta.container_start_pos/_end_pos),       *)
(*             "N" None                                                    *)
(***************************************************************************)
EXTENDS Integers, Sequences, FiniteSets

Unset == <<-1, -1>>
None == <<"N", "", <<>>, Unset, Unset>>
Tok(type, s, e) == <<"T", type, <<>>, <<s, e>>, <<s, e>>>>
IsTree(v) == v[1] = "R"
IsTok(v) == v[1] = "T"
MetaEmpty(v) == v[4] = Unset                     \* Meta.empty: neither start nor end was ever set

\* ---- maybe_create_child_filter: how many Nones go before each kept symbol, and at the end ----------------------
\* empty_indices has one FALSE per symbol of the expansion, TRUEs (unmatched [..] items) in between
RECURSIVE NonesBefore(_, _, _)
\* number of TRUEs in `empty` directly before the k-th FALSE (k = 1..n), or after the last FALSE (k = n + 1)
NonesBefore(empty, k, pos) ==
  IF pos > Len(empty) THEN 0
  ELSE IF k = 1 THEN (IF empty[pos] THEN 1 + NonesBefore(empty, 1, pos + 1) ELSE 0)
  ELSE IF empty[pos] THEN NonesBefore(empty, k, pos + 1) ELSE NonesBefore(empty, k - 1, pos + 1)
NonesAt(rule, k) == IF rule.empty = <<>> THEN 0 ELSE NonesBefore(rule.empty, k, 1)

Kept(rule, i) == rule.keepall \/ ~(rule.syms[i].isterm /\ rule.syms[i].filter_out)
Nones(n) == [q \in 1..n |-> None]

\* ChildFilter*.__call__: kept children in order, the children of _rule trees spliced in, Nones where [..] did not match
\* (Nones that belong before a filtered symbol move to the next kept one, or to the end)
RECURSIVE Filter(_, _, _, _)
Filter(rule, kids, i, pending) ==
  IF i > Len(rule.syms) THEN Nones(pending + NonesAt(rule, i))
  ELSE LET p == pending + NonesAt(rule, i) IN
       IF ~Kept(rule, i) THEN Filter(rule, kids, i + 1, p)
       ELSE Nones(p) \o (IF rule.syms[i].inl THEN kids[i][3] ELSE <<kids[i]>>) \o Filter(rule, kids, i + 1, 0)

\* is a child filter created at all?  (otherwise the children go through untouched)
HasFilter(rule) ==
  \/ rule.empty # <<>>
  \/ \E i \in DOMAIN rule.syms : ~Kept(rule, i)
  \/ \E i \in DOMAIN rule.syms : Kept(rule, i) /\ rule.syms[i].inl
Filtered(rule, kids) == IF HasFilter(rule) THEN Filter(rule, kids, 1, 0) ELSE kids

\* ExpandSingleChild( Tree ): a ?rule without alias gives its only child, otherwise a fresh node (empty meta)
Node(rule, cs) ==
  IF rule.expand1 /\ ~rule.hasalias /\ Len(cs) = 1 THEN cs[1] ELSE <<"R", rule.label, cs, Unset, Unset>>

\* ---- PropagatePositions ------------------------------------------------------------------------------------------
\* _pp_get_meta over ALL children of the reduction (filtered tokens included): first token or tree with non-empty meta
Carriers(kids) == {i \in DOMAIN kids : IsTok(kids[i]) \/ (IsTree(kids[i]) /\ ~MetaEmpty(kids[i]))}
Min(S) == CHOOSE x \in S : \A y \in S : x <= y
Max(S) == CHOOSE x \in S : \A y \in S : x >= y
Propagate(res, kids) ==
  IF ~IsTree(res) \/ Carriers(kids) = {} THEN res
  ELSE LET f == kids[Min(Carriers(kids))]
           l == kids[Max(Carriers(kids))]
           fs == IF f[5][1] # -1 THEN f[5][1] ELSE f[4][1]     \* getattr(meta, 'container_start_pos', meta.start_pos)
           le == IF l[5][2] # -1 THEN l[5][2] ELSE l[4][2]
       IN <<"R", res[2], res[3],
            <<IF res[4][1] = -1 THEN fs ELSE res[4][1], IF res[4][2] = -1 THEN le ELSE res[4][2]>>,   \* own span: only if unset (an inlined ?rule child keeps its own)
            <<fs, le>>>>                                                                               \* container span: always

\* the whole callback of a rule (LALR; Earley with ambiguity='resolve')
Callback(rule, kids, pp) ==
  LET res == Node(rule, Filtered(rule, kids)) IN IF pp THEN Propagate(res, kids) ELSE res

\* ---- ambiguity='explicit' / 'forest' transformation: two more wrappers around the same chain ------------------------
\*   AmbiguousIntermediateExpander( AmbiguousExpander( PropagatePositions( ChildFilter( ExpandSingleChild( Tree )))))
IsAmbig(v) == IsTree(v) /\ v[2] = "_ambig"
RECURSIVE ConcatSeqs(_, _)
ConcatSeqs(ss, i) == IF i > Len(ss) THEN <<>> ELSE ss[i] \o ConcatSeqs(ss, i + 1)
AmbigNode(cs) == <<"R", "_ambig", cs, Unset, Unset>>
\* Tree.expand_kids_by_data('_ambig'): _ambig children of an _ambig child are alternatives of that child (one level)
FlattenAmbig(v) ==
  IF IsAmbig(v) THEN <<"R", "_ambig", ConcatSeqs([q \in DOMAIN v[3] |-> IF IsAmbig(v[3][q]) THEN v[3][q][3] ELSE <<v[3][q]>>], 1), v[4], v[5]>>
  ELSE v
\* maybe_create_ambiguous_expander: the positions whose _ambig child is distributed over copies of the parent
ToExpand(rule) == {i \in DOMAIN rule.syms : rule.keepall \/ (~(rule.syms[i].isterm /\ rule.syms[i].filter_out) /\ rule.syms[i].inl)}
\* itertools.product(*lists): the first list varies slowest
RECURSIVE Prod(_, _)
Prod(ls, i) ==
  IF i > Len(ls) THEN << <<>> >>
  ELSE LET rest == Prod(ls, i + 1) IN ConcatSeqs([a \in DOMAIN ls[i] |-> [r \in DOMAIN rest |-> <<ls[i][a]>> \o rest[r]]], 1)
AmbExpand(rule, kids, pp) ==
  IF ToExpand(rule) = {} THEN Callback(rule, kids, pp)                       \* no expander is created for this rule
  ELSE LET ks == [i \in DOMAIN kids |-> FlattenAmbig(kids[i])]              \* (in place, whether or not the child is distributed)
           amb == {i \in ToExpand(rule) \cap DOMAIN ks : IsAmbig(ks[i])}
       IN IF amb = {} THEN Callback(rule, ks, pp)
          ELSE LET combos == Prod([i \in DOMAIN ks |-> IF i \in amb THEN ks[i][3] ELSE <<ks[i]>>], 1)
               IN AmbigNode([c \in DOMAIN combos |-> Callback(rule, combos[c], pp)])
\* an ambiguous intermediate node (several ways to split the first symbols of the rule) arrives as an _iambig first child
\* whose _inter children hold the alternatives; nested ones are collapsed recursively
RECURSIVE Collapse(_)
Collapse(kids) ==
  IF kids # <<>> /\ IsTree(kids[1]) /\ kids[1][2] = "_iambig"
  THEN LET rest == Tail(kids)
           per(g) == LET col == Collapse(g[3]) IN IF col # <<>> THEN [q \in DOMAIN col |-> col[q] \o rest] ELSE << g[3] \o rest >>
       IN ConcatSeqs([q \in DOMAIN kids[1][3] |-> per(kids[1][3][q])], 1)
  ELSE <<>>
CallbackAmb(rule, kids, pp) ==
  LET col == Collapse(kids) IN
  IF col # <<>> THEN AmbigNode([q \in DOMAIN col |-> AmbExpand(rule, col[q], pp)]) ELSE AmbExpand(rule, kids, pp)
=============================================================================
