------------------------------- MODULE TraceAPI -----------------------------
(* C10 code -> spec: every call on a (re)used or concurrently used Lark instance - ev: thread (0 sequential history,
   1.. threads under the scheduler), res = digest of what the call returned / raised, fresh = digest of what a fresh
   instance returns for the same call.  LarkAPI.tla's ResultIsDenote, on the real results. *)
EXTENDS Integers, Sequences, TraceBase
VARIABLES tid, ei, verdict
Init == tid \in 1..NCases /\ ei = 0 /\ verdict = "ok"
Next ==
  /\ ei < Len(Cases[tid].evs)
  /\ ei' = ei + 1
  /\ LET e == Cases[tid].evs[ei + 1]
         v == IF e.res = "HUNG" THEN "threads-did-not-finish"
              ELSE IF e.res # e.fresh THEN (IF e.thread = 0 THEN "result-depends-on-earlier-calls" ELSE "result-depends-on-a-concurrent-call")
              ELSE "ok"
     IN verdict' = Verdict(tid, ei + 1, v = "ok", v, e.thread)
  /\ UNCHANGED tid
Spec == Init /\ [][Next]_<<tid, ei, verdict>>
VerdictOk == verdict = "ok"
=============================================================================
