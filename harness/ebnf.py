"""F_ebnf: lark grammars generated from an AST (the AST is what EBNF.tla interprets; the text is what lark reads)."""
import random

TERMS = {'A': 'a', 'B': 'b', '_C': 'c', 'D': 'd'}      # D is the anonymous string "d" (lark names it D)
TERM_DEFS = 'A: "a"\nB: "b"\n_C: "c"\n'
CHARS = {'A': 'a', 'B': 'b', '_C': 'c', 'D': 'd', 'X': 'x', 'Y': 'y', 'Z': 'z'}


def tok(name):
    return {'k': 'tok', 'name': name, 'keep': name in ('A', 'B')}


def ref(name):
    return {'k': 'rule', 'name': name}


def seq(items):
    return {'k': 'seq', 'items': items}


def alt(alts):
    return {'k': 'alt', 'alts': alts}


def opt(x):
    return {'k': 'opt', 'x': x}


def maybe(x):
    return {'k': 'maybe', 'x': x}


def rep(x, n, m):
    return {'k': 'rep', 'x': x, 'n': n, 'm': m}


def norm(e):
    """uniform record fields for TLC (every expr has all keys; unused ones are dummies)"""
    d = {'k': e['k'], 'name': e.get('name', ''), 'keep': e.get('keep', False), 'n': e.get('n', 0), 'm': e.get('m', 0)}
    d['items'] = [norm(x) for x in e.get('items', [])]
    d['alts'] = [norm(x) for x in e.get('alts', [])]
    d['x'] = norm(e['x']) if 'x' in e else {}
    return d


def atom_text(e):
    if e['k'] == 'tok':
        return '"d"' if e['name'] == 'D' else e['name']
    if e['k'] == 'rule':
        return e['name']
    return None


def text(e, top=False):
    k = e['k']
    a = atom_text(e)
    if a is not None:
        return a
    if k == 'seq':
        return ' '.join(text(x) if x['k'] != 'alt' else text(x) for x in e['items'])
    if k == 'alt':
        return '(' + ' | '.join(text(x) for x in e['alts']) + ')'
    if k == 'opt':
        return wrap(e['x']) + '?'
    if k == 'maybe':
        return '[' + text(e['x']) + ']'
    if k == 'rep':
        if e['m'] < 0:
            return wrap(e['x']) + ('*' if e['n'] == 0 else '+')
        if e['n'] == e['m']:
            return wrap(e['x']) + '~%d' % e['n']
        return wrap(e['x']) + '~%d..%d' % (e['n'], e['m'])
    raise ValueError(k)


def wrap(x):
    if x['k'] in ('tok', 'rule', 'alt', 'maybe'):
        return text(x)
    return '(' + text(x) + ')'


def rule_text(r):
    mods = ('?' if r['expand1'] else '') + ('!' if r['keepall'] else '')
    head = mods + r['name'] + ('.%d' % r['prio'] if r.get('prio') else '')
    alts = []
    for a in r['alts']:
        s = text(a['body'])
        if a['alias']:
            s += ' -> ' + a['alias']
        alts.append(s)
    return '%s: %s' % (head, ' | '.join(alts))


def grammar_text(G):
    return '\n'.join(rule_text(r) for r in G['rules']) + '\n' + G.get('term_defs', TERM_DEFS)


def from_bnf(Gb):
    """F_bnf grammar (tuple of (lhs, rhs)) -> AST grammar; terminals X, Y, Z are named and kept"""
    by = {}
    for lhs, rhs in Gb:
        by.setdefault(lhs, []).append(rhs)
    rules = []
    for lhs in sorted(by, key=lambda x: (x != 's', x)):
        alts = []
        for rhs in by[lhs]:
            items = [({'k': 'tok', 'name': x, 'keep': True} if x.isupper() else ref('start' if x == 's' else x)) for x in rhs]
            alts.append({'alias': '', 'body': seq(items)})
        rules.append({'name': 'start' if lhs == 's' else lhs, 'expand1': False, 'keepall': False, 'alts': alts})
    return {'rules': rules, 'term_defs': 'X: "x"\nY: "y"\nZ: "z"\n'}


def grammar_json(G, ka, ph):
    return {'start': 'start', 'ka': bool(ka), 'ph': bool(ph),
            'rules': [{'name': r['name'], 'expand1': r['expand1'], 'keepall': r['keepall'], 'inline': r.get('inline', r['name'].startswith('_')),
                       'prio': r.get('prio', 0),
                       'alts': [{'alias': a['alias'], 'body': norm(a['body'])} for a in r['alts']]} for r in G['rules']]}


# ---- random generation -------------------------------------------------------------------------------
def rand_expr(rng, names, depth, nonempty_atoms=True):
    atoms = [tok('A'), tok('A'), tok('B'), tok('_C'), tok('D')] + [ref(n) for n in names]
    if depth <= 0 or rng.random() < 0.3:
        return rng.choice(atoms)
    k = rng.choice(['seq', 'seq', 'seq', 'alt', 'opt', 'maybe', 'maybe', 'star', 'plus', 'rep'])
    if k == 'seq':
        return seq([rand_expr(rng, names, depth - 1) for _ in range(rng.choice([2, 2, 3]))])
    if k == 'alt':
        return alt([rand_expr(rng, names, depth - 1) for _ in range(2)])
    if k == 'opt':
        return opt(rand_expr(rng, names, depth - 1))
    if k == 'maybe':
        return maybe(rand_expr(rng, names, depth - 1))
    x = rand_expr(rng, names, depth - 1)
    if k == 'star':
        return rep(x, 0, -1)
    if k == 'plus':
        return rep(x, 1, -1)
    n = rng.choice([0, 1, 2])
    return rep(x, n, n + rng.choice([0, 1, 2]))


def rand_grammar(rng, depth=2):
    others = rng.sample(['x', '_y', 'z', 'k'], rng.choice([0, 1, 1, 2]))
    rules = []
    for name in ['start'] + others:
        usable = [n for n in others if n != name] if name != 'start' else others
        nalts = rng.choice([1, 1, 2])
        alts = []
        for _ in range(nalts):
            body = rand_expr(rng, usable if rng.random() < 0.8 else [], depth)
            alias = rng.choice(['', '', '', 'al%d' % len(alts)])
            alts.append({'alias': alias if not name.startswith('_') else '', 'body': body})
        rules.append({'name': name, 'expand1': name == 'z' or (name == 'start' and rng.random() < 0.1),
                      'keepall': name == 'k' or (name != 'start' and rng.random() < 0.1), 'alts': alts})
    # the same repetition/optional sub-expression in two rules that differ in ! (helper rules are shared by lark)
    if len(rules) >= 2 and rng.random() < 0.35:
        shared = rng.choice([rep(tok('D'), 0, -1), rep(tok('D'), 1, -1), rep(tok('_C'), 0, -1), rep(tok('D'), 2, 3),
                             rep(seq([tok('A'), tok('D')]), 1, -1), rep(tok('D'), 1, 2)])
        r1, r2 = rules[0], rules[-1]
        r1['alts'][0]['body'] = seq([r1['alts'][0]['body'], shared, tok('B')])
        r2['alts'][0]['body'] = seq([shared, r2['alts'][0]['body']])
        r2['keepall'] = not r1['keepall']
    used = set()

    def walk(e):
        if e['k'] == 'rule':
            used.add(e['name'])
        for x in e.get('items', []) + e.get('alts', []):
            walk(x)
        if 'x' in e:
            walk(e['x'])
    for r in rules:
        for a in r['alts']:
            walk(a['body'])
    # make sure every other rule is used by start (lark prunes unused rules; harmless but pointless)
    for n in others:
        if n not in used:
            rules[0]['alts'][0]['body'] = seq([rules[0]['alts'][0]['body'], ref(n)])
    return {'rules': rules}


def sample_sentence(G, rng, maxlen=6):
    rules = {r['name']: r for r in G['rules']}

    def gen(e, depth):
        k = e['k']
        if depth > 8:
            raise RecursionError
        if k == 'tok':
            return [e['name']]
        if k == 'rule':
            r = rules[e['name']]
            return gen(rng.choice(r['alts'])['body'], depth + 1)
        if k == 'seq':
            out = []
            for x in e['items']:
                out += gen(x, depth + 1)
            return out
        if k == 'alt':
            return gen(rng.choice(e['alts']), depth + 1)
        if k in ('opt', 'maybe'):
            return gen(e['x'], depth + 1) if rng.random() < 0.5 else []
        if k == 'rep':
            hi = e['m'] if e['m'] >= 0 else e['n'] + 2
            c = rng.randint(e['n'], hi)
            out = []
            for _ in range(c):
                out += gen(e['x'], depth + 1)
            return out
    for _ in range(6):
        try:
            s = gen(ref('start'), 0)
        except RecursionError:
            continue
        if len(s) <= maxlen:
            return tuple(s)
    return None


def to_text(w):
    return ''.join(CHARS[t] for t in w)


# ---- derivation cycles on lark's compiled BNF (gates what is sent to the oracle; not part of any verdict) ----
def deriv_cyclic(rules):
    """rules: list of (lhs, [rhs symbols]); True iff some non-terminal derives itself (A =>+ A)"""
    nts = {l for l, _ in rules}
    nullable = set()
    ch = True
    while ch:
        ch = False
        for l, rhs in rules:
            if l not in nullable and all(x in nullable for x in rhs):
                nullable.add(l)
                ch = True
    edges = set()
    for l, rhs in rules:
        for i, x in enumerate(rhs):
            if x in nts and all(y in nullable for j, y in enumerate(rhs) if j != i):
                edges.add((l, x))
    reach = set(edges)
    ch = True
    while ch:
        ch = False
        for a, b in list(reach):
            for c, d in edges:
                if b == c and (a, d) not in reach:
                    reach.add((a, d))
                    ch = True
    return any(a == b for a, b in reach)


def from_compiled(lark_rules):
    """lark's compiled BNF rules -> AST grammar for *unshaped* derivation trees: every token kept, nothing inlined,
    node label = alias or template source or origin (what the forest API documents)"""
    by = {}
    order = []
    for r in lark_rules:
        name = str(r.origin.name)
        if name not in by:
            by[name] = []
            order.append(name)
        label = r.alias or (r.options.template_source if r.options and r.options.template_source else None) or name
        items = [({'k': 'tok', 'name': str(s.name), 'keep': True} if s.is_term else ref(str(s.name))) for s in r.expansion]
        by[name].append({'alias': str(label) if str(label) != name else '', 'body': seq(items)})
    rules = [{'name': n, 'expand1': False, 'keepall': False, 'inline': False, 'alts': by[n]} for n in order]
    return {'rules': rules}


def deriv_count(rules, w, cap=200):
    """number of derivation trees of the token string w in the BNF rules (list of (lhs, [rhs])), capped; used only to keep
    the derivation-enumerating oracle away from combinatorial inputs (skipped inputs are counted in the evidence)"""
    import functools
    import sys
    by = {}
    for l, r in rules:
        by.setdefault(l, []).append(tuple(r))
    n = len(w)
    sys.setrecursionlimit(10000)
    active = set()

    @functools.lru_cache(maxsize=None)
    def cnt(sym, i, j):
        if sym not in by:
            return 1 if j == i + 1 and i < n and w[i] == sym else 0
        key = (sym, i, j)
        if key in active:
            return 0          # cyclic re-entry: callers exclude cyclic grammars anyway
        active.add(key)
        tot = 0
        for rhs in by[sym]:
            tot += seq(rhs, 0, i, j)
            if tot > cap:
                break
        active.discard(key)
        return min(tot, cap + 1)

    @functools.lru_cache(maxsize=None)
    def seq(rhs, k, i, j):
        if k == len(rhs):
            return 1 if i == j else 0
        tot = 0
        for m in range(i, j + 1):
            a = cnt(rhs[k], i, m)
            if a:
                tot += a * seq(rhs, k + 1, m, j)
                if tot > cap:
                    break
        return min(tot, cap + 1)
    return cnt('start', 0, n)
