"""Deterministic line-level thread scheduler (no source hooks: threading/sys.settrace, as the property's observe_at says).

Scheduling points are `line` events in frames whose `self` is an object that already existed before the concurrent
calls started and is reachable from the Lark instance (lexers, frontends, parsers, tree builders, post-lexers ...):
exactly the code that can touch state shared between calls.  Exactly one thread holds the baton.  A schedule is a
list of [thread index, number of scheduling points to run]; when it is exhausted the threads run to completion in
index order.
"""
import gc
import sys
import threading


def shared_ids(root, limit=200000):
    """ids of the objects reachable from root (the Lark instance) - computed before the calls"""
    seen = {}
    stack = [root]
    skip_types = (str, bytes, int, float, bool, type(None), type, type(sys))
    while stack and len(seen) < limit:
        o = stack.pop()
        if id(o) in seen or isinstance(o, skip_types):
            continue
        seen[id(o)] = o
        try:
            stack.extend(gc.get_referents(o))
        except Exception:
            pass
    # only instances of classes defined in lark matter as `self`
    return {i for i, o in seen.items() if type(o).__module__.startswith('lark')}, seen


class Scheduler:
    def __init__(self, nthreads, schedule, shared, max_points=2000000, log_cap=400):
        self.n = nthreads
        self.schedule = [list(x) for x in schedule]
        self.shared = shared
        self.cv = threading.Condition()
        self.turn = None            # thread index holding the baton
        self.done = [False] * nthreads
        self.points = [0] * nthreads
        self.trace_log = []         # (thread, filename:line) of the first points, for replay files
        self.max_points = max_points
        self.log_cap = log_cap
        self._advance(initial=True)

    # -- baton ------------------------------------------------------------------------------------
    def _advance(self, initial=False):
        """choose who runs next (called with the lock held, or before threads start)"""
        while self.schedule and (self.done[self.schedule[0][0]] or self.schedule[0][1] <= 0):
            self.schedule.pop(0)
        if self.schedule:
            self.turn = self.schedule[0][0]
        else:
            alive = [i for i in range(self.n) if not self.done[i]]
            self.turn = alive[0] if alive else None

    def point(self, tid, where):
        with self.cv:
            # consume one unit of the current slice if it is ours
            if self.schedule and self.schedule[0][0] == tid:
                self.schedule[0][1] -= 1
                if self.schedule[0][1] <= 0:
                    self.schedule.pop(0)
                    self._advance()
                    self.cv.notify_all()
            self.points[tid] += 1
            if len(self.trace_log) < self.log_cap:
                self.trace_log.append((tid, where))
            while self.turn is not None and self.turn != tid:
                self.cv.wait(timeout=30)
                if self.turn != tid and self.turn is not None and self.done[self.turn]:
                    self._advance()

    def start(self, tid):
        with self.cv:
            while self.turn is not None and self.turn != tid:
                self.cv.wait(timeout=30)

    def finish(self, tid):
        with self.cv:
            self.done[tid] = True
            self._advance()
            self.cv.notify_all()

    # -- tracing ----------------------------------------------------------------------------------
    def make_trace(self, tid):
        shared = self.shared
        sched = self

        def local(frame, event, arg):
            if event == 'line':
                sched.point(tid, '%s:%d' % (frame.f_code.co_filename.rsplit('/', 1)[-1], frame.f_lineno))
            return local

        def glob(frame, event, arg):
            if event != 'call':
                return None
            s = frame.f_locals.get('self')
            if s is not None and id(s) in shared:
                return local
            return None
        return glob


def run_threads(calls, schedule, shared, log_cap=400):
    """calls: list of zero-argument callables (one per thread). -> (results, scheduler)"""
    n = len(calls)
    sched = Scheduler(n, schedule, shared, log_cap=log_cap)
    results = [None] * n

    def runner(i):
        sched.start(i)
        sys.settrace(sched.make_trace(i))
        try:
            results[i] = ('ok', calls[i]())
        except BaseException as e:      # noqa
            results[i] = ('exc', type(e).__name__ + ': ' + str(e)[:120])
        finally:
            sys.settrace(None)
            sched.finish(i)
    ts = [threading.Thread(target=runner, args=(i,)) for i in range(n)]
    for t in ts:
        t.start()
    for t in ts:
        t.join(timeout=120)
    hung = any(t.is_alive() for t in ts)
    return results, sched, hung


def count_points(call, shared):
    """number of scheduling points of a single call run alone"""
    res, sched, hung = run_threads([call], [], shared, log_cap=20000)
    return sched.points[0], [w for _, w in sched.trace_log]


_WRITE_LINES = None


def write_lines():
    """(file, line) of every statement in the lark package that stores into an attribute (or an item of an attribute) of
    self, plus the following line: the places where state shared between calls can change (found by AST query on the
    current source, so refactorings move them automatically)"""
    global _WRITE_LINES
    if _WRITE_LINES is not None:
        return _WRITE_LINES
    import ast
    import os
    import lark
    out = set()
    root = os.path.dirname(lark.__file__)
    for dp, _, fs in os.walk(root):
        for fn in fs:
            if not fn.endswith('.py'):
                continue
            try:
                tree = ast.parse(open(os.path.join(dp, fn)).read())
            except SyntaxError:
                continue
            for node in ast.walk(tree):
                targets = []
                if isinstance(node, ast.Assign):
                    targets = node.targets
                elif isinstance(node, (ast.AugAssign, ast.AnnAssign)):
                    targets = [node.target]
                elif isinstance(node, ast.Expr) and isinstance(node.value, ast.Call) and isinstance(node.value.func, ast.Attribute) \
                        and node.value.func.attr in ('append', 'add', 'update', 'pop', 'clear', 'extend', 'setdefault', 'remove', 'insert'):
                    targets = [node.value.func.value]
                for t in targets:
                    for sub in ast.walk(t):
                        if isinstance(sub, ast.Attribute) and isinstance(sub.value, ast.Name) and sub.value.id == 'self':
                            out.add((fn, node.lineno))
                            out.add((fn, (node.end_lineno or node.lineno) + 1))
    _WRITE_LINES = out
    return out


def write_points(where):
    """indices (scheduling point numbers) at which the thread is about to execute, or has just executed, a shared write"""
    wl = write_lines()
    idx = []
    for i, w in enumerate(where):
        fn, ln = w.rsplit(':', 1)
        if (fn, int(ln)) in wl:
            idx.append(i)
    return idx
