def run(ev, rep, tier, rng, tmp):
    pass
