"""Chart-level conformance: the real predict_and_complete against Earley.tla (drift level)."""
import json
import os

from . import common as C
from . import families as F
from . import observe as O

TRACE_CFG = 'SPECIFICATION Spec\nINVARIANT VerdictOk\nCHECK_DEADLOCK FALSE\n'


def record_case(spec):
    """spec = (gtext, [token-type tuples]) -> list of cases with recorded columns (basic lexer)"""
    from lark import Lark
    from lark.parsers import earley
    from lark.exceptions import UnexpectedToken, UnexpectedEOF, UnexpectedInput
    gtext, inputs = spec
    try:
        p = Lark(gtext, parser='earley', lexer='basic')
    except Exception:
        return []
    rid = {r: i + 1 for i, r in enumerate(p.rules)}
    rules = [{'lhs': str(r.origin.name), 'rhs': [str(s.name) for s in r.expansion]} for r in p.rules]
    log = []
    orig = earley.Parser.predict_and_complete
    if not callable(orig):
        raise C.MachineryFailure('cannot attach: earley.Parser.predict_and_complete missing')

    def wrapped(self, i, to_scan, columns, transitives, node_cache):
        r = orig(self, i, to_scan, columns, transitives, node_cache)
        log.append([sorted([rid[it.rule], it.ptr, it.start] for it in columns[i]),
                    sorted([rid[it.rule], it.ptr, it.start] for it in to_scan)])
        return r
    out = []
    earley.Parser.predict_and_complete = wrapped
    try:
        for w in inputs:
            del log[:]
            text = F.to_text(w)
            try:
                p.parse(text)
                o = 'accept'
            except UnexpectedToken:
                o = 'token'
            except UnexpectedEOF:
                o = 'eof'
            except UnexpectedInput:
                o = 'lexer'
            except Exception as e:
                o = 'exc:' + type(e).__name__
            if o == 'lexer':
                continue
            out.append({'rules': rules, 'start': 'start', 'w': list(w), 'cols': json.loads(json.dumps(log)), 'out': o,
                        'gtext': gtext})
    finally:
        earley.Parser.predict_and_complete = orig
    return out


def run(ev, rep, tier, rng, tmp):
    Gs = list(F.bnf_family(3))
    pick = F.sample(Gs, C.scale(1500 if tier == 'quick' else 9000), rng)
    specs = []
    for G in pick:
        # only grammars whose terminals are all used keep X/Y in the lexer; others reject in the lexer (skipped)
        ins = F.enriched_inputs(G, 3, extra_len=1, rng=rng)
        specs.append((F.grammar_text(G), ins))
    for G in F.rand_family(C.scale(700 if tier == 'quick' else 6000), rng):
        specs.append((F.grammar_text(G, term_defs=F.TERM3), F.enriched_inputs(G, 2, extra_len=3, rng=rng, alphabet=('X', 'Y', 'Z'))))
    res = C.pmap(record_case, specs)
    cases = [c for r in res for c in r]
    if len(cases) < 1000:
        raise C.MachineryFailure('chart conformance: only %d traces recorded' % len(cases))
    CH = 8000
    paths = []
    for off in range(0, len(cases), CH):
        chunk = cases[off:off + CH]
        paths.append(C.write_batch({'cases': [{k: c[k] for k in ('rules', 'start', 'w', 'cols', 'out')} for c in chunk]},
                                   tmp, 'cols_%d.json' % off))
    results = C.tlc_parallel('TraceEarleyCols', TRACE_CFG, paths, continue_=True, timeout=3000)
    drift = []
    for pi, r in enumerate(results):
        C.tlc_must_run(r, 'TraceEarleyCols')
        ev.add_tlc('TraceEarleyCols[%d]' % pi, r, 'trace')
        for v in sorted(set(tuple(x) for x in r.verdicts)):
            c = cases[pi * CH + int(v[0]) - 1]
            drift.append({'grammar': c['gtext'], 'w': c['w'], 'clause': v[2], 'step': int(v[1])})
        os.remove(paths[pi])
    ev.cov['traces_validated_against_impl'] += len(cases)
    ev.cov['counts']['chart_traces'] = len(cases)
    ev.cov['drift'] = len(drift)
    ev.cov['drift_samples'] = drift[:5]
    if cases:
        ev.sample({'chart_trace': {'grammar': cases[len(cases) // 2]['gtext'], 'w': cases[len(cases) // 2]['w'],
                                   'columns': cases[len(cases) // 2]['cols'], 'out': cases[len(cases) // 2]['out']}})
    if drift:
        print('DRIFT property=C01 the real chart differs from Earley.tla on %d trace(s) (not a violation by itself; '
              'first: %s)' % (len(drift), json.dumps(drift[0])[:300]))
    # self-test of this binding: corrupt one logged item
    import copy
    mut = copy.deepcopy(cases[:20])
    tgt = next(i for i, c in enumerate(mut) if c['cols'] and c['cols'][0][0])
    mut[tgt]['cols'][0][0].pop()
    path = C.write_batch({'cases': [{k: c[k] for k in ('rules', 'start', 'w', 'cols', 'out')} for c in mut]}, tmp, 'cols_self.json')
    r = C.tlc('TraceEarleyCols', TRACE_CFG, env={'VERIF_BATCH': path}, continue_=True, workers=4, timeout=600)
    C.tlc_must_run(r, 'TraceEarleyCols selftest')
    got = {int(v[0]) for v in r.verdicts}
    ev.cov['binding_selftest']['chart_corrupted'] = 1
    ev.cov['binding_selftest']['chart_rejected'] = len(got)
    if got != {tgt + 1}:
        raise C.MachineryFailure('chart binding self-test: corrupted trace %d, TLC rejected %s' % (tgt + 1, sorted(got)))
    return drift
