"""C20 - the parse forest (ambiguity='forest') encodes exactly the derivations; forest walks terminate.

design : ForestWalk.tla (ForestVisitor.visit as a machine) - MC_ForestWalk: all graphs on 3 nodes + token, both
         single_visit settings: termination (liveness), path discipline, on_cycle exactly on back edges
binding: TraceWalk.tla: callback sequences of the real visit() on synthetic graphs and on the real SPPFs of parses
         (cyclic grammars included); TraceTrees.tla (which=C20): TreeForestTransformer results against the set of
         unshaped derivation trees of the compiled rules.
"""
import itertools
import json
import os
import random
import shutil

from . import common as C
from . import families as F
from . import observe as O
from . import ebnf as E
from . import c03

PID = 'C20'
TRACE_CFG = 'SPECIFICATION Spec\nINVARIANT VerdictOk\nCHECK_DEADLOCK FALSE\n'
LEXERS = ('basic', 'dynamic', 'dynamic_complete')


def make_recorder(single):
    from lark.parsers.earley_forest import ForestVisitor, TokenNode

    class Rec(ForestVisitor):
        def __init__(self):
            ForestVisitor.__init__(self, single_visit=single)
            self.ids = {}
            self.S = {}
            self.tok = set()
            self.ev = []

        def nid(self, node):
            key = id(node.token) if isinstance(node, TokenNode) else id(node)
            if key not in self.ids:
                self.ids[key] = len(self.ids) + 1
            if isinstance(node, TokenNode):
                self.tok.add(self.ids[key])
            return self.ids[key]

        def _in(self, node):
            x = self.nid(node)
            kids = [c for c in node.children if c is not None]
            self.S[x] = [self.nid(c) for c in kids]
            self.ev.append(['in', x])
            return iter(kids)

        def _out(self, node):
            self.ev.append(['out', self.nid(node)])

        visit_symbol_node_in = _in
        visit_packed_node_in = _in
        visit_symbol_node_out = _out
        visit_packed_node_out = _out

        def visit_token_node(self, token):
            key = id(token)
            if key not in self.ids:
                self.ids[key] = len(self.ids) + 1
            self.tok.add(self.ids[key])
            self.ev.append(['tok', self.ids[key]])

        def on_cycle(self, node, path):
            self.ev.append(['cycle', self.nid(node)])
    return Rec()


def walk_case(root, single, label):
    rec = make_recorder(single)
    rootid = rec.nid(root)
    finished = True
    try:
        with O.budget(20):
            rec.visit(root)
    except O.Hang:
        finished = False
    n = len(rec.ids)
    S = [rec.S.get(x, []) for x in range(1, n + 1)]
    return {'n': n, 'S': S, 'tok': sorted(rec.tok), 'single': single, 'root': rootid, 'ev': rec.ev[:20000], 'finished': finished, 'label': label}


def observe_case(spec):
    """forest of every input under the three lexers: transformer results + recorded walks"""
    import logging
    logging.disable(logging.CRITICAL)
    from lark import Lark
    from lark.exceptions import UnexpectedInput
    from lark.parsers.earley_forest import TreeForestTransformer, ForestSumVisitor
    G = spec['G']
    gtext = E.grammar_text(G)
    case = {'gtext': gtext, 'inputs': [], 'skip': '', 'cyclic': False, 'family': spec['family'], 'spec': spec, 'walks': [], 'ka': False, 'ph': False}
    parsers = {}
    mt = bool(spec.get('multitok'))
    case['multitok'] = mt
    T4 = c03.tree4
    if mt:
        from . import mtok
        T4 = mtok.tree4m
    lexers = [lx for lx in LEXERS if lx in spec.get('lexers', LEXERS)]
    try:
        for lx in lexers:
            with O.budget(30):
                parsers[lx] = Lark(gtext, parser='earley', lexer=lx, ambiguity='forest')
    except Exception as ex:
        case['skip'] = 'construct %s' % type(ex).__name__
        return case
    p0 = parsers[lexers[0]]
    brules = [(str(r.origin.name), [str(s.name) for s in r.expansion]) for r in p0.rules]
    case['cyclic'] = E.deriv_cyclic(brules)
    case['G'] = E.grammar_json(E.from_compiled(p0.rules), False, False)
    for wi, w in enumerate(spec['inputs']):
        text = ''.join(w) if mt else E.to_text(w)
        toks = spec['toks'][wi] if mt else []
        if mt and mtok.deriv_total(brules, toks, 80) > 80:
            case['too_ambiguous'] = case.get('too_ambiguous', 0) + 1
            continue
        exp = []
        for lx in lexers:
            rec = {'cfg': 'earley/' + lx, 'out': 0, 'tree': ['N', '', 0, []], 'one': ['N', '', 0, []], 'isamb': False,
                   'collrun': False, 'collok': True, 'coll': []}
            try:
                with O.budget(20):
                    root = parsers[lx].parse(text)
                    rec['tree'] = T4(TreeForestTransformer(resolve_ambiguity=False).transform(root))
                    if c03.expand_count(rec['tree']) > 300:
                        case['too_ambiguous'] = case.get('too_ambiguous', 0) + 1
                        rec['skipme'] = True
                    rec['one'] = T4(TreeForestTransformer(resolve_ambiguity=True).transform(root))
                    rec['isamb'] = bool(root.is_ambiguous)
                    ForestSumVisitor().visit(root)
                if spec.get('walk') and len(case['walks']) < 12:
                    for single in (False, True):
                        case['walks'].append(walk_case(root, single, {'grammar': gtext, 'text': text, 'lexer': lx}))
            except UnexpectedInput:
                rec['out'] = 1
            except (Exception, O.Hang) as ex:
                rec['out'] = 2
                rec['exc'] = type(ex).__name__
            if not rec.get('skipme'):
                exp.append(rec)
        case['inputs'].append({'w': list(w), 'obs': [], 'exp': exp, 'toks': toks, 'text': text, 'vmap': mtok.vmap(text, toks) if mt else []})
    return case


def synthetic_walks(tier, rng):
    """the MC_ForestWalk family on real node objects, plus random larger graphs"""
    from lark.parsers.earley_forest import SymbolNode, TokenNode, ForestVisitor
    from lark import Token
    out = []

    def run(n, succ, single):
        nodes = {x: SymbolNode('n%d' % x, 0, 0) for x in range(1, n + 1)}
        tok = TokenNode(Token('T', 't'), None)
        nodes[n + 1] = tok
        ev = []
        ids = {id(nodes[x]): x for x in nodes}

        class V(ForestVisitor):
            def visit_symbol_node_in(self, node):
                ev.append(['in', ids[id(node)]])
                return iter([nodes[y] for y in succ[ids[id(node)] - 1]])

            def visit_symbol_node_out(self, node):
                ev.append(['out', ids[id(node)]])

            def visit_token_node(self, token):
                ev.append(['tok', n + 1])

            def on_cycle(self, node, path):
                ev.append(['cycle', ids[id(node)]])
        finished = True
        try:
            with O.budget(10):
                V(single_visit=single).visit(nodes[1])
        except O.Hang:
            finished = False
        return {'n': n + 1, 'S': [list(s) for s in succ] + [[]], 'tok': [n + 1], 'single': single, 'root': 1, 'ev': ev[:20000],
                'finished': finished, 'label': {'synthetic': [list(s) for s in succ]}}
    n = 3
    opts = [tuple(s) for d in range(0, 3) for s in itertools.product(range(1, n + 2), repeat=d)]
    allg = list(itertools.product(opts, repeat=n))
    pick = allg if tier == 'thorough' else F.sample(allg, C.scale(2500), rng)
    for succ in pick:
        for single in (False, True):
            out.append(run(n, succ, single))
    for _ in range(C.scale(300 if tier == 'quick' else 3000)):
        n2 = rng.choice([4, 5, 6])
        succ = [tuple(rng.randint(1, n2 + 1) for _ in range(rng.choice([0, 1, 2, 2, 3]))) for _ in range(n2)]
        out.append(run(n2, succ, rng.random() < 0.5))
    return out


def judge_walks(walks, ev, rep, tmp, name):
    CH = 1500
    jobs = []
    for off in range(0, len(walks), CH):
        chunk = walks[off:off + CH]
        jobs.append((chunk, C.write_batch({'cases': [{k: c[k] for k in ('n', 'S', 'tok', 'single', 'root', 'ev', 'finished')} for c in chunk]},
                                          tmp, 'walk_%s_%d.json' % (name, off))))
    results = C.tlc_parallel('TraceWalk', TRACE_CFG, [j[1] for j in jobs], continue_=True, timeout=3000)
    for (chunk, path), res in zip(jobs, results):
        C.tlc_must_run(res, 'TraceWalk')
        ev.add_tlc('TraceWalk:%s' % name, res, 'trace')
        os.remove(path)
        if res.violated and not res.verdicts:
            raise C.MachineryFailure('TraceWalk violation without VERDICT line')
        for v in sorted(set(tuple(x) for x in res.verdicts)):
            c = chunk[int(v[0]) - 1]
            rep.violation({'property': PID, 'clause': 'walk:' + v[2], 'case': c['label'], 'single_visit': c['single'], 'events': c['ev'][:60],
                           'graph': c['S'] if c['n'] < 12 else None})


# ---- the forest as a set of labelled families (EarleyForest.tla / TraceForest.tla) -----------------------------------------
FOREST_CFG = 'SPECIFICATION Spec\nINVARIANT VerdictOk\nCHECK_DEADLOCK FALSE\n'


def forest_fams(root, ridx):
    """every family reachable from the root: [node, rule, left, right], node = [kind, [name, rule, dot], start, end]"""
    def node(n):
        if n is None:
            return ['none', ['', 0, 0], 0, 0]
        if hasattr(n, 'token'):
            t = n.token
            return ['tok', [str(t.type), 0, 0], t.start_pos, t.end_pos]
        if n.is_intermediate:
            rule, ptr = n.s
            return ['sym', ['', ridx[rule], ptr], n.start, n.end]
        return ['sym', [str(n.s.name), 0, 0], n.start, n.end]
    out, seen, stack = [], set(), [root]
    while stack:
        n = stack.pop()
        if n is None or hasattr(n, 'token') or id(n) in seen:
            continue
        seen.add(id(n))
        for pk in n.children:
            out.append([node(n), ridx[pk.rule], node(pk.left), node(pk.right)])
            stack.append(pk.left)
            stack.append(pk.right)
    return out


def observe_forest(spec):
    """BNF grammars without derivation cycles, lexer='basic': the real forest families per accepted input"""
    import logging
    logging.disable(logging.CRITICAL)
    from lark import Lark
    from lark.exceptions import UnexpectedInput
    gtext = E.grammar_text(spec['G'])
    out = {'gtext': gtext, 'items': [], 'skip': ''}
    try:
        with O.budget(30):
            p = Lark(gtext, parser='earley', lexer='basic', ambiguity='forest')
    except Exception as ex:
        out['skip'] = type(ex).__name__
        return out
    brules = [(str(r.origin.name), [str(x.name) for x in r.expansion]) for r in p.rules]
    if E.deriv_cyclic(brules):
        out['skip'] = 'derivation cycle'
        return out
    ridx = {r: i + 1 for i, r in enumerate(p.rules)}
    out['rules'] = [{'lhs': l, 'rhs': r} for l, r in brules]
    for w in spec['inputs']:
        text = E.to_text(w)
        try:
            with O.budget(20):
                root = p.parse(text)
                fams = forest_fams(root, ridx)
        except UnexpectedInput:
            continue
        except (Exception, O.Hang):
            continue
        if len(fams) <= 400:
            out['items'].append({'w': list(w), 'text': text, 'fams': fams})
    return out


def forest_phase(tier, rng, ev, tmp):
    """drift level: an internal projection (the labelled families), not the statement"""
    L = 3 if tier == 'quick' else 4
    res = C.tlc('MC_EarleyForest', 'SPECIFICATION Spec\nCONSTANTS\n MaxRules = 3\n MaxLen = %d\nINVARIANT ForestExact\nINVARIANT NoDuplicate\n'
                'INVARIANT AcceptsIffDerivable\nCHECK_DEADLOCK FALSE\n' % L, timeout=3000)
    C.tlc_must_run(res, 'MC_EarleyForest')
    ev.add_tlc('MC_EarleyForest R=3 L=%d (the forest stands for the derivations, each once)' % L, res, 'design')
    if not res.ok:
        raise C.MachineryFailure('MC_EarleyForest: %s violated' % res.violated)
    # the dynamic scanner's forest (tokens of several lengths, ignored text, carried items): the code's design holds, the
    # pinned one (completed start items carried inside the chart) must be refuted - defect 20
    xcfg = ('SPECIFICATION Spec\nCONSTANTS\n MaxRules = 2\n MaxLen = %d\n RootsInChart = %s\nINVARIANT AcceptsIffDerivable\nINVARIANT ForestExact\n'
            'INVARIANT NoDuplicate\nCHECK_DEADLOCK FALSE\n')
    XL = 3 if tier == 'quick' else 4
    res = C.tlc('MC_XEarleyForest', xcfg % (XL, 'FALSE'), timeout=3000)
    C.tlc_must_run(res, 'MC_XEarleyForest')
    ev.add_tlc('MC_XEarleyForest R=2 L=%d (completed start items wait on the side)' % XL, res, 'design')
    if not res.ok:
        raise C.MachineryFailure('MC_XEarleyForest: %s violated' % res.violated)
    r2 = C.tlc('MC_XEarleyForest', xcfg % (3, 'TRUE'), timeout=900, workers=4)
    C.tlc_must_run(r2, 'MC_XEarleyForest (roots carried inside the chart)')
    ev.cov['binding_selftest']['model_refutes_roots_carried_in_chart'] = 'NoDuplicate' in r2.violated
    if 'NoDuplicate' not in r2.violated:
        raise C.MachineryFailure('MC_XEarleyForest accepts the pinned carry-over of completed start items: the model is vacuous')
    sps = []
    Gs = list(F.bnf_family(3))
    for Gb in F.sample(Gs, C.scale(700 if tier == 'quick' else 6000), rng):
        sps.append({'G': E.from_bnf(Gb), 'inputs': F.enriched_inputs(Gb, 3, extra_len=1, rng=rng)})
    for Gb in F.rand_family(C.scale(250 if tier == 'quick' else 2500), rng):
        sps.append({'G': E.from_bnf(Gb), 'inputs': F.enriched_inputs(Gb, 2, extra_len=3, rng=rng, alphabet=('X', 'Y', 'Z'))})
    got = [c for c in C.pmap(observe_forest, sps) if not c['skip']]
    items = [dict(it, rules=c['rules'], gtext=c['gtext']) for c in got for it in c['items']]
    ev.count('forests_compared_with_the_machine', len(items))
    ev.count('forest_families_compared', sum(len(it['fams']) for it in items))
    CH = 1500
    paths = [C.write_batch({'cases': [{'rules': it['rules'], 'w': it['w'], 'fams': it['fams']} for it in items[off:off + CH]]}, tmp, 'c20_forest_%d.json' % off)
             for off in range(0, len(items), CH)]
    results = C.tlc_parallel('TraceForest', FOREST_CFG, paths, continue_=True, timeout=3000)
    drift = []
    for pi, res in enumerate(results):
        C.tlc_must_run(res, 'TraceForest')
        ev.add_tlc('TraceForest', res, 'trace')
        os.remove(paths[pi])
        for v in sorted(set(tuple(x) for x in res.verdicts)):
            it = items[pi * CH + int(v[0]) - 1]
            drift.append({'clause': v[2], 'grammar': it['gtext'], 'text': it['text']})
    ev.cov['drift'] = ev.cov.get('drift', 0) + len(drift)
    ev.cov['drift_samples'] = ev.cov.get('drift_samples', []) + drift[:3]
    if drift:
        print('DRIFT property=%s %d real forest(s) differ from the forest of EarleyForest.tla (not a violation by itself; first: %s)'
              % (PID, len(drift), json.dumps(drift[0])[:300]))
    if len(items) < (1500 if C.scale(100) == 100 else 5):
        raise C.MachineryFailure('vacuity (forest families): %d forests' % len(items))
    return drift


def specs(tier, rng):
    out = []
    Gs = list(F.bnf_family(3))
    for Gb in F.sample(Gs, C.scale(1200 if tier == 'quick' else 9000), rng):
        out.append({'G': E.from_bnf(Gb), 'inputs': F.enriched_inputs(Gb, 3, extra_len=1, rng=rng), 'family': 'F_bnf(3,3)', 'walk': True})
    for Gb in F.rand_family(C.scale(500 if tier == 'quick' else 5000), rng):
        out.append({'G': E.from_bnf(Gb), 'inputs': F.enriched_inputs(Gb, 2, extra_len=3, rng=rng, alphabet=('X', 'Y', 'Z')), 'family': 'F_rand', 'walk': True})
    short = [w for k in range(0, 3) for w in itertools.product(['A', 'B', '_C', 'D'], repeat=k)]
    for i in range(C.scale(500 if tier == 'quick' else 5000)):
        G = E.rand_grammar(rng, depth=2)
        ins = set(rng.sample(short, 6))
        for _ in range(8):
            s = E.sample_sentence(G, rng, maxlen=5)
            if s is not None:
                ins.add(s)
        out.append({'G': G, 'inputs': sorted(ins), 'family': 'F_ebnf(compiled)', 'walk': i % 3 == 0})
    from . import mtok
    out += mtok.specs(C.scale(400 if tier == 'quick' else 4000), rng, walk=False)
    return out


def body(tier, seed, replay):
    ev = C.Evidence(PID, tier, seed)
    rep = C.Reporter(PID, ev)
    rng = random.Random(seed)
    tmp = C.scratch_dir('c20_')
    try:
        if replay:
            case = json.load(open(replay))
            if 'spec' in case:
                sp = case['spec']
                sp['inputs'] = [tuple(w) for w in sp['inputs']]
                got = observe_case(sp)
                c03.judge(PID, [got], ev, rep, tmp, 'replay')
                judge_walks(got['walks'], ev, rep, tmp, 'replay')
            return rep.finish()
        res = C.tlc('MC_ForestWalk', 'SPECIFICATION Spec\nCONSTANTS\n NN = 3\n MaxDeg = 2\nINVARIANT PathNoDup\nINVARIANT SingleVisitOnce\nINVARIANT InOutBalanced\n'
                    'INVARIANT CycleOnlyOnPath\nPROPERTY Terminates\nCHECK_DEADLOCK FALSE\n', timeout=3000, coverage=False)
        C.tlc_must_run(res, 'MC_ForestWalk')
        ev.add_tlc('MC_ForestWalk NN=3 MaxDeg=2 (termination under fairness)', res, 'design')
        if not res.ok:
            raise C.MachineryFailure('MC_ForestWalk: %s violated' % res.violated)
        cases = [c for c in C.pmap(observe_case, specs(tier, rng)) if not c['skip']]
        walks = []
        for c in cases:
            ev.count('grammars')
            ev.count('cyclic_grammars' if c['cyclic'] else 'acyclic_grammars')
            walks += c['walks']
            for i in c['inputs']:
                if c.get('multitok'):
                    ev.count('multitok_inputs')
                    ev.count('multitok_inputs_with_several_tokenisations', len(i['toks']) > 1)
                for o in i['exp']:
                    ev.count('forest_parses')
                    if o['out'] == 0:
                        ev.count('forests')
                        if o['isamb']:
                            ev.count('ambiguous_forests')
        ev.count('real_forest_walks', len(walks))
        ev.count('walks_reporting_cycles', sum(1 for w in walks if any(e[0] == 'cycle' for e in w['ev'])))
        syn = synthetic_walks(tier, rng)
        ev.count('synthetic_walks', len(syn))
        ev.cov['traces_validated_against_impl'] = ev.cov['counts'].get('forest_parses', 0) + len(walks) + len(syn)
        c = next(c for c in cases if any(o['isamb'] for i in c['inputs'] for o in i['exp']))
        i = next(i for i in c['inputs'] if any(o['isamb'] for o in i['exp']))
        ev.sample({'grammar': c['gtext'], 'text': i['text'], 'forest_transformed': i['exp'][0]['tree']})
        ev.sample({'walk': {k: syn[7][k] for k in ('S', 'single', 'ev')}})
        c03.judge(PID, cases, ev, rep, tmp, 'forest')
        judge_walks(walks, ev, rep, tmp, 'real')
        judge_walks(syn, ev, rep, tmp, 'synthetic')
        forest_phase(tier, rng, ev, tmp)
        if ev.cov['counts'].get('ambiguous_forests', 0) < 300 or ev.cov['counts'].get('walks_reporting_cycles', 0) < 20:
            raise C.MachineryFailure('vacuity: %s' % ev.cov['counts'])
        ev.assumptions += ['unshaped derivations are taken over lark\'s compiled rules (C03 judges the compilation itself)']
        return rep.finish()
    finally:
        shutil.rmtree(tmp, ignore_errors=True)


if __name__ == '__main__':
    C.run_check(PID, body)
