"""C07 - the lexer tiles the input by documented precedence; contextual refines basic.

design : MC_Lexer.tla  (L1 unless/embedded mechanism = documented rule except the named spelling deviation,
         restriction to a subset of terminals = contextual refinement)
binding: TraceLex.tla judges real token streams of Lark.lex (basic) and of the contextual lexer driven by
         the real LALR parser, plus basic-vs-contextual parse results.
"""
import json
import os
import random
import shutil

from . import common as C
from . import families as F
from . import observe as O
from . import lexfam as L

PID = 'C07'
TRACE_CFG = 'SPECIFICATION Spec\nINVARIANT VerdictOk\nCHECK_DEADLOCK FALSE\n'
MC_CFG = '''SPECIFICATION Spec
CONSTANTS
  MaxTerms = %(N)d
  MaxLen = %(L)d
INVARIANT L1IsL0UnlessDeviation
INVARIANT RestrictionRefines
INVARIANT TilingCovers
CHECK_DEADLOCK FALSE
'''


def build(spec):
    terms = [L.Term(n, k, prio=p, ign=i) for n, k, p, i in spec['terms']]
    return terms


def structured_grammar(terms, stmts):
    g = 'start: stmt*\nstmt: %s\n' % ' | '.join(' '.join(s) for s in stmts)
    for t in terms:
        g += t.lark_def() + '\n'
    for t in terms:
        if t.ign:
            g += '%%ignore %s\n' % t.name
    return g


def observe_case(spec):
    import logging
    logging.disable(logging.CRITICAL)
    from lark import Lark
    from lark.exceptions import UnexpectedCharacters, UnexpectedToken, UnexpectedInput
    terms = build(spec)
    idx = {t.name: i + 1 for i, t in enumerate(terms)}
    use_bytes = spec.get('bytes', False)
    g = L.lexer_grammar(terms)
    case = {'spec': spec, 'gtext': g, 'runs': [], 'skip': '', 'family': spec.get('family', 'F_term')}
    try:
        with O.budget(30):
            p = Lark(g, parser='lalr', lexer='basic', use_bytes=use_bytes)
            lexer = p._build_lexer()
    except Exception as e:
        case['skip'] = 'construct: %s %s' % (type(e).__name__, str(e)[:100])
        return case
    try:
        real_order = [idx[t.name] for t in lexer.terminals]
        nlcode = {t.name: (t.name in lexer.newline_types) for t in terms}
    except Exception as e:
        raise C.MachineryFailure('cannot read BasicLexer.terminals/newline_types: %r' % e)
    case['T'] = [t.json(nlcode[t.name]) for t in terms]
    case['rank'] = L.rank_of(terms)
    case['SM'] = L.spelling_matrix(terms)
    case['order'] = real_order
    allidx = list(range(1, len(terms) + 1))
    pc = None
    sg = None
    if spec.get('stmts'):
        sg = structured_grammar(terms, spec['stmts'])
        try:
            with O.budget(30):
                pc = Lark(sg, parser='lalr', lexer='contextual', use_bytes=use_bytes)
                pb = Lark(sg, parser='lalr', lexer='basic', use_bytes=use_bytes)
        except Exception:
            pc = None
    overlap = L.regexps_overlap(terms) if pc is not None else True
    for text in spec['texts']:
        data = text.encode('latin1') if use_bytes else text
        M = L.match_table(terms, data, use_bytes=use_bytes)
        base = {'n': len(text), 'M': M, 'NL': L.nl_offsets(data), 'a': 0, 'text': json.dumps(text)}
        # ---- basic: Lark.lex
        toks, err, ecls, eline, ecol = [], -1, '', 0, 0
        allowed = []
        try:
            with O.budget(20):
                for t in p.lex(data):
                    toks.append(L.tok_row(idx, t, data))
        except UnexpectedCharacters as e:
            err, ecls, eline, ecol = e.pos_in_stream, 'UnexpectedCharacters', e.line, e.column
            allowed = sorted(idx[n] for n in (e.allowed or ()) if n in idx)
        except Exception as e:
            err, ecls = -3, type(e).__name__
        r = dict(base)
        r.update({'mode': 'basic', 'toks': toks, 'among': [allidx] * (len(toks) + 1), 'allowed': allowed, 'err': err, 'ecls': ecls,
                  'eline': eline, 'ecol': ecol, 'basicacc': False, 'ctxacc': False, 'same': False, 'overlap': False})
        case['runs'].append(r)
        # ---- contextual: the real lexer driven by the real parser state
        if pc is not None:
            toks, amongs, err, ecls, eline, ecol = [], [], -1, '', 0, 0
            allowed = []
            try:
                ip = pc.parse_interactive(data)
                gen = ip.lexer_thread.lex(ip.parser_state)
                while True:
                    amongs.append(sorted(idx[n] for n in ip.choices().keys() if n in idx))
                    try:
                        t = next(gen)
                    except StopIteration:
                        break
                    toks.append(L.tok_row(idx, t, data))
                    try:
                        ip.feed_token(t)
                    except UnexpectedToken:
                        err = -2
                        amongs.append([])
                        break
            except UnexpectedCharacters as e:
                err, ecls, eline, ecol = e.pos_in_stream, 'UnexpectedCharacters', e.line, e.column
                allowed = sorted(idx[n] for n in (e.allowed or ()) if n in idx)
            except UnexpectedToken as e:
                err, ecls, eline, ecol = e.pos_in_stream, 'UnexpectedToken', e.line, e.column
            except Exception as e:
                err, ecls = -3, type(e).__name__
            r = dict(base)
            r.update({'mode': 'ctx', 'toks': toks, 'among': amongs, 'allowed': allowed, 'err': err, 'ecls': ecls, 'eline': eline, 'ecol': ecol,
                      'basicacc': False, 'ctxacc': False, 'same': False, 'overlap': False})
            case['runs'].append(r)
            ob = O.parse_outcome(pb, data, positions=True)
            oc = O.parse_outcome(pc, data, positions=True)
            r = dict(base)
            r.update({'mode': 'refine', 'toks': [], 'among': [a for a in amongs if a] or [[]], 'err': -1, 'ecls': '', 'eline': 0, 'ecol': 0,
                      'basicacc': ob['out'] == 'accept', 'ctxacc': oc['out'] == 'accept',
                      'same': ob.get('tree') == oc.get('tree'), 'overlap': bool(overlap)})
            case['runs'].append(r)
    case['sgtext'] = sg
    return case


def random_stmts(terms, rng):
    kept = [t.name for t in terms if not t.ign]
    n = rng.choice([1, 2, 2, 3])
    out = set()
    for _ in range(n):
        out.add(tuple(rng.choice(kept) for _ in range(rng.choice([1, 2, 2, 3]))))
    return sorted(out)


KEYWORD_PAIRS = [('IF', 'LOW'), ('IFI', 'LOW'), ('IFI', 'UPP'), ('IFI', 'LOWI'), ('IFU', 'UPP'), ('IFU', 'LOWI'), ('IF', 'WORD'),
                 ('IN', 'IDENT'), ('A', 'AS'), ('AB', 'AOB'), ('A', 'ALT'), ('AB', 'ALT'), ('ONE', 'NUM'), ('ONE', 'WORD'),
                 ('PLUS', 'PP'), ('EQ', 'EQEQ'), ('IF', 'LOWI'), ('IFU', 'LOW')]


def specs(tier, rng, seed_bias=None):
    out = []
    keys = [k for k in L.CATALOGUE if k not in ('MLC', 'ANYS')]
    n = C.scale(2500 if tier == 'quick' else 25000)
    for i in range(n):
        terms = L.random_termset(rng, keys=keys)
        if i % 3 == 0:
            # systematic keyword/identifier pairs with every flag/priority combination
            a, b = rng.choice(KEYWORD_PAIRS)
            pa, pb = rng.choice([(0, 0), (0, 0), (1, 0), (0, 1), (1, 1), (2, 1)])
            terms = [L.Term('K' + rng.choice('ABXYZ') + '_' + a, a, prio=pa), L.Term(rng.choice('ABKLXZ') + 'R_' + b, b, prio=pb)]
            if rng.random() < 0.5:
                terms.append(L.Term('WW_SPT', 'SPT', ign=True))
            if rng.random() < 0.3:
                extra = rng.choice(keys)
                terms.append(L.Term('E' + rng.choice('ABC') + '_' + extra, extra, prio=rng.choice([0, 0, 1])))
        texts = sorted({L.random_text(rng) for _ in range(14)} | {'if', 'IF', 'iF a', 'ab', 'aab', 'a+b', '1=1', 'if in'})
        sp = {'terms': [(t.name, t.key, t.prio, t.ign) for t in terms], 'texts': texts, 'bytes': (i % 7 == 6)}
        if i % 2 == 0:
            sp['stmts'] = random_stmts(terms, rng)
        out.append(sp)
    # directed terminal sets (hunted defects 33, 34): a string embedded in a regexp that sorts AFTER another match; a regexp
    # whose lookaround fails in context; a keyword whose regexp is not acceptable in the parser state (contextual subset)
    T = lambda *rows: [list(r) + [0, False][len(r) - 2:] for r in rows]
    for terms, stmts, texts in (
        (T(('KA_A', 'A'), ('KB_X_AI', 'X_AI'), ('R_DOT', 'DOT')), None, ['a', 'ab', 'aA', 'ba', 'A']),
        (T(('KA_A', 'A'), ('KB_X_AI', 'X_AI'), ('R_DOT', 'DOT')), [('KA_A',), ('KB_X_AI', 'R_DOT')], ['a', 'Ab', 'aAb']),
        (T(('K_IF', 'IF'), ('N_NUM', 'NUM'), ('R_X_LOWNB', 'X_LOWNB')), None, ['1if', 'if1', 'a1if', 'if 1', '11if1']),
        (T(('K_IF', 'IF'), ('N_NUM', 'NUM'), ('R_X_LOWB', 'X_LOWB'), ('D_DOT', 'DOT')), None, ['if1', 'if', '1if', 'ifa1']),
        (T(('K_IF', 'IF'), ('KQ_X_IFEQ', 'X_IFEQ'), ('E_EQ', 'EQ'), ('P_PLUS', 'PLUS'), ('R_LOW', 'LOW')),
         [('K_IF', 'E_EQ', 'R_LOW'), ('KQ_X_IFEQ', 'R_LOW', 'P_PLUS')], ['if=a', 'if=a+', 'if=aif=b+', 'if=b+if=a', 'if=']),
    ):
        sp = {'terms': [tuple(t) for t in terms], 'texts': texts, 'family': 'F_term:directed'}
        if stmts:
            sp['stmts'] = stmts
        out.append(sp)
    # more than 100 terminals: one scanner built from several alternations (where the interpreter limits groups)
    for j in range(3 if tier == 'quick' else 12):
        terms = []
        for k in range(rng.choice([101, 130, 210])):
            key = rng.choice(['A', 'B', 'AB', 'IF', 'LOW', 'NUM', 'AS', 'PLUS', 'EQ', 'ONE', 'IDENT'])
            terms.append(L.Term('T%03d_%s' % (k, key), key, prio=rng.choice([0, 0, 1])))
        terms.append(L.Term('WW_SPT', 'SPT', ign=True))
        texts = sorted({L.random_text(rng) for _ in range(10)})
        out.append({'terms': [(t.name, t.key, t.prio, t.ign) for t in terms], 'texts': texts, 'family': 'F_term>100'})
    return out


def known_matcher(fnd, case):
    k = fnd.get('match', {}).get('kind')
    if k == 'keyword-spelling':
        return case.get('clause', '') == 'keyword-decided-on-spelling@known'
    if k == 'embedded-order':
        return case.get('clause', '').endswith('@known-embedded')
    if k == 'keyword-lost-in-context':
        return case.get('clause', '').endswith('@keyword-lost-in-context')
    return False


def batch_of(cases, which_keys=None):
    out = []
    for c in cases:
        runs = [{k: r[k] for k in ('n', 'M', 'NL', 'a', 'mode', 'toks', 'among', 'err', 'ecls', 'eline', 'ecol',
                                   'basicacc', 'ctxacc', 'same', 'overlap')} for r in c['runs']]
        out.append({'T': c['T'], 'rank': c['rank'], 'SM': c['SM'], 'order': c['order'], 'runs': runs})
    return {'cases': out}


def judge(pid, which, cases, ev, rep, tmp, name):
    CH = 400
    jobs = []
    for off in range(0, len(cases), CH):
        chunk = cases[off:off + CH]
        jobs.append((chunk, C.write_batch(batch_of(chunk), tmp, '%s_%s_%d.json' % (pid, name, off))))

    from concurrent.futures import ThreadPoolExecutor

    def one(path):
        return C.tlc('TraceLex', TRACE_CFG, env={'VERIF_BATCH': path, 'VERIF_WHICH': which}, workers=4, continue_=True, timeout=3000)
    with ThreadPoolExecutor(4) as ex:
        results = list(ex.map(one, [j[1] for j in jobs]))
    drift = 0
    for (chunk, path), res in zip(jobs, results):
        C.tlc_must_run(res, 'TraceLex')
        ev.add_tlc('TraceLex[%s]:%s' % (which, name), res, 'trace')
        os.remove(path)
        if res.violated and not res.verdicts:
            raise C.MachineryFailure('TraceLex violation without VERDICT line')
        for v in sorted(set(tuple(x) for x in res.verdicts)):
            tid, k, clause = int(v[0]), int(v[1]), v[2]
            c = chunk[tid - 1]
            r = c['runs'][k - 1]
            if clause.startswith('drift:'):
                drift += 1
                ev.cov.setdefault('drift_samples', []).append({'clause': clause, 'grammar': c['gtext'], 'text': json.loads(r['text'])})
                continue
            rep.violation({'property': pid, 'family': c['family'], 'grammar': c['sgtext'] if r['mode'] != 'basic' and c.get('sgtext') else c['gtext'],
                           'text': json.loads(r['text']), 'mode': r['mode'], 'clause': clause, 'spec': c['spec'],
                           'tokens': [[c['T'][t[0] - 1]['name']] + t[1:] for t in r['toks']], 'err': r['err'], 'ecls': r['ecls']})
    ev.cov['drift'] += drift
    ev.cov['drift_samples'] = ev.cov.get('drift_samples', [])[:5]
    if drift:
        print('DRIFT property=%s %d run(s) where an internal projection (terminal order / LineCounter) differs from Lexer.tla' % (pid, drift))


def run_common(pid, which, tier, seed, replay, spec_fn, mc):
    ev = C.Evidence(pid, tier, seed)
    rep = C.Reporter(pid, ev, known_matcher if pid == 'C07' else c06_matcher)
    rng = random.Random(seed)
    tmp = C.scratch_dir(pid.lower() + '_')
    try:
        if replay:
            case = json.load(open(replay))
            sp = dict(case['spec'])
            sp['texts'] = [case['text']]
            got = observe_case(sp) if pid == 'C07' else __import__('harness.c06', fromlist=['x']).observe_case(sp)
            judge(pid, which, [got], ev, rep, tmp, 'replay')
            return rep.finish()
        mc(ev, tier)
        return None, ev, rep, rng, tmp
    except Exception:
        shutil.rmtree(tmp, ignore_errors=True)
        raise


def c06_matcher(fnd, case):
    return False


def mc_lexer(ev, tier):
    for name, par in [('MC_Lexer N=2', dict(N=2, L=3))] + ([('MC_Lexer N=3', dict(N=3, L=3)), ('MC_Lexer N=4 flat', dict(N=4, L=3))] if tier == 'thorough' else []):
        res = C.tlc('MC_Lexer', (MC_CFG % par).replace('SPECIFICATION Spec', 'SPECIFICATION SpecFlat' if 'flat' in name else 'SPECIFICATION Spec'), timeout=3000)
        C.tlc_must_run(res, name)
        ev.add_tlc(name, res, 'design')
        if not res.ok:
            raise C.MachineryFailure('%s: design-level invariant %s violated' % (name, res.violated))
    # model sensitivity: the three deviations recorded as known findings are refutations of the stronger statements
    for key, spec_, inv, par in (('model_finds_spelling_deviation', 'Spec', 'L1IsL0', dict(N=2, L=2)),
                                 ('model_finds_embedded_order_deviation', 'SpecFlat', 'L1IsL0UnlessSpelling', dict(N=3, L=2)),
                                 ('model_finds_keyword_lost_in_context', 'SpecFlat', 'RestrictionRefinesByProvisoAlone', dict(N=4, L=2))):
        cfg = 'SPECIFICATION %s\nCONSTANTS\n  MaxTerms = %d\n  MaxLen = %d\nINVARIANT %s\nCHECK_DEADLOCK FALSE\n' % (spec_, par['N'], par['L'], inv)
        r2 = C.tlc('MC_Lexer', cfg, timeout=1500)
        C.tlc_must_run(r2, key)
        ev.cov['binding_selftest'][key] = bool(r2.violated)
        if not r2.violated:
            raise C.MachineryFailure('MC_Lexer accepts %s: the model is vacuous there' % inv)


def body(tier, seed, replay):
    r = run_common(PID, 'C07', tier, seed, replay, specs, mc_lexer)
    if isinstance(r, int):
        return r
    _, ev, rep, rng, tmp = r
    try:
        cases = C.pmap(observe_case, specs(tier, rng))
        skipped = [c for c in cases if c['skip']]
        cases = [c for c in cases if not c['skip']]
        ev.cov['counts']['skipped_construct'] = len(skipped)
        ev.cov['counts']['skip_reasons'] = sorted({c['skip'][:60] for c in skipped})[:6]
        for c in cases:
            ev.count('terminal_sets')
            for r_ in c['runs']:
                ev.count('runs:' + r_['mode'])
                ev.count('tokens', len(r_['toks']))
                if r_['mode'] == 'refine' and r_['basicacc'] and not r_['overlap']:
                    ev.count('refinement_preconditions_met')
        ev.cov['traces_validated_against_impl'] = sum(len(c['runs']) for c in cases)
        c = cases[len(cases) // 3]
        ev.sample({'grammar': c['gtext'], 'text': json.loads(c['runs'][0]['text']),
                   'tokens': [[c['T'][t[0] - 1]['name']] + t[1:3] for t in c['runs'][0]['toks']]})
        judge(PID, 'C07', cases, ev, rep, tmp, 'sweep')
        selftest(ev, cases, tmp)
        if ev.cov['counts'].get('tokens', 0) < 10000:
            raise C.MachineryFailure('vacuity: %s' % ev.cov['counts'])
        ev.assumptions += ["Python's re decides what each single terminal matches at a position (match table), and its width (sre_parse)",
                           'scanner chunking (group limit) is unreachable on CPython 3.12 without fault injection: >100-terminal sets exercise one alternation']
        return rep.finish()
    finally:
        shutil.rmtree(tmp, ignore_errors=True)


def selftest(ev, cases, tmp):
    import copy
    pick = [c for c in cases if any(r['mode'] == 'basic' and len(r['toks']) >= 2 for r in c['runs'])][:6]
    mut = copy.deepcopy(pick)
    expect = set()
    for ci, c in enumerate(mut[:2]):
        ri = next(i for i, r in enumerate(c['runs']) if r['mode'] == 'basic' and len(r['toks']) >= 2)
        if ci == 0:
            c['runs'][ri]['toks'][0][2] += 1          # token extent
        else:
            t = c['runs'][ri]['toks'][1]
            t[0] = (t[0] % len(c['T'])) + 1            # token type
        expect.add((ci + 1, ri + 1))
    path = C.write_batch(batch_of(mut), tmp, 'lex_self.json')
    res = C.tlc('TraceLex', TRACE_CFG, env={'VERIF_BATCH': path, 'VERIF_WHICH': 'C07'}, continue_=True, workers=2, timeout=600)
    C.tlc_must_run(res, 'selftest')
    got = {(int(v[0]), int(v[1])) for v in res.verdicts if not v[2].startswith('drift')}
    ev.cov['binding_selftest'].update({'corrupted': len(expect), 'rejected': len(got & expect)})
    if not expect <= got:
        raise C.MachineryFailure('binding self-test: corrupted %s, TLC rejected %s' % (sorted(expect), sorted(got)))


if __name__ == '__main__':
    C.run_check(PID, body)
