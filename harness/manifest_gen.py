"""Generates /verif/MANIFEST.json from the table below (kept in one place so it stays valid)."""
import json
import os

VERIF = os.path.dirname(os.path.dirname(os.path.abspath(__file__)))

CHECKS = {
    'C01': dict(
        technique='TLA+ Earley worklist machine model-checked against an LFP language definition (TLC) + batch trace validation of real accept/reject outcomes and chart columns by TLC',
        text='TLC proves on the bounded family F_bnf that every behaviour of the Earley machine (any worklist order) accepts exactly the least-fixpoint language; the same TLA+ language definition then judges the real accept/reject outcome of every grammar of that family and of an overlapping-terminal family under all three Earley lexers, and the real chart columns are compared with the machine. An EBNF family (random grammars with ? * + ~n..m [..] groups, inlined and ! rules) is judged for acceptance against the denotational EBNF.tla meaning, a nullable-chain family exercises held completions, and XEarley.tla model-checks the dynamic scanner (delayed matches, ignore carry-over) against the character-level language.',
        note='bounded families (<=3 rules/<=4 in thorough, inputs <=5); Python re trusted for single-terminal matching; greedy-not-longest regexps excluded by the reading',
        ref='6/C01'),
}

CHECKS['C02'] = dict(
    technique='TLA+ LR(0)/LALR(1) spec: DeRemer-Pennello transcription model-checked against LR(1) look-ahead propagation (TLC) + trace validation of real parse tables, GrammarErrors, parse outcomes and InteractiveParser stacks/choices/accepts',
    text='TLC proves on F_bnf that lark\'s DeRemer-Pennello look-aheads equal LR(1)-propagation look-aheads on reduced grammars and that the driver with lark\'s conflict policy is sound and (without S/R conflicts) complete; the same TLA+ definitions then judge the real debug parse table state by state, the GrammarError decision, the accept/reject outcome under both lexers and every intermediate stack, choices() and accepts() of the real InteractiveParser.',
    note='bounded families (<=3 rules, inputs <=4, priorities on rule names); table exactness on reduced grammars judged against L0, on non-reduced against the L1 transcription',
    ref='6/C02')

CHECKS['C08'] = dict(
    technique='TLA+ viable-prefix / next-terminal definitions (LFP over open spans) with Earley and LALR error branches model-checked against them (TLC) + trace validation of every real rejection (class, position, expected/allowed/accepts)',
    text='TLC proves on F_bnf that the Earley machine and the LALR driver stop at the first token after which the prefix is not viable (productive / reduced conflict-free grammars) and expect exactly the legal next terminals; the same TLA+ definitions judge class, pos_in_stream, expected/allowed and accepts of every rejection the real lark raises on F_bnf, F_rand and inputs with ignored and unknown characters under five parser/lexer pairs (CYK sampled). A look-ahead-merging family (grammars whose acceptable set depends on the whole stack, all terminal permutations, every input through one parser instance) pins accepts()/expected after merged reduce states.',
    note='single-character terminals so that offsets are certain, plus TraceXScan.tla: the dynamic lexers over multi-character terminals against the scanner machine of XEarley.tla, and TraceLex mode C08A: allowed sets of the basic and contextual lexers; LALR on S/R or non-reduced grammars judged against the automaton of LALR.tla; three known findings (non-reduced grammars, LALR loop, $END missing from expected under the contextual lexer)',
    ref='6/C08')

CHECKS['C07'] = dict(
    technique='TLA+ lexer spec (documented order + keyword rule as L0, unless/embedded mechanism as L1) model-checked over finite-language terminals (TLC) + trace validation of real basic and contextual token streams and basic-vs-contextual parse results',
    text='TLC proves over all small terminal sets (finite languages, priorities, ignore, every text) that the unless/embedded mechanism equals the documented first-match-in-order + keyword rule except for the named spelling deviation, and that restricting the lexer to a context containing the types of its tokens does not change them (contextual refinement); the same operators judge every token (type, extent, error offset) the real Lark.lex and the real contextual lexer (driven by the real parser state) produce on random terminal sets from a catalogue, str and bytes, >100 terminals, and compare basic/contextual parse results.',
    note="Python re and sre_parse decide single-terminal matches and widths; scanner chunking unreachable on CPython 3.12; deviations of the unless/embedded mechanism are classified by TLC (DevKind) into three known findings (keyword decided on spelling; embedded string removed from the order; keyword lost in a contextual subset), each of which MC_Lexer must refute as a stronger statement",
    ref='6/C07')
CHECKS['C06'] = dict(
    technique='TLA+ LineCounter machine model-checked against the newline-count definition of coordinates (TLC) + trace validation of real token coordinates (four lexers, str/bytes) and Tree.meta spans',
    text='TLC proves that the LineCounter machine yields exact coordinates iff every newline-matching token is fed with the newline test on (the flag obligation); the same Coord definition then judges line/column/end_line/end_column of every token the real basic and contextual lexers yield on newline-heavy terminal sets (\\W \\D [\\x00-\\x20] \\012 (?s:.) ...), of every token inside parse trees under all four lexers for str and bytes, and Tree.meta (first-to-last matched token incl. filtered ones, children ordered/disjoint/nested). MC_TreeBuilder model-checks the span and container laws of PropagatePositions over all nestings of a catalogue of rule shapes (and refutes the span law where a ?rule returns a bare token - a known finding confirmed on the real parser); the span law is then judged in TLC at the grain of every real LALR reduction, with the extent of a node computed through the recorded reductions; results obtained through interactive forks (copy/as_immutable + resume_parse/exhaust_lexer) are included.',
    note='token extents and newline offsets are read off the text; end-coordinate convention per lexer family as stated; explicit-ambiguity trees judged by the nesting law only (TraceSpans.tla); two known findings (token through ?rule; _ambig child skipped)',
    ref='6/C06')

CHECKS['C03'] = dict(
    technique='TLA+ denotational semantics of lark EBNF with the documented shaping (EBNF.tla, known answers from the docs checked by TLC) + trace validation of every tree returned by every parser/lexer pair and option setting',
    text='EBNF.tla defines, independently of lark\'s BNF compilation and tree builder, the set of shaped trees of an input for a grammar as written (?, !, _, aliases, [..] placeholders, ? * + ~n..m, groups); TLC first checks it against the examples of docs/tree_construction.md and the count laws, then judges every tree the real lark returns on random EBNF grammars (depth<=3, <=3 rules) under Earley (3 lexers), LALR (2 lexers) and CYK with keep_all_tokens/maybe_placeholders on and off: the tree must be one of the shaped derivations, hence all engines agree when there is one. Compile.tla specifies the compilation itself (EBNF_to_BNF, SimplifyRule_Visitor, Grammar.compile: alternatives, helper rules with the numbering of lark, empty_indices, merging and pruning) and MC_Compile closes the chain on a catalogue of grammars: the shaped derivations of the compiled grammar are exactly the trees the written grammar means; the rules the real lark compiles for random grammars are compared with Compiled(G), names included. One level below, TreeBuilder.tla specifies the rule callback chain (child filter with placeholders, splicing of _rules, ?rule, PropagatePositions); every reduction of the real LALR parser is recorded (rule, children, result) and must equal Callback(rule, children) in TLC (drift level, drifting cases re-judged on the returned tree).',
    note='token level (single-character terminals), grammars with derivation cycles excluded (the oracle enumerates derivations); conventions (a)-(c) of DESIGN 6/C03',
    ref='6/C03')
CHECKS['C04'] = dict(
    technique='same EBNF.tla oracle: TLC expands the _ambig nodes of the real ambiguity=explicit result and compares the set with the set of shaped derivations; cyclic BNF grammars: every tree checked to be a derivation tree (CFG-level validity operator)',
    text='For every grammar/input/option setting of the EBNF family and of F_bnf/F_rand (acyclic) TLC computes Expand(result) and the set of all shaped derivations from EBNF.tla: none may be missing, none spurious; CollapseAmbiguities must agree with the expansion; for cyclic grammars parsing must terminate within the budget and every expanded tree must be a derivation tree of the input. Overlapping multi-character terminals (F_mtok): the harness enumerates every tokenisation of the text per lexer mode and TLC unions their derivations (TreesOfText), which makes \'ambiguity inside terminals\' under dynamic_complete decidable; the explicit-ambiguity callback chain (AmbiguousExpander, AmbiguousIntermediateExpander) is specified in TreeBuilder.tla (CallbackAmb) and every real Earley callback invocation is validated against it; a directed family combines ambiguous rule prefixes with ambiguous inlined children.',
    note='completeness compared up to the first-empty-spelling convention (Canon); derivation sets above the size TLC enumerates comfortably are avoided by short inputs (<=5 tokens)',
    ref='6/C04')

CHECKS['C09'] = dict(
    technique='TLA+ transcription of small_factors/_generate_repeats over count sets model-checked for all 0<=n<=m<=B (TLC) + trace validation of the really generated rules (derived count sets as a fixpoint), terminal form, and parses around the bounds judged by EBNF.tla',
    text='TLC proves that the factored helper-rule construction matches exactly n..m for every pair up to B (150 quick / 400 thorough) including the loop invariant target_opt = 0..target-1; the rules the real lark generates for X~n..m are read back and TLC derives their count set as a least fixpoint; parses of x^k around the bounds for x a terminal, anonymous token, group, alternative group, optional group, rule, inlined rule and template argument are judged by the EBNF oracle (accept/reject, k consecutive children, no helper nodes) under Earley and LALR. Inside terminals: random terminal-level expressions are compiled by lark and the language of the compiled pattern (re.fullmatch) is judged by TLC against the EBNF.tla meaning of the same expression (LANG judgement).',
    note='0<=n<=m only; terminals that can match the empty string excluded as stated',
    ref='6/C09')
CHECKS['C20'] = dict(
    technique='TLA+ machine of ForestVisitor.visit model-checked on all small graphs incl. cyclic (termination as liveness under fairness) + trace validation of real visit() callback sequences (synthetic graphs and real SPPFs) + TreeForestTransformer results judged against the derivation-set oracle',
    text='TLC proves on every graph with 3 inner nodes and a token leaf (successor lists with repetitions, both single_visit settings) that the walk terminates, keeps no node twice on the path, reports cycles exactly on back edges; the callback sequence of the real visit() on the same graphs, on random larger graphs and on the real forests of parses (cyclic grammars included) must be exactly the machine\'s; TreeForestTransformer(resolve_ambiguity=False) expanded must equal the set of unshaped derivation trees of the compiled rules (EBNF.tla over lark\'s compiled rules), resolve_ambiguity=True one of them, is_ambiguous false on single derivations; cyclic grammars: termination and every tree a valid derivation tree. EarleyForest.tla adds the shared packed forest to the Earley machine and XEarleyForest.tla to the dynamic scanner (delayed matches, relabelling over ignored text): TLC proves that the forest stands for exactly the derivations (of all tilings of the text), each once, refutes the pinned carry-over of completed start items, and the labelled families of real forests are compared with those of the machine. The overlapping-terminal family F_mtok (tokenisations enumerated, ignores overlapping terminals, directed one-symbol start rules over terminals with optional tails) judges forests under dynamic and dynamic_complete: soundness and the derivation count position-exact, completeness modulo token positions (lark merges token nodes by type and text).',
    note='unshaped derivations are over the compiled rules (C03 judges the compilation); three Earley lexers',
    ref='6/C20')

CHECKS['C05'] = dict(
    technique='TLA+ derivation-set oracle with priority sums (MaxPrio/MinPrio over all derivations, empty-alternative precedence) evaluated by TLC on every real ambiguity=resolve result, obtained in fresh processes under several PYTHONHASHSEED values',
    text='For every grammar (ambiguous templates, F_bnf, F_rand with random signed rule and terminal priorities), mode normal/invert/None and lexer basic/dynamic, TLC enumerates all derivations (EBNF.tla), computes their total priorities and judges the tree the real lark returned: it is a derivation, its priority is the maximum (minimum under invert) for grammars without directly empty alternatives, an empty alternative is used only where no non-empty one matches, priority=None returns what the priority-free grammar returns, and the tree is identical across 5 (quick) / 16 (thorough) hash seeds in separate processes, repeated calls and a second instance. Resolve.tla specifies the resolver itself (the priority cascade of ForestSumVisitor and the packed-node sort key on the forest of EarleyForest.tla): TLC proves on all ambiguous instances of the bounded family and all priority assignments that the result is a derivation and, without empty rules, priority-optimal - and refutes optimality with empty rules, which is the exemption the reading makes. An overlapping-terminal family (A AB AA B BA with random terminal and rule priorities) makes terminal priorities decisive under the dynamic lexers: optimality is judged over the union of the derivations of all tokenisations.',
    note='hash-seed independence sampled, not proved; single-character terminals (terminal priorities add a constant per input)',
    ref='6/C05')

CHECKS['C18'] = dict(
    technique='TLA+ Indenter machine model-checked against the stated nesting laws over all short streams (TLC) + trace validation of a real Indenter subclass on the exhaustive stream family and on multi-stream histories, and of PythonIndenter on generated programs cross-checked with CPython tokenize',
    text='TLC proves on all streams of <=6 tokens (newlines with indents 0..3, brackets, other) the laws of the statement (level stack strictly increasing, INDENT only after a newline with larger indentation, one DEDENT per closed level also at the end, newlines inside brackets swallowed, DedentError exactly on a dedent to a non-open column, balance at end); the real Indenter is run on the same family with tab/space spellings and on histories of 2-3 streams on one object (DedentErrors, abandoned generators) and every emitted token is compared with the machine restarted from Reset; generated programs go through Lark(python.lark, PythonIndenter).lex and CPython\'s tokenizer and TLC compares the nesting depth of every content token.',
    note='CPython cross-check on space-only indentation with balanced brackets, programs may end in a comment without line break (token kind NLC); stray closing bracket (assert) modelled but not judged',
    ref='6/C18')

CHECKS['C13'] = dict(
    technique='TLA+ model of interactive-parser handles over a heap (in-place list extension, deep vs shallow copy) model-checked with TLC; every exported behaviour replayed on real InteractiveParser objects and re-validated by a trace specification',
    text='TLC proves OwnHistory/NoSharing for all fork/feed/copy/as_immutable/as_mutable/accepts sequences within the bound under the code\'s copy discipline and exhibits the counterexample under a shallow one (model sensitivity); every exported behaviour is executed on real parsers of five grammars (inlined left recursion, EBNF star, ?-rule with propagate_positions, placeholders, nesting) and TraceInteractive.tla re-executes it, checking after every operation that each live fork equals a fresh parser fed the history the specification assigns to it (state stack, value stack, token positions, tree meta incl. container_*), that accepts() equals trial feeding and leaves the parser unchanged, and that feed_eof equals parse(); resume_parse is compared with parsing the text without the skipped tokens. InteractiveLex.tla models parsers that lex their own text (lexer-thread cells, the thread a handle owns vs the one its parser state refers to): TLC proves NoSkip/ResultOwn for the design in which a copy rebinds its state\'s lexer and refutes the pinned design; every exported behaviour is replayed on real parsers and TraceILex checks step by step that each real handle was fed exactly the tokens the model says.',
    note='bounded: <=3 (4) handles, <=5 (6) operations, 3 token kinds; state compared through digests; grammars with prefixed and caseless terminal names; expected sets of UnexpectedToken against the feedable terminals; forks at value-stack depth 20..900 (one known finding: copy() recursion)',
    ref='6/C13')

CHECKS['C12'] = dict(
    technique='TLA+ model of the cache protocol (reader steps, non-atomic writer with crash points, truncation/corruption classes, import edits, build histories) model-checked with TLC; real file states (every truncation offset, byte substitutions, files for other keys) executed in killable children and judged by the reader of the specification',
    text='TLC proves on all histories of <=3 (4) builds over 3 keys and 2 import contents with crashes between writer steps, truncation and corruption of each segment that every served parser is the one an uncached build gives, except in the single file state header+used-files intact / body payload altered (exhibited as counterexample), that no parser for another key is ever served and that an uninterrupted build leaves a valid entry; the real constructor is then run on real files - truncated at every offset (every 5th beyond 140 in quick), single-byte substitutions, entries written for another grammar, option set (incl. sets differing only in a falsy value or in import_paths), import content and lark version, random histories - each construction in a forked child killed on timeout, and TraceCache.tla judges raised/hang/served behaviour/recompilation/validity of the file afterwards.',
    note='behaviour compared on 9 probe inputs with positions and meta; two known findings (altered body served; pickle can block)',
    ref='6/C12')

CHECKS['C10'] = dict(
    technique='TLA+ model of the cells shared by calls on one Lark instance (lazy scanner construction, publication of the callback dict) model-checked with TLC over all interleavings; real call histories and real two-thread executions under a deterministic line-level scheduler (switch points = writes to shared objects found by AST query) judged by a trace specification',
    text='TLC proves ResultIsDenote for all interleavings of 2 (3) threads over the lazy-initialisation protocol when the callback dict is published complete, and produces the interleaving that breaks early publication (3 context switches); on the real code every call of every history of <=3 calls (parse ok / lexer error / parser error, abandoned lex, scan and interactive sessions, other instances; 9 configurations incl. a stateful Indenter post-lexer and pure lexer_callbacks) is compared with a fresh instance, and two threads are run on one instance under a settrace scheduler for every schedule with <=2 switches on a grid plus 3-switch schedules around each write to an object shared between calls; TraceAPI.tla judges every result.',
    note='line-grain scheduling (CPython may switch between bytecodes); post-lexer configurations only in histories, as stated',
    ref='6/C10')

CHECKS['C14'] = dict(
    technique='TLA+ specification of scan() composed from the lexer and LALR specifications (leftmost successful attempt, longest completion as L0; the position bookkeeping of the loop as L1, L1=L0 checked on every judged run) evaluated by TLC on the spans the real scan() yields',
    text='For random LALR grammars (keywords, priorities, nullable starts, ignored terminals that overlap kept ones) and texts, windows (TextSlice) and bytes, TLC computes from the regex-oracle match table the in-context tokenisation from every candidate start, feeds the LR(1)-propagation automaton, and derives the list of leftmost-longest matches; the real scan() under the basic and contextual lexers must yield exactly these spans, in increasing non-overlapping order, each value equal to parse(snippet) and carrying buffer coordinates.',
    note='in-context tokenisation reading of "snippet that parses" judged first (hard verdict); the substring reading judged second by TLC over the set of substrings that parse on their own (known finding where the two part); value/coordinate equalities computed on the real objects',
    ref='6/C14')

CHECKS['C15'] = dict(
    technique='window/representation parameters of the TLA+ lexer and LineCounter specifications (model-checked for every window start) + trace validation by TLC of real results for bytes and TextSlice variants against the real result of the extracted substring shifted, and against Coord over the buffer',
    text='For random terminal sets and tree grammars, buffers with newlines and every kind of window (complete, inner, after a newline, negative indices), each parser/lexer pair that accepts the representation parses the window as TextSlice, bytes TextSlice and bytes substring; TLC compares the flattened result (token types and values, node labels, offsets, meta) with the parse of the extracted substring as str shifted by the window start, recomputes every line/column from the newline offsets of the whole buffer, and compares error class, position and coordinates.',
    note='ASCII input; dynamic lexers accept str, bytes and complete slices; patterns above 0x7f in bytes mode and the stock Indenter post-lexer included; one known finding (end of input on a window without tokens reported at 0/1/1)',
    ref='6/C15')

CHECKS['C16'] = dict(
    technique='TLA+ machines of the four transformer traversals model-checked against the bottom-up fold over all ordered trees <=6 (8) nodes (TLC) + trace validation of real results and callback logs of the embedded transformer and the four classes against FoldT of the plain tree',
    text='TLC proves for every ordered tree up to the bound that Transformer/_InPlaceRecursive (recursion), _NonRecursive (reversed postfix + value stack) and _InPlace (iter_subtrees order) return the fold and run each callback exactly once, children before parents; on random EBNF LALR grammars with symbolic pure callbacks (plain, inline, tree and wrapper v_args styles; the node data is part of the value) on random subsets of rules, aliases and named terminals, TLC computes FoldT of the plain parse tree and judges the value and the callback log of Lark(..., transformer=T).parse and of the four classes. Callbacks on underscore-named and anonymous terminals (kept by ! or keep_all_tokens) are included; for the embedded transformer token callbacks are lexer callbacks (may see filtered tokens), so once-per-node is required of rule callbacks and of the four transformer classes.',
    note='callbacks only where the statement allows them; no Discard, no meta; transformers with visit_tokens=False and callbacks named like inlined rules included',
    ref='6/C16')

CHECKS['C11'] = dict(
    technique='TLA+ model of Serialize/SerializeMemoizer over object graphs with sharing (round trip preserves the unfolding; TLC over all small DAGs) + trace validation by TLC of every call result of loaded, cached and stand-alone instances against the directly built instance, with fault-injected field coverage',
    text='TLC proves for all DAGs of 3 (4) objects with memoised and inlined classes that deserialize(serialize(x)) has the unfolding of x; on random EBNF grammars, catalogue terminal sets (regex flags, bytes), hand-written grammars with imports, templates, priorities, several start symbols, global regex flags and >100 terminals, under seven option sets, four instances - direct, save->load, second cache= construction, module generated by python -m lark.tools.standalone - run parse, an interactive walk (tokens, accepts, result) and scan on accepted and rejected inputs and TLC compares every result (trees with token positions and meta, error class/position/expected sets) with the direct instance; one serialised field at a time is altered to measure which fields the run can observe. A history of instantiations of one stand-alone module (an instance with load-time options, then a plain one) must leave the plain instance equal to the directly built parser.',
    note='comparison through JSON renderings (the stand-alone module has its own classes); cache-key defects are C12\'s business',
    ref='6/C11')

CHECKS['C17'] = dict(
    technique='TLA+ definition of what %import (renaming layers, dependencies), %override, %extend and template instantiation mean - the written-out grammar as data for the EBNF.tla semantics - evaluated by TLC against real parses of module systems written as real .lark files',
    text='Imports.tla assembles, from a module system (main + up to two modules, multi / single / renaming imports, transitive imports, same-named local rules, %override/%extend of imported rules, templates), the grammar with every definition written out under its documented name (alias, or module__name layer by layer, aliases of alternatives included); TLC computes the shaped trees of each input from that grammar with EBNF.tla and judges language and trees of the real Lark(main.lark) under Earley and LALR; terminals built from other terminals and %extend/%override of imported terminals are covered through the spelling of the tokens. Templates defined in imported modules (imported by name, renamed, or reached transitively, with parameters named like rules of the importing grammar) are part of the family; the generator is collision-free so that a GrammarError of the modular grammar under Earley is a verdict.',
    note='module rule names without leading underscore (TLC strings are atomic; aliases carry the flag under); statements naming one module are merged; terminals renamed across the underscore boundary; literal template arguments; terminal languages (finite) spelled out by the harness',
    ref='6/C17')

CHECKS['C19'] = dict(
    technique='TLA+ predicate for the class the Reconstructor supports (over the compiled rules) and the space-insertion law, evaluated by TLC on every real reconstruction; round trip parse(reconstruct(tree)) == tree judged inside the class',
    text='For random EBNF grammars with all shaping features, whitespace ignored, string and regexp terminals (including ones that start with a non-identifier and end with an identifier character) and placeholders off, every parse tree of sampled inputs goes through the real Reconstructor; TLC decides from the compiled rules whether the parser is in the supported class (filtered terminals writable, every alternative keeps an unfiltered symbol other than the rule itself, no useless rules, unambiguous by strict LALR construction) and inside it judges that reconstruct does not raise, puts blanks exactly where two identifier characters meet, and that the text re-parses to an equal tree. An expression/call grammar is reconstructed statement by statement in every order by one Reconstructor instance (the matcher keeps state between trees). Matcher.tla specifies the matching grammar of lark.tree_matcher; TLC proves on a catalogue of grammars that every node the parser can build (TreeBuilder.tla over CFG.tla derivations) is matched through root rules of its own rule, finds the two known gaps when their exemptions are removed, and compares the rules of every real TreeMatcher with the specification.',
    note='two known findings (?rule over an inlined repetition; alias shared by two rules)',
    ref='6/C19')

NOT_APPLICABLE = []


def main():
    checks = []
    for pid in sorted(CHECKS):
        c = CHECKS[pid]
        checks.append({
            'property_id': pid,
            'quick_cmd': 'bin/check %s --tier quick' % pid,
            'thorough_cmd': 'bin/check %s --tier thorough' % pid,
            'evidence_file': 'evidence/%s.json' % pid,
            'replay_cmd_template': 'bin/check %s --replay {path}' % pid,
            'engine': 'tlc+lark-conformance',
            'level_claimed': {'category': 'model_checking', 'text': c['text'], 'design_ref': c['ref']},
            'level_note': c['note'],
            'technique': c['technique'],
        })
    m = {
        'version': 1,
        'setup_cmd': 'bin/setup',
        'hooks': {
            'guard': 'LARK_VERIF',
            'enable': 'LARK_VERIF=1 in the environment of the check; the recorder wraps lark from outside (harness/), no in-source hooks',
            'baseline_off_cmd': 'cd /repo && env -u LARK_VERIF /venv/bin/python -m pytest -ra -q -p no:cacheprovider --timeout=900 --continue-on-collection-errors',
            'source_commits': [],
            'add_only': True,
        },
        'engines': [{'name': 'tlc+lark-conformance', 'path': 'bin/check',
                     'serves_properties': sorted(CHECKS),
                     'kind_free_text': 'explicit TLA+ specification (spec/*.tla) checked with TLC; conformance by batch trace validation (code->spec) and replay of TLC behaviours (spec->code)'}],
        'checks': checks,
        'not_applicable': NOT_APPLICABLE,
        'notes': 'See DESIGN.md. Exit codes: 0 held, 1 VIOLATION, 2 MACHINERY-FAILURE.',
    }
    with open(os.path.join(VERIF, 'MANIFEST.json'), 'w') as f:
        json.dump(m, f, indent=1)
    print('MANIFEST.json: %d checks' % len(checks))


if __name__ == '__main__':
    main()
