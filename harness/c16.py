"""C16 - embedded transformer equals transforming afterwards; the transformer variants agree.

design : Transform.tla: Transformer / _NonRecursive / _InPlace / _InPlaceRecursive as machines over all trees <= 6 nodes
         (MC_Transform): each returns the fold, runs every callback once per node, children before parents
binding: TraceTransform.tla: symbolic pure callbacks (plain, v_args(inline=True), v_args(tree=True)) on random subsets of
         rules, aliases and named terminals of random EBNF grammars; the value and the callback log of
         Lark(..., transformer=T).parse and of the four transformer classes are judged against FoldT(plain tree).
"""
import copy
import itertools
import json
import os
import random
import shutil

from . import common as C
from . import observe as O
from . import ebnf as E
from . import c03

PID = 'C16'
TRACE_CFG = 'SPECIFICATION Spec\nINVARIANT VerdictOk\nCHECK_DEADLOCK FALSE\n'


def val4(v):
    """callback results are already 4-lists; trees/tokens/None that were left alone are converted"""
    from lark import Tree, Token
    if isinstance(v, list) and v and v[0] in ('C', 'K'):
        return [v[0], v[1], v[2], [val4(x) for x in v[3]]]
    if isinstance(v, Tree):
        return ['R', str(v.data), 0, [val4(x) for x in v.children]]
    if isinstance(v, Token):
        return ['T', str(v.type), v.start_pos, []]
    if v is None:
        return ['N', '', 0, []]
    return ['O', repr(v)[:30], 0, []]


def make_transformer(base, names, tnames, style, log, vt=True):
    from lark import v_args

    def rule_cb(name):
        if style == 'inline':
            def f(self, *args):
                r = ['C', name, 0, list(args)]
                log.append(r)
                return r
            return v_args(inline=True)(f)
        if style == 'tree':
            def f(self, tree):
                r = ['C', str(tree.data), 0, list(tree.children)]      # the node's data is part of what the callback sees
                log.append(r)
                return r
            return v_args(tree=True)(f)

        if style == 'wrapper':
            def w(func, data, children, meta):
                return func(str(data), children)

            def f(self, data, children):
                r = ['C', data, 0, list(children)]
                log.append(r)
                return r
            return v_args(wrapper=w)(f)

        def f(self, args):
            r = ['C', name, 0, list(args)]
            log.append(r)
            return r
        return f

    def tok_cb(name):
        def f(self, tok):
            r = ['K', name, tok.start_pos, []]
            log.append(r)
            return r
        return f
    ns = {n: rule_cb(n) for n in names}
    ns.update({t: tok_cb(t) for t in tnames})
    # visit_tokens=False: the class still HAS the token callbacks, but is told not to use them (hunted defect 48: the embedded
    # transformer applied them all the same)
    return type('T_' + style, (base,), ns)(visit_tokens=vt)


def observe_case(spec):
    import logging
    logging.disable(logging.CRITICAL)
    from lark import Lark
    from lark.visitors import Transformer, Transformer_NonRecursive, Transformer_InPlace, Transformer_InPlaceRecursive
    from lark.exceptions import UnexpectedInput
    G = spec['G']
    gtext = E.grammar_text(G)
    case = {'gtext': gtext, 'skip': '', 'items': [], 'spec': spec}
    try:
        with O.budget(30):
            plain = Lark(gtext, parser='lalr', maybe_placeholders=spec['ph'], keep_all_tokens=spec['ka'])
    except Exception as e:
        case['skip'] = type(e).__name__
        return case
    names, tnames, style = spec['names'], spec['tnames'], spec['style']
    vt = spec.get('vt', True)
    elog = []
    try:
        emb = Lark(gtext, parser='lalr', maybe_placeholders=spec['ph'], keep_all_tokens=spec['ka'],
                   transformer=make_transformer(Transformer, names, tnames, style, elog, vt))
        # the other three classes embedded as well (one of them per case, to keep the run short)
        ocls = (Transformer_NonRecursive, Transformer_InPlace, Transformer_InPlaceRecursive)[len(gtext) % 3]
        olog = []
        oemb = Lark(gtext, parser='lalr', maybe_placeholders=spec['ph'], keep_all_tokens=spec['ka'],
                    transformer=make_transformer(ocls, names, tnames, style, olog, vt))
    except Exception as e:
        case['skip'] = 'embedded: ' + type(e).__name__
        return case
    for w in spec['inputs']:
        text = E.to_text(w)
        try:
            tree = plain.parse(text)
        except UnexpectedInput:
            continue
        if not hasattr(tree, 'children'):
            continue
        variants = []
        del elog[:]
        try:
            r = emb.parse(text)
            variants.append(['embedded', val4(r), [val4(x) for x in elog]])
        except Exception as e:
            variants.append(['embedded', ['O', 'EXC:' + type(e).__name__, 0, []], []])
        del olog[:]
        try:
            r = oemb.parse(text)
            variants.append(['embedded-' + ocls.__name__, val4(r), [val4(x) for x in olog]])
        except Exception as e:
            variants.append(['embedded-' + ocls.__name__, ['O', 'EXC:' + type(e).__name__, 0, []], []])
        for cls in (Transformer, Transformer_NonRecursive, Transformer_InPlace, Transformer_InPlaceRecursive):
            log = []
            t = make_transformer(cls, names, tnames, style, log, vt)
            try:
                r = t.transform(copy.deepcopy(tree))
                variants.append([cls.__name__, val4(r), [val4(x) for x in log]])
            except Exception as e:
                variants.append([cls.__name__, ['O', 'EXC:' + type(e).__name__, 0, []], []])
        case['items'].append({'tree': c03.tree4(tree), 'cbs': list(names) + (list(tnames) if vt else []), 'variants': variants, 'w': list(w), 'text': text})
    return case


def specs(tier, rng):
    out = []
    short = [w for k in range(0, 3) for w in itertools.product(['A', 'B', '_C', 'D'], repeat=k)]
    for i in range(C.scale(4000 if tier == 'quick' else 30000)):
        G = E.rand_grammar(rng, depth=2 if i % 4 else 3)
        ins = set(rng.sample(short, 6))
        for _ in range(10):
            s = E.sample_sentence(G, rng, maxlen=6)
            if s is not None:
                ins.add(s)
        # callbacks named like INLINED _rules too (every third grammar): such a node never reaches a transformer, so the callback
        # must not run - embedded neither (hunted defect 49)
        rnames = [r['name'] for r in G['rules'] if i % 3 == 0 or not r['name'].startswith('_')]
        aliases = sorted({a['alias'] for r in G['rules'] for a in r['alts'] if a['alias']})
        cand = rnames + aliases
        names = [n for n in cand if rng.random() < 0.6]
        tnames = [t for t in ('A', 'B', '_C', 'D') if rng.random() < 0.5]      # _C / D reach the tree only under ! or keep_all_tokens
        out.append({'G': G, 'ka': rng.random() < 0.3, 'ph': rng.random() < 0.7, 'inputs': sorted(ins), 'names': names, 'tnames': tnames,
                    'style': rng.choice(['plain', 'inline', 'tree', 'tree', 'wrapper']), 'vt': i % 5 != 4})
    return out


def judge(items, ev, rep, tmp, name):
    CH = 2500
    jobs = []
    for off in range(0, len(items), CH):
        chunk = items[off:off + CH]
        jobs.append((chunk, C.write_batch({'cases': [{k: it[k] for k in ('tree', 'cbs', 'variants')} for it in chunk]}, tmp, 'c16_%s_%d.json' % (name, off))))
    results = C.tlc_parallel('TraceTransform', TRACE_CFG, [j[1] for j in jobs], continue_=True, timeout=3000)
    for (chunk, path), res in zip(jobs, results):
        C.tlc_must_run(res, 'TraceTransform')
        ev.add_tlc('TraceTransform:%s' % name, res, 'trace')
        os.remove(path)
        if res.violated and not res.verdicts:
            raise C.MachineryFailure('TraceTransform violation without VERDICT line')
        for v in sorted(set(tuple(x) for x in res.verdicts)):
            it = chunk[int(v[0]) - 1]
            sp = dict(it['spec'])
            sp['inputs'] = [it['w']]
            rep.violation({'property': PID, 'clause': v[2], 'grammar': it['gtext'], 'text': it['text'], 'callbacks': it['cbs'], 'style': it['spec']['style'],
                           'plain_tree': it['tree'], 'variant': it['variants'][int(v[1]) - 1], 'spec': sp})


def body(tier, seed, replay):
    ev = C.Evidence(PID, tier, seed)
    rep = C.Reporter(PID, ev)
    rng = random.Random(seed)
    tmp = C.scratch_dir('c16_')
    try:
        if replay:
            case = json.load(open(replay))
            sp = case['spec']
            sp['inputs'] = [tuple(w) for w in sp['inputs']]
            c = observe_case(sp)
            items = [dict(it, gtext=c['gtext'], spec=c['spec']) for it in c['items']]
            judge(items, ev, rep, tmp, 'replay')
            return rep.finish()
        res = C.tlc('MC_Transform', 'SPECIFICATION Spec\nCONSTANT MaxNodes = %d\nINVARIANT AllFold\nINVARIANT AllGoodLogs\nINVARIANT SameOrderRecNonRec\nCHECK_DEADLOCK FALSE\n'
                    % (6 if tier == 'quick' else 8), timeout=3000)
        C.tlc_must_run(res, 'MC_Transform')
        ev.add_tlc('MC_Transform (all ordered trees)', res, 'design')
        if not res.ok:
            raise C.MachineryFailure('MC_Transform: %s violated' % res.violated)
        cases = C.pmap(observe_case, specs(tier, rng))
        items = []
        for c in cases:
            ev.count('skipped' if c['skip'] else 'grammars')
            for it in c['items']:
                items.append(dict(it, gtext=c['gtext'], spec=c['spec']))
                ev.count('trees')
                ev.count('callback_calls', sum(len(v[2]) for v in it['variants']))
        ev.cov['traces_validated_against_impl'] = len(items) * 6
        it = next(i for i in items if len(i['variants'][0][2]) >= 3)
        ev.sample({'grammar': it['gtext'], 'text': it['text'], 'callbacks': it['cbs'], 'embedded_result': it['variants'][0][1]})
        judge(items, ev, rep, tmp, 'sweep')
        if ev.cov['counts'].get('callback_calls', 0) < 20000:
            raise C.MachineryFailure('vacuity: %s' % ev.cov['counts'])
        ev.assumptions += ['callbacks only on named non-underscore rules, aliases and named kept terminals; __default__/__default_token__ untouched; no Discard, no meta (statement)']
        return rep.finish()
    finally:
        shutil.rmtree(tmp, ignore_errors=True)


if __name__ == '__main__':
    C.run_check(PID, body)
