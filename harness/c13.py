"""C13 - interactive parser: forks independent, accepts() exact, resume equals parse.

design : Interactive.tla (handles over a heap, in-place list extension, deep vs shallow copy): TLC proves OwnHistory /
         NoSharing for the code's copy discipline and produces the counterexample for a shallow one
binding: spec -> code -> spec.  Every behaviour TLC exports (all op sequences of the bound) is executed on real
         InteractiveParser / ImmutableInteractiveParser objects of several grammars; TraceInteractive.tla re-executes it
         and judges the recorded digests (fork vs fresh parser fed the handle's own history, accepts() vs trial feeding,
         feed_eof vs parse()).  resume_parse(): code -> spec on generated erroneous inputs.
"""
import hashlib
import json
import os
import random
import shutil
from copy import copy

from . import common as C
from . import observe as O

PID = 'C13'
TRACE_CFG = 'SPECIFICATION Spec\nINVARIANT VerdictOk\nCHECK_DEADLOCK FALSE\n'
MC_CFG = '''SPECIFICATION Spec
CONSTANTS
  MaxHandles = %(H)d
  MaxOps = %(N)d
  Toks = {"a", "b", "c"}
  DeepCopy = %(deep)s
  AcceptsMutates = %(acc)s
INVARIANT OwnHistory
INVARIANT NoSharing
%(export)s
CHECK_DEADLOCK FALSE
'''
GRAMMARS = {
    'inline-leftrec': ('start: _items\n_items: item | _items item\nitem: A | B | _C\nA: "a"\nB: "b"\n_C: "c"\n', {}),
    'star': ('start: item*\nitem: A | B _C?\nA: "a"\nB: "b"\n_C: "c"\n', {}),
    'expand1-meta': ('start: x*\n?x: y _cs\n_cs: _C | _cs _C\ny: A | B\nA: "a"\nB: "b"\n_C: "c"\n', {'propagate_positions': True}),
    'placeholders': ('start: pair*\npair: [A] B [_C]\nA: "a"\nB: "b"\n_C: "c"\n', {'propagate_positions': True}),
    'nested': ('start: grp*\ngrp: A _body _C\n_body: | _body elem\n?elem: B | grp\nA: "a"\nB: "b"\n_C: "c"\n', {'propagate_positions': True, 'keep_all_tokens': True}),
}
TYPE = {'a': 'A', 'b': 'B', 'c': '_C'}
# LALR merges the look-aheads of 'e: _C .' for both contexts: what the parser accepts there depends on the whole stack
# a merged look-ahead whose reduction chain runs deeper than the point where another terminal is shifted: a refused token
# leaves reductions behind (feed_token is not atomic), so whatever tries terminals one after the other must start afresh
# (the order in which the candidates are tried follows the order of the table row: the three terminals take the roles of
# opener / closer / tail / unit in several ways, under several namings of the rules)
def _deep_grammars():
    import itertools
    out = {}
    k = 0
    names = [('x', 'f', 'g', 'e'), ('q', 'm', 'n', 'p'), ('body', 'plain', 'tail', 'unit')]
    for o1, c1, o2, c2, t, e in itertools.product(['A', 'B', '_C'], repeat=6):
        if o1 == o2 or c1 == c2 or t in (c1, c2) or len({o1, c1, o2, c2, t, e}) < 3:
            continue
        x, f, g, u = names[k % len(names)]
        out['lalr-merge-deep%d' % k] = ('start: %s %s %s | %s %s %s\n%s: %s | %s\n%s: %s\n%s: %s %s\n%s: %s\nA: "a"\nB: "b"\n_C: "c"\n'
                                        % (o1, x, c1, o2, x, c2, x, f, g, f, u, g, u, t, u, e), {})
        k += 1
    return out


def _lalr_ok(g):
    try:
        import logging
        logging.disable(logging.CRITICAL)
        from lark import Lark
        Lark(g, parser='lalr', strict=True)
        return True
    except Exception:
        return False


_DEEP = _deep_grammars()
GRAMMARS['lalr-merge'] = ('start: A e A | B e B | e\ne: _C | _C e\nA: "a"\nB: "b"\n_C: "c"\n', {})


# terminals whose NAMES are not upper-case words: those of an imported rule carry the module prefix (vm__A), an anonymous
# literal in a caseless script is named by itself.  accepts() and the `expected` of UnexpectedToken told terminals from rules
# with str.isupper() and dropped these (hunted defect 32).  (grammar, options, type of a/b/c, character of a/b/c)
def _vm_loader(base, path):
    if path == 'vm.lark':
        return 'vm.lark', 'x: A | B x A\ny: A B?\nA: "a"\nB: "b"\n'
    raise IOError(path)


_NAMED = {
    'names-imported': ('start: x _C?\n%import vm.x\n_C: "c"\n', {'import_paths': [_vm_loader]}, {'a': 'vm__A', 'b': 'vm__B', 'c': '_C'}, {}),
    'names-imported-star': ('start: (y _C)*\n%import vm.y\n_C: "c"\n', {'import_paths': [_vm_loader], 'propagate_positions': True},
                            {'a': 'vm__A', 'b': 'vm__B', 'c': '_C'}, {}),
    'names-caseless': ('start: (x | "\u4e2d")+\n%import vm.x\n', {'import_paths': [_vm_loader]}, {'a': 'vm__A', 'b': 'vm__B', 'c': '\u4e2d'}, {'c': '\u4e2d'}),
}
_CUR = {'types': None, 'chars': {}}


def _lookup(gname):
    if gname in _NAMED:
        g, o, ty, ch = _NAMED[gname]
        _CUR['types'], _CUR['chars'] = ty, ch
        return g, o
    _CUR['types'], _CUR['chars'] = None, {}
    return GRAMMARS[gname] if gname in GRAMMARS else _DEEP[gname]


def digest(ip):
    st = ip.parser_state
    vals = [O.tree_json(v, positions=True, meta=True, container=True) if not isinstance(v, list) else ['L', [O.tree_json(x, True, True, True) for x in v]]
            for v in st.value_stack]
    blob = json.dumps([list(st.state_stack), vals], sort_keys=True, default=str)
    return hashlib.sha1(blob.encode()).hexdigest()[:16]


def mk_token(t, idx):
    from lark import Token
    return Token((_CUR['types'] or TYPE)[t], _CUR['chars'].get(t, t), idx, 1, idx + 1, 1, idx + 2, idx + 1)


def feed_hist(ip, hist, immutable=False):
    """feed a history (failed feeds included: they may reduce in place) to a fresh mutable parser"""
    from lark.exceptions import UnexpectedToken
    for i, t in enumerate(hist):
        try:
            ip.feed_token(mk_token(t, i))
        except UnexpectedToken:
            pass
    return ip


def replay(job):
    """job = (grammar name, behaviour {ops, hist}) -> trace case"""
    import logging
    logging.disable(logging.CRITICAL)
    from lark import Lark
    from lark.exceptions import UnexpectedToken, UnexpectedInput
    gname, beh = job
    gtext, opts = _lookup(gname)
    global _PARSERS
    try:
        _PARSERS
    except NameError:
        _PARSERS = {}
    if gname not in _PARSERS:
        _PARSERS[gname] = Lark(gtext, parser='lalr', **opts)
    p = _PARSERS[gname]
    terminals = [t.name for t in p.terminals]
    real = {1: p.parse_interactive('')}
    hist = {1: []}
    steps = []
    nops = len(beh['ops'])
    for oi, o in enumerate(beh['ops']):
        o = dict(o, exc='', depth=0)
        h, op, t, new = o['h'], o['op'], o['t'], o['new']
        acc = [[], []]
        try:
            if op == 'feed':
                hist[h] = hist[h] + [t]
                try:
                    real[h].feed_token(mk_token(t, len(hist[h]) - 1))
                except UnexpectedToken:
                    pass
            elif op == 'immfeed':
                hist[new] = hist[h] + [t]
                try:
                    real[new] = real[h].feed_token(mk_token(t, len(hist[new]) - 1))
                except UnexpectedToken:
                    # the copy that failed is lost to the caller; an equivalent fork: copy and feed (failure reduces in place)
                    c = real[h].as_mutable()
                    try:
                        c.feed_token(mk_token(t, len(hist[new]) - 1))
                    except UnexpectedToken:
                        pass
                    real[new] = c.as_immutable()
            elif op == 'copy':
                hist[new] = list(hist[h])
                real[new] = real[h].copy()
            elif op == 'as_immutable':
                hist[new] = list(hist[h])
                real[new] = real[h].as_immutable()
            elif op == 'as_mutable':
                hist[new] = list(hist[h])
                real[new] = real[h].as_mutable()
            elif op == 'accepts':
                got = sorted(str(x) for x in real[h].accepts())
                trial = []
                for name in terminals + ['$END']:
                    c = real[h].as_mutable() if hasattr(real[h], 'as_mutable') else real[h].copy()
                    try:
                        from lark import Token
                        c.feed_token(Token(name, ''))
                        trial.append(name)
                    except UnexpectedToken:
                        pass
                c = real[h].as_mutable() if hasattr(real[h], 'as_mutable') else real[h].copy()
                try:
                    c.feed_token(Token('NO__SUCH__TERMINAL', ''))
                    expd = ['<no error>']
                except UnexpectedToken as e:
                    expd = sorted(str(x) for x in e.expected)
                acc = [got, sorted(trial), expd, sorted(terminals + ['$END'])]
        except Exception as e:
            steps.append({'o': o, 'hs': [[1, ['EXC'], type(e).__name__, 'x']], 'acc': acc, 'last': False, 'eof': []})
            break
        hs = []
        for hh in sorted(real):
            fresh = feed_hist(p.parse_interactive(''), hist[hh])
            hs.append([hh, list(hist[hh]), digest(real[hh]), digest(fresh)])
        last = oi == nops - 1
        eof = []
        if last:
            for hh in sorted(real):
                c = real[hh].as_mutable() if hasattr(real[hh], 'as_mutable') else real[hh].copy()
                try:
                    r1 = json.dumps(O.tree_json(c.feed_eof(), True, True, True))
                except UnexpectedInput as e:
                    r1 = 'ERR:' + type(e).__name__
                # parse() of the corresponding text: only histories without failed feeds correspond to a text
                f = p.parse_interactive('')
                clean = True
                for i, t in enumerate(hist[hh]):
                    try:
                        f.feed_token(mk_token(t, i))
                    except UnexpectedToken:
                        clean = False
                        break
                if clean:
                    try:
                        r2 = json.dumps(O.tree_json(p.parse(''.join(_CUR['chars'].get(t, t) for t in hist[hh])), True, True, True))
                    except UnexpectedInput as e:
                        r2 = 'ERR:' + type(e).__name__
                    eof.append([hh, hashlib.sha1(r1.encode()).hexdigest()[:12], hashlib.sha1(r2.encode()).hexdigest()[:12]])
        steps.append({'o': o, 'hs': hs, 'acc': acc, 'last': last, 'eof': eof})
    return {'steps': steps, 'grammar': gname, 'behaviour': beh}


# ---- forks of a parser whose value stack holds a deep tree (left recursion over a long input) ------------------------------
def _iter_digest(ip):
    # the state of a handle without recursion: state stack, and the value stack walked with an explicit stack
    import hashlib as _h
    from lark import Tree, Token
    st = ip.parser_state
    h = _h.sha1(repr(list(st.state_stack)).encode())
    todo = list(reversed(st.value_stack))
    while todo:
        v = todo.pop()
        if isinstance(v, Tree):
            h.update(('T:%s:%d;' % (v.data, len(v.children))).encode())
            todo.extend(reversed(v.children))
        elif isinstance(v, Token):
            h.update(('K:%s:%s:%s;' % (v.type, v.value, v.start_pos)).encode())
        elif isinstance(v, list):
            h.update(('L:%d;' % len(v)).encode())
            todo.extend(reversed(v))
        else:
            h.update(repr(v).encode())
    return h.hexdigest()[:16]


def deep_case(n):
    import logging
    logging.disable(logging.CRITICAL)
    from lark import Lark
    _CUR['types'], _CUR['chars'] = None, {}
    p = Lark('start: start A | B\nA: "a"\nB: "b"\n', parser='lalr')
    ip = p.parse_interactive('')
    hist, steps = [], []

    def fresh(hh):
        return _iter_digest(feed_hist(p.parse_interactive(''), hh))
    for i in range(n + 1):
        t = 'b' if i == 0 else 'a'
        hist.append(t)
        ip.feed_token(mk_token(t, i))
        steps.append({'o': {'h': 1, 'op': 'feed', 't': t, 'new': 0, 'exc': '', 'depth': i}, 'hs': [[1, list(hist), 'x', 'x']], 'acc': [[], []], 'last': False, 'eof': []})
    handles = {1: (ip, list(hist))}
    for op, new in (('copy', 2), ('as_immutable', 3)):
        o = {'h': 1, 'op': op, 't': '', 'new': new, 'exc': '', 'depth': n}
        try:
            handles[new] = (getattr(ip, op)(), list(hist))
        except RecursionError:
            o['exc'] = 'RecursionError'
            steps.append({'o': o, 'hs': [[1, list(hist), 'x', 'x']], 'acc': [[], []], 'last': False, 'eof': []})
            break
        steps.append({'o': o, 'hs': [[k, hh, _iter_digest(x), fresh(hh)] for k, (x, hh) in sorted(handles.items())], 'acc': [[], []], 'last': False, 'eof': []})
    else:
        # the original moves on; the forks must stay where they were
        ip.feed_token(mk_token('a', n + 1))
        handles[1] = (ip, hist + ['a'])
        steps.append({'o': {'h': 1, 'op': 'feed', 't': 'a', 'new': 0, 'exc': '', 'depth': n + 1},
                      'hs': [[k, hh, _iter_digest(x), fresh(hh)] for k, (x, hh) in sorted(handles.items())], 'acc': [[], []], 'last': False, 'eof': []})
    return {'steps': steps, 'grammar': 'left-deep', 'behaviour': {'deep': n}}


# ---- resume_parse -------------------------------------------------------------------------------------------
def resume_case(job):
    import logging
    logging.disable(logging.CRITICAL)
    from lark import Lark
    from lark.exceptions import UnexpectedToken, UnexpectedInput
    gname, lexer, text = job
    gtext, opts = GRAMMARS[gname]
    p = Lark(gtext, parser='lalr', lexer=lexer, **opts)

    def strip(t):
        return json.dumps(O.tree_json(t))        # types and values; positions differ by the removed characters
    skipped = []
    try:
        def on_error(e):
            if isinstance(e, UnexpectedToken) and e.token.type != '$END':
                skipped.append(e.token.start_pos)
                return True
            return False
        r = strip(p.parse(text, on_error=on_error))
    except UnexpectedInput as e:
        r = 'ERR:' + type(e).__name__
    rest = ''.join(ch for i, ch in enumerate(text) if i not in skipped)
    try:
        r2 = strip(p.parse(rest))
    except UnexpectedInput as e:
        r2 = 'ERR:' + type(e).__name__
    o = {'h': 1, 'op': 'resume', 't': '', 'new': 0, 'exc': '', 'depth': 0}
    return {'steps': [{'o': o, 'hs': [[1, [], hashlib.sha1(r.encode()).hexdigest()[:12], hashlib.sha1(r2.encode()).hexdigest()[:12]]],
                       'acc': [[], []], 'last': False, 'eof': []}],
            'grammar': gname, 'behaviour': {'resume': text, 'lexer': lexer, 'skipped': skipped}}


# ---- interactive parsers that lex their own text, forked on the way (InteractiveLex.tla) -------------------------------
ILEX_CFG = '''SPECIFICATION Spec
CONSTANTS
  MaxHandles = %(H)d
  MaxOps = %(N)d
  TextLen = 4
  RebindOnCopy = %(rb)s
INVARIANT NoSkip
INVARIANT ResultOwn
%(export)s
CHECK_DEADLOCK FALSE
'''
ILEX_TRACE_CFG = '''SPECIFICATION TraceSpec
CONSTANTS
  MaxHandles = 99
  MaxOps = 99
  TextLen = 4
  RebindOnCopy = TRUE
INVARIANT VerdictOk
CHECK_DEADLOCK FALSE
'''
ILEX_GRAMMARS = {
    'words': ('start: WORD+\nWORD: /[a-z]+/\n%ignore /[ \\n]+/\n', {}, ['ab cd ef gh', 'a\nb c\n d', ' ab\n\ncd e f ']),
    'star-keepall': ('start: item*\nitem: A | B _C?\nA: "a"\nB: "b"\n_C: "c"\n%ignore " "\n', {'keep_all_tokens': True}, ['abca', 'a bc a', 'bcbc']),
    'inline-leftrec': ('start: _items\n_items: item | _items item\nitem: A | B | _C\nA: "a"\nB: "b"\n_C: "c"\n%ignore /\\n/\n', {'keep_all_tokens': True},
                       ['abca', 'a\nb\nc\na', 'cccc']),
}


def ilex_replay(job):
    """job = (grammar name, text, lexer, ops) -> trace case: after every op, which tokens each live handle has been fed"""
    import logging
    logging.disable(logging.CRITICAL)
    from lark import Lark, Tree, Token
    gname, text, lexer, ops = job
    gtext, opts, _ = ILEX_GRAMMARS[gname]
    global _ILEX
    try:
        _ILEX
    except NameError:
        _ILEX = {}
    if (gname, lexer) not in _ILEX:
        _ILEX[(gname, lexer)] = Lark(gtext, parser='lalr', lexer=lexer, **opts)
    p = _ILEX[(gname, lexer)]
    index = {t.start_pos: i + 1 for i, t in enumerate(p.lex(text))}

    def tokens_of(v, acc):
        if isinstance(v, Token):
            acc.append(index.get(v.start_pos, -1))
        elif isinstance(v, Tree):
            for c in v.children:
                tokens_of(c, acc)
        elif isinstance(v, (list, tuple)):
            for c in v:
                tokens_of(c, acc)
        return acc
    real = {1: p.parse_interactive(text)}
    result = {}
    steps = []
    for o in ops:
        h, op, new = o['h'], o['op'], o['new']
        exc = ''
        try:
            if op == 'step':
                for tok in real[h].lexer_thread.lex(real[h].parser_state):
                    real[h].feed_token(tok)
                    break
            elif op == 'copy':
                real[new] = real[h].copy()
            elif op == 'immutable':
                real[new] = real[h].as_immutable().as_mutable()
            elif op == 'resume':
                result[h] = real[h].resume_parse()
            elif op == 'exhaust':
                rest = real[h].exhaust_lexer()
                result[h] = real[h].feed_eof(rest[-1] if rest else None)
        except Exception as e:
            exc = type(e).__name__
        fed = [[hh, sorted(tokens_of(result[hh], [])) if hh in result else tokens_of(list(real[hh].parser_state.value_stack), [])] for hh in sorted(real)]
        steps.append({'o': o, 'fed': fed, 'exc': exc})
    return {'steps': steps, 'grammar': gname, 'behaviour': {'ilex': ops, 'text': text, 'lexer': lexer}}


def ilex_phase(tier, rng, ev, rep, tmp):
    H, N = (3, 5) if tier == 'quick' else (3, 7)
    res = C.tlc('InteractiveLex', ILEX_CFG % dict(H=H, N=N, rb='TRUE', export='INVARIANT Export'), timeout=3000)
    C.tlc_must_run(res, 'InteractiveLex')
    ev.add_tlc('InteractiveLex H=%d N=%d TextLen=4 (copied state refers to the copied lexer thread)' % (H, N), res, 'design')
    if not res.ok:
        raise C.MachineryFailure('InteractiveLex: %s violated' % res.violated)
    r2 = C.tlc('InteractiveLex', ILEX_CFG % dict(H=2, N=4, rb='FALSE', export=''), timeout=600, workers=2)
    C.tlc_must_run(r2, 'InteractiveLex (state keeps the original lexer thread)')
    ev.cov['binding_selftest']['model_rejects_shared_lexer_thread'] = bool(r2.violated)
    if not r2.violated:
        raise C.MachineryFailure('InteractiveLex.tla accepts the shared-lexer-thread design: the model is vacuous')
    behs = [json.loads(x)['ops'] for x in res.prints]
    ev.count('ilex_behaviours_exported_by_TLC', len(behs))
    cap = C.scale(2500 if tier == 'quick' else 40000)
    if len(behs) > cap:
        behs = rng.sample(behs, cap)
    jobs = []
    for bi, b in enumerate(behs):
        for gi, (g, (_, _, texts)) in enumerate(sorted(ILEX_GRAMMARS.items())):
            jobs.append((g, texts[(bi + gi) % len(texts)], ('basic', 'contextual')[(bi + gi) % 2], b))
    cases = C.pmap(ilex_replay, jobs)
    ev.count('ilex_replays', len(cases))
    ev.count('ilex_handle_observations', sum(len(s['fed']) for c in cases for s in c['steps']))
    ev.count('ilex_finished_handles', sum(1 for c in cases for s in c['steps'] if s['o']['op'] in ('resume', 'exhaust')))
    ev.cov['traces_validated_against_impl'] = ev.cov.get('traces_validated_against_impl', 0) + len(cases)
    ilex_judge(cases, ev, rep, tmp, 'ilex')


def ilex_judge(cases, ev, rep, tmp, name):
    CH = 3000
    jobs = []
    for off in range(0, len(cases), CH):
        chunk = cases[off:off + CH]
        jobs.append((chunk, C.write_batch({'cases': [{'steps': c['steps']} for c in chunk]}, tmp, 'c13_%s_%d.json' % (name, off))))
    results = C.tlc_parallel('TraceILex', ILEX_TRACE_CFG, [j[1] for j in jobs], continue_=True, timeout=3000)
    for (chunk, path), res in zip(jobs, results):
        C.tlc_must_run(res, 'TraceILex')
        ev.add_tlc('TraceILex:%s' % name, res, 'trace')
        os.remove(path)
        if res.violated and not res.verdicts:
            raise C.MachineryFailure('TraceILex violation without VERDICT line')
        for v in sorted(set(tuple(x) for x in res.verdicts)):
            c = chunk[int(v[0]) - 1]
            rep.violation({'property': PID, 'clause': v[2], 'step': int(v[1]), 'grammar_name': c['grammar'], 'grammar': ILEX_GRAMMARS[c['grammar']][0],
                           'options': ILEX_GRAMMARS[c['grammar']][1], 'behaviour': c['behaviour'], 'observed': c['steps'][int(v[1]) - 1]})


def judge(cases, ev, rep, tmp, name):
    CH = 3000
    jobs = []
    for off in range(0, len(cases), CH):
        chunk = cases[off:off + CH]
        jobs.append((chunk, C.write_batch({'cases': [{'steps': c['steps']} for c in chunk]}, tmp, 'c13_%s_%d.json' % (name, off))))
    results = C.tlc_parallel('TraceInteractive', TRACE_CFG, [j[1] for j in jobs], continue_=True, timeout=3000)
    for (chunk, path), res in zip(jobs, results):
        C.tlc_must_run(res, 'TraceInteractive')
        ev.add_tlc('TraceInteractive:%s' % name, res, 'trace')
        os.remove(path)
        if res.violated and not res.verdicts:
            raise C.MachineryFailure('TraceInteractive violation without VERDICT line')
        for v in sorted(set(tuple(x) for x in res.verdicts)):
            c = chunk[int(v[0]) - 1]
            rep.violation({'property': PID, 'clause': v[2], 'step': int(v[1]), 'grammar_name': c['grammar'], 'grammar': dict(GRAMMARS, **_DEEP, **{k: v[:2] for k, v in _NAMED.items()}, **{'left-deep': ('start: start A | B', {})})[c['grammar']][0],
                           'options': {k: (v if k != 'import_paths' else 'vm.lark loader') for k, v in dict(GRAMMARS, **_DEEP, **{k: v[:2] for k, v in _NAMED.items()}, **{'left-deep': ('', {})})[c['grammar']][1].items()}, 'behaviour': c['behaviour'], 'observed': c['steps'][int(v[1]) - 1]})


def body(tier, seed, replay_file):
    ev = C.Evidence(PID, tier, seed)
    rep = C.Reporter(PID, ev, lambda fnd, case: fnd['match']['kind'] == 'deep-copy-recursion' and case.get('clause', '').endswith('-raised-RecursionError@deep-value-stack'))
    rng = random.Random(seed)
    tmp = C.scratch_dir('c13_')
    try:
        if replay_file:
            case = json.load(open(replay_file))
            if 'ilex' in case['behaviour']:
                b = case['behaviour']
                ilex_judge([ilex_replay((case['grammar_name'], b['text'], b['lexer'], b['ilex']))], ev, rep, tmp, 'replay')
                return rep.finish()
            if 'deep' in case['behaviour']:
                judge([deep_case(case['behaviour']['deep'])], ev, rep, tmp, 'replay')
                return rep.finish()
            if 'resume' in case['behaviour']:
                got = resume_case((case['grammar_name'], case['behaviour']['lexer'], case['behaviour']['resume']))
            else:
                got = replay((case['grammar_name'], case['behaviour']))
            judge([got], ev, rep, tmp, 'replay')
            return rep.finish()
        # quick: every behaviour of H=3,N=5 is exported, 5,000 replayed; thorough: all 84k behaviours of H=4,N=5 and a 30k
        # sample of the 402k of H=3,N=6 (H=4,N=6 exports millions of behaviours: 25 GB in the harness, killed by the OOM killer)
        bounds = [(3, 5, C.scale(5000))] if tier == 'quick' else [(4, 5, None), (3, 6, C.scale(30000))]
        for deep, acc, nm in (('FALSE', 'FALSE', 'shallow copy()'), ('TRUE', 'TRUE', 'accepts() with callbacks')):
            # model sensitivity: the shallow-copy designs must violate OwnHistory (otherwise the model says nothing)
            r2 = C.tlc('Interactive', MC_CFG % dict(H=2, N=3, deep=deep, acc=acc, export=''), timeout=600, workers=2)
            C.tlc_must_run(r2, 'Interactive ' + nm)
            ev.cov['binding_selftest']['model_rejects_' + nm.replace(' ', '_')] = bool(r2.violated)
            if not r2.violated:
                raise C.MachineryFailure('Interactive.tla accepts a %s design: the model is vacuous' % nm)
        ncases, sample = 0, None
        for H, N, cap in bounds:
            res = C.tlc('Interactive', MC_CFG % dict(H=H, N=N, deep='TRUE', acc='FALSE', export='INVARIANT Export'), timeout=3000)
            C.tlc_must_run(res, 'Interactive')
            ev.add_tlc('Interactive H=%d N=%d (the code\'s copy discipline)' % (H, N), res, 'design')
            if not res.ok:
                raise C.MachineryFailure('Interactive: %s violated' % res.violated)
            pick = res.prints
            res.prints = None
            if len(pick) < 100:
                raise C.MachineryFailure('only %d behaviours exported by TLC' % len(pick))
            ev.count('behaviours_exported_by_TLC', len(pick))
            if cap and len(pick) > cap:
                pick = rng.sample(pick, cap)
            ev.count('behaviours_replayed', len(pick))
            for off in range(0, len(pick), 6000):
                jobs = [(g, json.loads(b)) for b in pick[off:off + 6000] for g in GRAMMARS]
                jobs += [(g, json.loads(b)) for b in pick[off:off + 6000:4] for g in _NAMED]
                cases = C.pmap(replay, jobs)
                ncases += len(cases)
                ev.count('replays', len(cases))
                ev.count('fork_comparisons', sum(len(s['hs']) for c in cases for s in c['steps']))
                ev.count('accepts_calls', sum(1 for c in cases for s in c['steps'] if s['o']['op'] == 'accepts'))
                ev.count('feed_eof_vs_parse', sum(len(s['eof']) for c in cases for s in c['steps']))
                if sample is None:
                    sample = {'grammar': cases[5]['grammar'], 'behaviour': cases[5]['behaviour'], 'last_step': cases[5]['steps'][-1]}
                judge(cases, ev, rep, tmp, 'forks%d%d_%d' % (H, N, off))
                del cases, jobs
        # accepts() after every token sequence up to 3 on the look-ahead-merging grammars (all role assignments)
        import itertools
        djobs = []
        for g in sorted(_DEEP) + sorted(_NAMED):
            for n in range(0 if g in _NAMED else 1, 5 if g in _NAMED else 4):
                for seq in itertools.product('abc', repeat=n):
                    djobs.append((g, {'ops': [{'h': 1, 'op': 'feed', 't': t, 'new': 0} for t in seq] + [{'h': 1, 'op': 'accepts', 't': '', 'new': 0}], 'hist': {}}))
        dcases = C.pmap(replay, djobs)
        ev.count('accepts_sweeps_on_merged_lookahead_grammars', len(dcases))
        ncases += len(dcases)
        judge(dcases, ev, rep, tmp, 'deep-accepts')
        # forks at depth: copy() / as_immutable() of a parser that has read a long left-recursive list
        deep = C.pmap(deep_case, [20, 60, 120, 180, 300, 500] if tier == 'quick' else [20, 60, 120, 180, 230, 300, 500, 900])
        ev.count('deep_fork_histories', len(deep))
        ncases += len(deep)
        judge(deep, ev, rep, tmp, 'deep-forks')
        # resume_parse
        texts = set()
        for _ in range(C.scale(400 if tier == 'quick' else 4000)):
            texts.add(''.join(rng.choice('abcab') for _ in range(rng.randint(1, 8))))
        rjobs = [(g, lx, t) for t in sorted(texts) for g in GRAMMARS for lx in ('basic', 'contextual')]
        rcases = C.pmap(resume_case, rjobs)
        ev.count('resume_cases', len(rcases))
        ev.count('resume_cases_with_skips', sum(1 for c in rcases if c['behaviour']['skipped']))
        ev.cov['traces_validated_against_impl'] = ncases + len(rcases)
        ev.sample(sample)
        ev.sample({'resume': rcases[3]['behaviour'], 'grammar': rcases[3]['grammar']})
        judge(rcases, ev, rep, tmp, 'resume')
        ilex_phase(tier, rng, ev, rep, tmp)
        ev.assumptions += ['fork state compared through a digest of (state stack, value stack with token positions and tree meta)',
                           'resume: the on_error hook skips every unexpected token; result compared with parse() of the text without them (types and values)']
        return rep.finish()
    finally:
        shutil.rmtree(tmp, ignore_errors=True)


if __name__ == '__main__':
    C.run_check(PID, body)
