"""F_mtok - grammars over overlapping multi-character terminals for the dynamic lexers (C03/C04/C20).

The input is a text; the harness enumerates its tokenisations with Python's re as the regex oracle:
  dynamic          : every token is the longest match of its terminal at its start
  dynamic_complete : every token is any full match of its terminal
A tokenisation is a list of [terminal, code], code = start * 64 + length (the leaf index used in the 4-tuple trees).
TLA+ (TraceTrees.TreesOfText) derives the trees of every tokenisation and unions them.
"""
import itertools
import re

from . import ebnf as E
from . import observe as O

CATALOGUE = {
    'A': ('"a"', 'a'), 'B': ('"b"', 'b'), 'AB': ('"ab"', 'ab'), 'AA': ('"aa"', 'aa'), 'AS': ('/a+/', 'a+'),
    'BS': ('/b+/', 'b+'), 'AOB': ('/ab?/', 'ab?'), 'ABS': ('/(ab)+/', '(ab)+'), 'BA': ('/ba|b/', 'ba|b'),
    'ABB': ('/a(bb)?/', 'a(bb)?'), 'BAA': ('/b(aa)?b?/', 'b(aa)?b?'),       # optional multi-character tails: several truncations re-match the same shorter token
}
TEMPLATES = [
    (('s', ('p', 'p', 'T1')), ('s', ('p', 'T1')), ('p', ('T0', 'T2'))),
    (('s', ('s', 'i')), ('s', ('i',)), ('i', ('T0',)), ('i', ('T1',)), ('i', ('T2',))),
    (('s', ('T0', 's')), ('s', ('T0',)), ('s', ('T1',))),
    (('s', ('a', 'b')), ('a', ('T0',)), ('a', ('T0', 'T1')), ('b', ('T1',)), ('b', ('T2',)), ('b', ())),
    (('s', ('T0',)), ('s', ('T1', 'T2')), ('s', ('T2', 's'))),
]
IGNORES = {'none': None, 'b': ('"b"', 'b'), 'bb': ('/bb/', 'bb'), 'sp': ('" "', ' '), 'as': ('/a+/', 'a+'), 'bbb': ('/bbb/', 'bbb'), 'aab': ('/aab?/', 'aab?')}
_RE = {k: re.compile(v[1]) for k, v in CATALOGUE.items()}
_RE.update({'IG:' + k: re.compile(v[1]) for k, v in IGNORES.items() if v})


def spans(term, text, mode):
    return O.full_spans(_RE[term], text) if mode == 'dynamic_complete' else O.longest_spans(_RE[term], text)


def tokenisations(text, terms, mode, ig=None, cap=40):
    """all tilings of text by tokens of `terms` and ignored matches of `ig` (not emitted), as distinct token sequences;
    None if there are more than cap"""
    by_start = {}
    for t in terms:
        for i, j in spans(t, text, mode):
            by_start.setdefault(i, []).append((t, j))
    if ig:
        for i, j in spans('IG:' + ig, text, mode):
            by_start.setdefault(i, []).append((None, j))
    out = set()

    def rec(pos, acc):
        if len(out) > cap:
            return
        if pos == len(text):
            out.add(tuple(acc))
            return
        for t, j in by_start.get(pos, ()):
            if t is None:
                rec(j, acc)
            else:
                acc.append((t, pos * 64 + (j - pos)))
                rec(j, acc)
                acc.pop()
    rec(0, [])
    return None if len(out) > cap else [[list(x) for x in tk] for tk in sorted(out)]


def well_behaved(text, terms, ig=None):
    return all(O.greedy_is_longest(_RE[t], text) for t in list(terms) + (['IG:' + ig] if ig else []))


def random_grammar(rng):
    """BNF over 2-3 catalogue terminals: a template with terminals substituted, or a random rule set"""
    names = rng.sample(sorted(CATALOGUE), 3)
    if rng.random() < 0.6:
        tpl = rng.choice(TEMPLATES)
        Gb = tuple((l, tuple(names[int(x[1])] if x[0] == 'T' and x[1:].isdigit() else x for x in rhs)) for l, rhs in tpl)
    else:
        syms = ['s', 'a'] + names
        G = {('s', tuple(rng.choice(syms[1:]) for _ in range(rng.choice([1, 2, 2, 3]))))}
        while len(G) < rng.choice([3, 4, 5]):
            G.add((rng.choice(['s', 'a', 'a']), tuple(rng.choice(syms) for _ in range(rng.choice([0, 1, 1, 2, 2, 3])))))
        if any('a' in rhs for _, rhs in G) and not any(l == 'a' for l, _ in G):
            G.add(('a', (rng.choice(names),)))
        Gb = tuple(sorted(G))
    used = sorted({x for _, rhs in Gb for x in rhs if x in CATALOGUE})
    return Gb, used


def specs(n, rng, **extra):
    """one spec per (grammar, lexer mode): {'G','texts','toks','lexers':[mode],'multitok':True,...}"""
    texts = [''.join(w) for k in range(1, 6) for w in itertools.product('ab', repeat=k)]
    texts_sp = [''.join(w) for k in range(1, 6) for w in itertools.product('ab ', repeat=k) if ' ' in w]
    out = []
    # directed: a one-symbol start rule over a terminal with an optional tail, the rest of the text ignored (several
    # truncations of the longest match re-match the same shorter token: the forest must still hold it once)
    directed = [((('s', (t,)), ('s', (t, 's'))) if k else (('s', (t,)),), [t], ig) for t in ('ABB', 'BAA', 'AOB', 'AS') for ig in ('bb', 'bbb', 'b', 'aab', 'as')
                for k in (0, 1)]
    rng.shuffle(directed)
    while len(out) < n:
        is_directed = bool(directed and len(out) < n // 2)
        if is_directed:
            Gb, used, ig = directed.pop()
        else:
            Gb, used = random_grammar(rng)
            ig = rng.choice(['none', 'none', 'none', 'b', 'bb', 'sp', 'as', 'bbb', 'aab'])
        if not used or E.deriv_cyclic([(l, list(r)) for l, r in Gb]):
            continue
        G = E.from_bnf(Gb)
        G['term_defs'] = ''.join('%s: %s\n' % (t, CATALOGUE[t][0]) for t in used)
        if IGNORES[ig]:
            G['term_defs'] += 'IG: %s\n%%ignore IG\n' % IGNORES[ig][0]
        else:
            ig = None
        pick = [t for t in (texts if is_directed else rng.sample(texts, 30)) + (rng.sample(texts_sp, 12) if ig == 'sp' else []) if well_behaved(t, used, ig)]
        for mode in ('dynamic', 'dynamic_complete'):
            tx, tk = [], []
            for t in pick:
                toks = tokenisations(t, used, mode, ig)
                if toks is not None:
                    tx.append(t)
                    tk.append(toks)
            sp = {'G': G, 'Gb': Gb, 'ka': False, 'ph': True, 'texts': tx, 'toks': tk, 'inputs': [tuple(t) for t in tx], 'lexers': [mode],
                  'multitok': True, 'family': 'F_mtok/' + mode, 'must': True}
            sp.update(extra)
            out.append(sp)
    return out


def tree4m(t):
    """4-tuple tree with token leaves indexed by start * 64 + length"""
    if t is None:
        return ['N', '', 0, []]
    if hasattr(t, 'type') and hasattr(t, 'start_pos'):
        return ['T', str(t.type), t.start_pos * 64 + (t.end_pos - t.start_pos), []]
    if hasattr(t, 'data'):
        return ['R', str(t.data), 0, [tree4m(c) for c in t.children]]
    return ['O', repr(t)[:40], 0, []]


def deriv_total(brules, toks, cap):
    n = 0
    for tk in toks:
        n += E.deriv_count(brules, [x[0] for x in tk], cap=cap)
        if n > cap:
            break
    return n


def vmap(text, toks):
    """[[code, id of the matched text], ...] for every code in the tokenisations"""
    codes = sorted({x[1] for tk in toks for x in tk})
    vals = sorted({text[c // 64:c // 64 + c % 64] for c in codes})
    return [[c, vals.index(text[c // 64:c // 64 + c % 64])] for c in codes]
