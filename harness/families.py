"""Bounded families of grammars and inputs (DESIGN section 5), shared by all checks.

F_bnf(R, L): all well-formed sets of <= R rules  lhs in {s,a}, rhs in ({s,a,X,Y})^{<=2}; the same set
the TLA+ module MC_Earley/MC_LALR enumerates with kSubset (cardinalities are compared in evidence).
"""
import itertools
import random

NT = ('s', 'a')
T = ('X', 'Y')
CHAR = {'X': 'x', 'Y': 'y', 'W': ' ', 'Z': 'z'}


def candidates(nts=NT, ts=T, maxrhs=2):
    syms = tuple(nts) + tuple(ts)
    out = []
    for lhs in nts:
        for n in range(maxrhs + 1):
            for rhs in itertools.product(syms, repeat=n):
                out.append((lhs, rhs))
    return out


def well_formed(G, nts=NT):
    defined = {l for l, _ in G}
    if 's' not in defined:
        return False
    for _, rhs in G:
        for x in rhs:
            if x in nts and x not in defined:
                return False
    return True


def bnf_family(R, nts=NT, ts=T, maxrhs=2, only_well_formed=True):
    cand = candidates(nts, ts, maxrhs)
    for m in range(1, R + 1):
        for G in itertools.combinations(cand, m):
            if not only_well_formed or well_formed(G, nts):
                yield G


def lark_name(sym):
    return 'start' if sym == 's' else sym


def grammar_text(G, ignore_ws=False, term_defs=None, extra=''):
    """lark source of a BNF grammar G = tuple of (lhs, rhs)."""
    by = {}
    for lhs, rhs in G:
        by.setdefault(lhs, []).append(rhs)
    lines = []
    for lhs in sorted(by, key=lambda x: (x != 's', x)):
        alts = [' '.join(lark_name(x) for x in rhs) for rhs in by[lhs]]
        lines.append('%s: %s' % (lark_name(lhs), ' | '.join(alts)))
    term_defs = term_defs or {'X': '"x"', 'Y': '"y"'}
    for t, d in term_defs.items():
        lines.append('%s: %s' % (t, d))
    if ignore_ws:
        lines.append('W: " "')
        lines.append('%ignore W')
    if extra:
        lines.append(extra)
    return '\n'.join(lines) + '\n'


def rules_json(G):
    return [{'lhs': lark_name(l), 'rhs': [lark_name(x) for x in rhs]} for l, rhs in G]


def all_inputs(L, alphabet=T):
    for n in range(L + 1):
        for w in itertools.product(alphabet, repeat=n):
            yield w


def sentences(G, maxlen, limit=40, start='s'):
    """Terminal strings of length <= maxlen derivable in G (breadth-first over sentential forms)."""
    by = {}
    for lhs, rhs in G:
        by.setdefault(lhs, []).append(rhs)
    nts = set(by)
    # minimal yield length per NT (to prune)
    INF = 99
    minlen = {A: INF for A in nts}
    changed = True
    while changed:
        changed = False
        for lhs, rhs in G:
            m = sum(minlen.get(x, 1) if x in nts else 1 for x in rhs)
            if m < minlen[lhs]:
                minlen[lhs] = m
                changed = True

    def ml(form):
        return sum(minlen[x] if x in nts else 1 for x in form)

    seen = set()
    out = []
    frontier = [(start,)]
    seen.add((start,))
    steps = 0
    while frontier and len(out) < limit and steps < 4000:
        nxt = []
        for form in frontier:
            steps += 1
            idx = next((i for i, x in enumerate(form) if x in nts), None)
            if idx is None:
                if form not in out:
                    out.append(form)
                continue
            for rhs in by.get(form[idx], ()):
                f2 = form[:idx] + tuple(rhs) + form[idx + 1:]
                if f2 in seen or ml(f2) > maxlen or len(f2) > maxlen + 3:
                    continue
                seen.add(f2)
                nxt.append(f2)
        frontier = nxt
    return out


def near_misses(w, alphabet=T, rng=None, cap=6):
    """one-edit neighbours of w (delete, insert, substitute)"""
    out = []
    for i in range(len(w)):
        out.append(w[:i] + w[i + 1:])
        for t in alphabet:
            if t != w[i]:
                out.append(w[:i] + (t,) + w[i + 1:])
    for i in range(len(w) + 1):
        for t in alphabet:
            out.append(w[:i] + (t,) + w[i:])
    out = list(dict.fromkeys(out))
    if rng is not None and len(out) > cap:
        out = rng.sample(out, cap)
    return out


def enriched_inputs(G, L, extra_len=2, rng=None, alphabet=T):
    """all inputs <= L, plus generated sentences up to L+extra_len and near misses of them"""
    ins = list(all_inputs(L, alphabet))
    seen = set(ins)
    sents = sentences(G, L + extra_len, limit=12)
    for s in sents:
        for w in [s] + near_misses(s, alphabet, rng, cap=4):
            if w not in seen and len(w) <= L + extra_len + 1:
                seen.add(w)
                ins.append(w)
    return ins


def to_text(w):
    return ''.join(CHAR[t] for t in w)


def with_spaces(w, rng):
    """token string -> token string with ignored W tokens sprinkled in"""
    out = []
    for t in w:
        while rng.random() < 0.3:
            out.append('W')
        out.append(t)
    while rng.random() < 0.3:
        out.append('W')
    return tuple(out)


def sample(seq, n, rng):
    seq = list(seq)
    if len(seq) <= n:
        return seq
    return rng.sample(seq, n)
