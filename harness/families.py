"""Bounded families of grammars and inputs (DESIGN section 5), shared by all checks.

F_bnf(R, L): all well-formed sets of <= R rules  lhs in {s,a}, rhs in ({s,a,X,Y})^{<=2}; the same set
the TLA+ module MC_Earley/MC_LALR enumerates with kSubset (cardinalities are compared in evidence).
"""
import itertools
import random

NT = ('s', 'a')
T = ('X', 'Y')
CHAR = {'X': 'x', 'Y': 'y', 'W': ' ', 'Z': 'z', 'U': '?'}


def candidates(nts=NT, ts=T, maxrhs=2):
    syms = tuple(nts) + tuple(ts)
    out = []
    for lhs in nts:
        for n in range(maxrhs + 1):
            for rhs in itertools.product(syms, repeat=n):
                out.append((lhs, rhs))
    return out


def well_formed(G, nts=NT):
    defined = {l for l, _ in G}
    if 's' not in defined:
        return False
    for _, rhs in G:
        for x in rhs:
            if x in nts and x not in defined:
                return False
    return True


def bnf_family(R, nts=NT, ts=T, maxrhs=2, only_well_formed=True):
    cand = candidates(nts, ts, maxrhs)
    for m in range(1, R + 1):
        for G in itertools.combinations(cand, m):
            if not only_well_formed or well_formed(G, nts):
                yield G


def lark_name(sym):
    return 'start' if sym == 's' else sym


def grammar_text(G, ignore_ws=False, term_defs=None, extra=''):
    """lark source of a BNF grammar G = tuple of (lhs, rhs)."""
    by = {}
    for lhs, rhs in G:
        by.setdefault(lhs, []).append(rhs)
    lines = []
    for lhs in sorted(by, key=lambda x: (x != 's', x)):
        alts = [' '.join(lark_name(x) for x in rhs) for rhs in by[lhs]]
        lines.append('%s: %s' % (lark_name(lhs), ' | '.join(alts)))
    term_defs = term_defs or {'X': '"x"', 'Y': '"y"'}
    for t, d in term_defs.items():
        lines.append('%s: %s' % (t, d))
    if ignore_ws:
        lines.append('W: " "')
        lines.append('%ignore W')
    if extra:
        lines.append(extra)
    return '\n'.join(lines) + '\n'


def rules_json(G):
    return [{'lhs': lark_name(l), 'rhs': [lark_name(x) for x in rhs]} for l, rhs in G]


def all_inputs(L, alphabet=T):
    for n in range(L + 1):
        for w in itertools.product(alphabet, repeat=n):
            yield w


def sentences(G, maxlen, limit=40, start='s'):
    """Terminal strings of length <= maxlen derivable in G (breadth-first over sentential forms)."""
    by = {}
    for lhs, rhs in G:
        by.setdefault(lhs, []).append(rhs)
    nts = set(by)
    # minimal yield length per NT (to prune)
    INF = 99
    minlen = {A: INF for A in nts}
    changed = True
    while changed:
        changed = False
        for lhs, rhs in G:
            m = sum(minlen.get(x, 1) if x in nts else 1 for x in rhs)
            if m < minlen[lhs]:
                minlen[lhs] = m
                changed = True

    def ml(form):
        return sum(minlen[x] if x in nts else 1 for x in form)

    seen = set()
    out = []
    frontier = [(start,)]
    seen.add((start,))
    steps = 0
    while frontier and len(out) < limit and steps < 4000:
        nxt = []
        for form in frontier:
            steps += 1
            idx = next((i for i, x in enumerate(form) if x in nts), None)
            if idx is None:
                if form not in out:
                    out.append(form)
                continue
            for rhs in by.get(form[idx], ()):
                f2 = form[:idx] + tuple(rhs) + form[idx + 1:]
                if f2 in seen or ml(f2) > maxlen or len(f2) > maxlen + 3:
                    continue
                seen.add(f2)
                nxt.append(f2)
        frontier = nxt
    return out


def near_misses(w, alphabet=T, rng=None, cap=6):
    """one-edit neighbours of w (delete, insert, substitute)"""
    out = []
    for i in range(len(w)):
        out.append(w[:i] + w[i + 1:])
        for t in alphabet:
            if t != w[i]:
                out.append(w[:i] + (t,) + w[i + 1:])
    for i in range(len(w) + 1):
        for t in alphabet:
            out.append(w[:i] + (t,) + w[i:])
    out = list(dict.fromkeys(out))
    if rng is not None and len(out) > cap:
        out = rng.sample(out, cap)
    return out


def enriched_inputs(G, L, extra_len=2, rng=None, alphabet=T):
    """all inputs <= L, plus generated sentences up to L+extra_len and near misses of them"""
    ins = list(all_inputs(L, alphabet))
    seen = set(ins)
    sents = sentences(G, L + extra_len, limit=12)
    for s in sents:
        for w in [s] + near_misses(s, alphabet, rng, cap=4):
            if w not in seen and len(w) <= L + extra_len + 1:
                seen.add(w)
                ins.append(w)
    return ins


def to_text(w):
    return ''.join(CHAR[t] for t in w)


def with_spaces(w, rng):
    """token string -> token string with ignored W tokens sprinkled in"""
    out = []
    for t in w:
        while rng.random() < 0.3:
            out.append('W')
        out.append(t)
    while rng.random() < 0.3:
        out.append('W')
    return tuple(out)


def sample(seq, n, rng):
    seq = list(seq)
    if len(seq) <= n:
        return seq
    return rng.sample(seq, n)


# ---- F_rand: seeded random BNF grammars with more non-terminals/terminals/rules than F_bnf ----------------
def random_bnf(rng, nnt=None, nts_pool=('s', 'a', 'b', 'c', 'd'), ts=('X', 'Y', 'Z'), nrules=None, maxrhs=3):
    """A well-formed random grammar: every used non-terminal is defined and reachable from s.
    Shapes are biased towards what small exhaustive families cannot contain: several levels of
    nullable/unit rules, mutual recursion among >= 3 non-terminals, bracket-like nesting."""
    nnt = nnt or rng.choice([3, 3, 4, 4, 5])
    nts = list(nts_pool[:nnt])
    nrules = nrules or rng.randint(nnt + 2, nnt + 6)
    G = set()

    def rand_rhs():
        style = rng.random()
        if style < 0.12:
            return ()
        if style < 0.27:
            return (rng.choice(nts),)                                   # unit rule
        if style < 0.42:
            return (rng.choice(ts), rng.choice(nts))                    # right recursion
        if style < 0.52:
            return (rng.choice(nts), rng.choice(ts))                    # left recursion
        if style < 0.62:
            return (rng.choice(ts), rng.choice(nts), rng.choice(ts))    # bracket
        n = rng.randint(1, maxrhs)
        return tuple(rng.choice(nts + list(ts) + list(ts)) for _ in range(n))
    for A in nts:
        if rng.random() < 0.8:      # a terminating alternative, so that most grammars are productive
            G.add((A, tuple(rng.choice(ts) for _ in range(rng.choice([0, 1, 1, 2])))))
        G.add((A, rand_rhs()))
    tries = 0
    while len(G) < nrules and tries < 50:
        tries += 1
        G.add((rng.choice(nts), rand_rhs()))
    # keep only what is reachable from s (lark prunes unused rules anyway); every used NT is defined by construction
    reach = {'s'}
    ch = True
    while ch:
        ch = False
        for l, rhs in G:
            if l in reach:
                for x in rhs:
                    if x in nts and x not in reach:
                        reach.add(x)
                        ch = True
    G = tuple(sorted((l, r) for l, r in G if l in reach))
    return G


def rename_nts(G, rng):
    """rename non-terminals other than s to random identifiers (varies hash/iteration order inside lark)"""
    names = {}
    for l, _ in G:
        if l != 's' and l not in names:
            names[l] = 'n' + ''.join(rng.choice('abcdefghijklmnopqrstuvwxyz') for _ in range(rng.randint(1, 5))) + l
    return tuple((names.get(l, l), tuple(names.get(x, x) for x in rhs)) for l, rhs in G)


def terms_of(G):
    nts = {l for l, _ in G}
    return sorted({x for _, rhs in G for x in rhs if x not in nts})


def rand_family(n, rng, **kw):
    seen = set()
    out = []
    tries = 0
    while len(out) < n and tries < n * 5:
        tries += 1
        G = random_bnf(rng, **kw)
        if G in seen or not any(l == 's' for l, _ in G):
            continue
        seen.add(G)
        out.append(G)
    return out


TERM3 = {'X': '"x"', 'Y': '"y"', 'Z': '"z"'}


# ---- F_tailrec: mutually tail-recursive non-terminals (rich `includes` relation with cycles and chords) --------
TAIL_TERMS = ['T' + c.upper() for c in 'abcdefghij']
for _t in TAIL_TERMS:
    CHAR[_t] = _t[1].lower()
TAIL_DEFS = {t: '"%s"' % CHAR[t] for t in TAIL_TERMS}


def tailrec_grammar(rng):
    nnt = rng.choice([3, 4, 4, 5])
    nts = ['a', 'b', 'c', 'd', 'e'][:nnt]
    terms = list(TAIL_TERMS[:rng.choice([6, 7, 8])])
    G = [('s', (terms[0], 'a', terms[1]))]
    pool = terms[2:]
    for A in nts:
        k = rng.choice([1, 2, 2, 3])
        ts = rng.sample(pool, min(k, len(pool)))
        for t in ts:            # distinct first terminals per non-terminal: no conflicts from FIRST sets
            if rng.random() < 0.15:
                G.append((A, (t,)))
            else:
                G.append((A, (t, rng.choice(nts))))
    A = rng.choice(nts)
    G.append((A, ()))           # something terminates
    reach = {'s'}
    ch = True
    while ch:
        ch = False
        for l, rhs in G:
            if l in reach:
                for x in rhs:
                    if x in nts and x not in reach:
                        reach.add(x)
                        ch = True
    return tuple(sorted(set((l, r) for l, r in G if l in reach)))


def grammar_terms(G):
    return {t: TAIL_DEFS.get(t) or TERM3.get(t) or '"%s"' % CHAR[t] for t in terms_of(G)}
