"""C03 - returned tree is the documented shaping of a derivation; engines agree.
   C04 - ambiguity='explicit' enumerates exactly all derivations (same families, same oracle, other observable).

design : EBNF.tla (denotational meaning of the grammar as written, shaping folded in) - MC_EBNF.tla checks its
         known answers from lark's documentation and the count semantics; CFG.tla derivations for the BNF family
binding: TraceTrees.tla judges every tree the real lark returns under every parser/lexer pair and option setting
"""
import json
import os
import random
import shutil
import sys

from . import common as C
from . import observe as O
from . import ebnf as E

TRACE_CFG = 'SPECIFICATION Spec\nINVARIANT VerdictOk\nCHECK_DEADLOCK FALSE\n'
CFGS = [('earley/basic', 'earley', 'basic'), ('earley/dynamic', 'earley', 'dynamic'),
        ('earley/dynamic_complete', 'earley', 'dynamic_complete'), ('lalr/basic', 'lalr', 'basic'),
        ('lalr/contextual', 'lalr', 'contextual'), ('cyk', 'cyk', 'basic')]


def tree4(t):
    from lark import Tree, Token
    if t is None:
        return ['N', '', 0, []]
    if isinstance(t, Token):
        return ['T', str(t.type), t.start_pos if t.start_pos is not None else -1, []]
    if isinstance(t, Tree):
        return ['R', str(t.data), 0, [tree4(c) for c in t.children]]
    return ['O', repr(t)[:40], 0, []]


def expand_count(t4, cap=300):
    """number of plain trees a result with _ambig nodes stands for (capped) - keeps TLC's Expand away from explosions"""
    if t4[0] != 'R':
        return 1
    if t4[1] == '_ambig':
        return min(cap + 1, sum(expand_count(c, cap) for c in t4[3]))
    n = 1
    for c in t4[3]:
        n *= expand_count(c, cap)
        if n > cap:
            return cap + 1
    return n


def observe_case(spec):
    import logging
    logging.disable(logging.CRITICAL)
    from lark import Lark
    from lark.exceptions import GrammarError, UnexpectedInput, ParseError
    G, ka, ph = spec['G'], spec['ka'], spec['ph']
    gtext = spec.get('gtext') or E.grammar_text(G)        # (templates: the text uses them, G is the grammar written out by hand)
    case = {'gtext': gtext, 'G': E.grammar_json(G, ka, ph), 'ka': ka, 'ph': ph, 'inputs': [], 'skip': '', 'cyclic': False,
            'family': spec.get('family', 'F_ebnf'), 'spec': spec}
    parsers = {}
    try:
        with O.budget(30):
            e0 = Lark(gtext, parser='earley', lexer='basic', keep_all_tokens=ka, maybe_placeholders=ph)
    except GrammarError as ex:
        case['skip'] = 'GrammarError: ' + str(ex)[:80]
        return case
    except Exception as ex:
        case['skip'] = 'construct %s' % type(ex).__name__
        return case
    brules = [(str(r.origin.name), [str(s.name) for s in r.expansion]) for r in e0.rules]
    case['cyclic'] = E.deriv_cyclic(brules)
    if case['cyclic'] and not spec.get('allow_cyclic'):
        case['skip'] = 'derivation cycle'
        return case
    mt = bool(spec.get('multitok'))
    case['multitok'] = mt
    T4 = tree4
    if mt:
        from . import mtok
        T4 = mtok.tree4m
    for name, parser, lexer in CFGS:
        if spec.get('only_explicit') or (parser == 'cyk' and not spec.get('cyk')):
            continue
        if 'lexers' in spec and (parser != 'earley' or lexer not in spec['lexers']):
            continue
        try:
            with O.budget(5 if parser == 'cyk' else 30):
                parsers[name] = Lark(gtext, parser=parser, lexer=lexer, keep_all_tokens=ka, maybe_placeholders=ph)
        except (Exception, O.Hang):
            pass
    explicit = {}
    if spec.get('explicit'):
        for name, parser, lexer in CFGS[:3]:
            if 'lexers' in spec and lexer not in spec['lexers']:
                continue
            try:
                explicit[name] = Lark(gtext, parser='earley', lexer=lexer, ambiguity='explicit', keep_all_tokens=ka, maybe_placeholders=ph)
            except Exception:
                pass
    for wi, w in enumerate(spec['inputs']):
        text = ''.join(w) if mt else E.to_text(w)
        toks = spec['toks'][wi] if mt else []
        cap = spec.get('deriv_cap', 80)
        if (mtok.deriv_total(brules, toks, cap) if mt else (not case['cyclic'] and E.deriv_count(brules, list(w), cap=cap))) > cap:
            case['too_ambiguous'] = case.get('too_ambiguous', 0) + 1
            continue
        obs = []
        for name in parsers:
            try:
                with O.budget(20):
                    t = parsers[name].parse(text)
                obs.append({'cfg': name, 'out': 0, 'tree': T4(t), 'must': False})
            except (UnexpectedInput, ParseError):
                obs.append({'cfg': name, 'out': 1, 'tree': ['N', '', 0, []], 'must': bool(spec.get('must')) and name.startswith('earley')})
            except (Exception, O.Hang) as ex:
                obs.append({'cfg': name, 'out': 2, 'tree': ['N', '', 0, []], 'must': False, 'exc': type(ex).__name__})
        exp = []
        for name in explicit:
            try:
                with O.budget(20):
                    t = explicit[name].parse(text)
                rec = {'cfg': name, 'out': 0, 'tree': T4(t), 'collrun': False, 'collok': True, 'coll': []}
                if expand_count(rec['tree']) > 300:
                    case['too_ambiguous'] = case.get('too_ambiguous', 0) + 1
                    continue
                if spec.get('collapse') and hasattr(t, 'children'):      # the utility is defined on trees (a ?start can return a token or None)
                    from lark.visitors import CollapseAmbiguities
                    rec['collrun'] = True
                    try:
                        with O.budget(20):
                            rec['coll'] = [T4(x) for x in CollapseAmbiguities().transform(t)][:300]
                    except (Exception, O.Hang) as ex:
                        rec['collok'] = False
                        rec['collexc'] = type(ex).__name__
                exp.append(rec)
            except (UnexpectedInput, ParseError):
                exp.append({'cfg': name, 'out': 1, 'tree': ['N', '', 0, []], 'collrun': False, 'collok': True, 'coll': []})
            except (Exception, O.Hang) as ex:
                exp.append({'cfg': name, 'out': 2, 'tree': ['N', '', 0, []], 'exc': type(ex).__name__, 'collrun': False, 'collok': True, 'coll': []})
        case['inputs'].append({'w': list(w), 'obs': obs, 'exp': exp, 'toks': toks, 'text': text, 'vmap': mtok.vmap(text, toks) if mt else []})
    return case


def specs(tier, rng, explicit=False):
    out = []
    n = C.scale(1400 if tier == 'quick' else 14000)
    import itertools
    short = [w for k in range(0, 3) for w in itertools.product(['A', 'B', '_C', 'D'], repeat=k)]
    for i in range(n):
        G = E.rand_grammar(rng, depth=2 if i % 5 else 3)
        ins = set(rng.sample(short, 8))
        for _ in range(10):
            s = E.sample_sentence(G, rng, maxlen=5)
            if s is not None:
                ins.add(s)
        ins.add(())
        for ka, ph in ((False, True), (False, False), (True, True), (True, False)):
            if (i + (2 * ka + ph)) % 2 and tier == 'quick':
                continue       # two of the four option settings per grammar in quick
            out.append({'G': G, 'ka': ka, 'ph': ph, 'inputs': sorted(ins), 'cyk': (i % 9 == 0) and not explicit, 'explicit': explicit,
                        'collapse': explicit, 'only_explicit': explicit})
    return out


def template_specs():
    """templates whose instances share their argument symbols: a ! template next to plain ones, filtered terminals as arguments.
    G is the grammar with every instance written out by hand (alias = the template's name, as lark labels the nodes)."""
    T, R = E.tok, E.ref
    A, B, C_, D = T('A'), T('B'), T('_C'), T('D')

    def rule(name, alts, keepall=False, expand1=False):
        return {'name': name, 'expand1': expand1, 'keepall': keepall, 'alts': [{'alias': al, 'body': b} for al, b in alts]}
    out = []
    cases = [
        ('start: a{_C}\n!a{x}: x b{x}\nb{x}: x A\n',
         [rule('start', [('', R('a_c'))]), rule('a_c', [('a', E.seq([C_, R('b_c')]))], keepall=True), rule('b_c', [('b', E.seq([C_, A]))])]),
        ('start: a{_C} b{_C}\n!a{x}: x b{x}\nb{x}: x A\n',
         [rule('start', [('', E.seq([R('a_c'), R('b_c')]))]), rule('a_c', [('a', E.seq([C_, R('b_c')]))], keepall=True), rule('b_c', [('b', E.seq([C_, A]))])]),
        ('start: b{_C} a{_C}\n!a{x}: x b{x}\nb{x}: x A\n',
         [rule('start', [('', E.seq([R('b_c'), R('a_c')]))]), rule('a_c', [('a', E.seq([C_, R('b_c')]))], keepall=True), rule('b_c', [('b', E.seq([C_, A]))])]),
        ('start: p{"d", A} q{"d"}\n!p{x, y}: x y q{x}\nq{x}: x+ B\n',
         [rule('start', [('', E.seq([R('p_d'), R('q_d')]))]), rule('p_d', [('p', E.seq([D, A, R('q_d')]))], keepall=True), rule('q_d', [('q', E.seq([E.rep(D, 1, -1), B]))])]),
        ('start: w{_C}\nw{x}: k{x} [x] A\n!k{x}: x B?\n',
         [rule('start', [('', R('w_c'))]), rule('w_c', [('w', E.seq([R('k_c'), E.maybe(C_), A]))]), rule('k_c', [('k', E.seq([C_, E.opt(B)]))], keepall=True)]),
    ]
    # an anonymous literal with the text of a NAMED terminal takes its name but is filtered: "a"+ and A+ are different
    # expressions (hunted defect 42: the helper-rule cache compared symbols by name, so y: A+ got the helper of x: "a"+)
    Af = dict(A, keep=False)
    cases += [
        ('start: x B y\nx: "a"+\ny: A+\n',
         [rule('start', [('', E.seq([R('x'), B, R('y')]))]), rule('x', [('', E.rep(Af, 1, -1))]), rule('y', [('', E.rep(A, 1, -1))])]),
        ('start: y B x\ny: A+\nx: "a"+\n',
         [rule('start', [('', E.seq([R('y'), B, R('x')]))]), rule('y', [('', E.rep(A, 1, -1))]), rule('x', [('', E.rep(Af, 1, -1))])]),
        ('start: x B y\nx: "a"* B\ny: (A B?)* \n',
         [rule('start', [('', E.seq([R('x'), B, R('y')]))]), rule('x', [('', E.seq([E.rep(Af, 0, -1), B]))]), rule('y', [('', E.rep(E.seq([A, E.opt(B)]), 0, -1))])]),
        ('start: x B y\nx: ("a" B?)+\ny: (A B?)+\n',
         [rule('start', [('', E.seq([R('x'), B, R('y')]))]), rule('x', [('', E.rep(E.seq([Af, E.opt(B)]), 1, -1))]), rule('y', [('', E.rep(E.seq([A, E.opt(B)]), 1, -1))])]),
        ('start: r{"a"} B r{A}\nr{x}: x+\n',
         [rule('start', [('', E.seq([R('r_1'), B, R('r_2')]))]), rule('r_1', [('r', E.rep(Af, 1, -1))]), rule('r_2', [('r', E.rep(A, 1, -1))])]),
    ]
    import itertools
    words = [w for k in range(1, 6) for w in itertools.product(['A', 'B', '_C', 'D'], repeat=k)]
    for text, rules in cases:
        G = {'rules': rules}
        ins = set()
        rng = random.Random(7)
        for _ in range(60):
            sn = E.sample_sentence(G, rng, maxlen=8)
            if sn is not None:
                ins.add(tuple(sn))
        ins |= set(rng.sample(words, 30))
        for ph in (True, False):
            out.append({'G': G, 'gtext': text + E.TERM_DEFS, 'ka': False, 'ph': ph, 'inputs': sorted(ins), 'cyk': False, 'explicit': False, 'family': 'F_template', 'must': True})
    return out


def cyk_name_specs():
    """CYK binarises long alternatives with generated helper names: alternatives whose symbol names run together to the
    same string (t k_n v / t k n_v) must still be told apart"""
    T, R = E.tok, E.ref
    A, B = T('A'), T('B')

    def rule(name, alts):
        return {'name': name, 'expand1': False, 'keepall': False, 'alts': [{'alias': al, 'body': b} for al, b in alts]}
    out = []
    for (x1, x2), (y1, y2) in ((('k_n', 'v'), ('k', 'n_v')), (('k_n_v', 'w'), ('k_n', 'v_w')), (('k', 'n_v'), ('k_n', 'v'))):
        names = {x1: [B], x2: [A], y1: [B, B], y2: [A, A]}
        for extra in ([], [R('t')]):
            rules = [rule('start', [('flat', E.seq([R('t'), R(x1), R(x2)] + extra)), ('nested', E.seq([R('t'), R(y1), R(y2)] + extra))]), rule('t', [('', A)])]
            for n, body in names.items():
                rules.append(rule(n, [('', E.seq(list(body)))]))
            G = {'rules': rules}
            ins = [('A', 'B', 'A'), ('A', 'B', 'B', 'A', 'A'), ('A', 'B', 'A', 'A'), ('A', 'B', 'B', 'A'), ('A', 'B', 'A', 'A', 'A'), ('A', 'B', 'B', 'A', 'A', 'A')]
            for ka in (False, True):
                out.append({'G': G, 'ka': ka, 'ph': True, 'inputs': ins, 'cyk': True, 'explicit': False, 'family': 'F_cyk_names'})
    return out


def batch_of(cases):
    return {'cases': [{'G': c['G'], 'cyclic': c['cyclic'], 'multitok': bool(c.get('multitok')), 'exact': str(c.get('family', '')).startswith(('F_bnf', 'F_rand', 'F_mtok')), 'inputs': [{'w': i['w'], 'toks': i.get('toks', []), 'vmap': i.get('vmap', []), 'obs': [{k: o[k] for k in ('cfg', 'out', 'tree', 'must')} for o in i['obs']],
                                                                      'exp': [{k: o[k] for k in ('cfg', 'out', 'tree', 'collrun', 'collok', 'coll', 'one', 'isamb') if k in o} for o in i['exp']]} for i in c['inputs']]} for c in cases]}


def judge(pid, cases, ev, rep, tmp, name, module='TraceTrees', which=None):
    CH = 250
    jobs = []
    for off in range(0, len(cases), CH):
        chunk = cases[off:off + CH]
        jobs.append((chunk, C.write_batch(batch_of(chunk), tmp, '%s_%s_%d.json' % (pid, name, off))))
    from concurrent.futures import ThreadPoolExecutor

    def one(path):
        return C.tlc(module, TRACE_CFG, env={'VERIF_BATCH': path, 'VERIF_WHICH': which or pid}, workers=4, continue_=True, timeout=3000)
    with ThreadPoolExecutor(4) as ex:
        results = list(ex.map(one, [j[1] for j in jobs]))
    for (chunk, path), res in zip(jobs, results):
        C.tlc_must_run(res, module)
        ev.add_tlc('%s[%s]:%s' % (module, pid, name), res, 'trace')
        os.remove(path)
        if res.violated and not res.verdicts:
            raise C.MachineryFailure('%s violation without VERDICT line' % module)
        for v in sorted(set(tuple(x) for x in res.verdicts)):
            tid, k, clause = int(v[0]), int(v[1]), v[2]
            c = chunk[tid - 1]
            inp = c['inputs'][k - 1]
            cfg = clause.split(':')[0]
            rep.violation({'property': pid, 'family': c['family'], 'grammar': c['gtext'], 'keep_all_tokens': c['ka'], 'maybe_placeholders': c['ph'],
                           'w': inp['w'], 'text': inp.get('text', ''), 'clause': clause, 'spec_tree_count': v[3] if len(v) > 3 else None,
                           'observed': [o for o in inp['obs'] + inp['exp'] if o['cfg'] == cfg][:2], 'spec': strip_spec(c['spec'], inp['w'])})


def strip_spec(spec, w):
    s = dict(spec)
    if s.get('multitok'):
        k = [list(x) for x in s['inputs']].index(list(w))
        s['toks'] = [s['toks'][k]]
        s['texts'] = [s['texts'][k]]
    s['inputs'] = [list(w)]
    return s


def known_matcher(fnd, case):
    return False


def run(pid, tier, seed, replay):
    ev = C.Evidence(pid, tier, seed)
    rep = C.Reporter(pid, ev, known_matcher)
    rng = random.Random(seed)
    tmp = C.scratch_dir(pid.lower() + '_')
    try:
        if replay and 'builder_spec' in json.load(open(replay)):
            from . import tb
            sp = json.load(open(replay))['builder_spec']
            sp['inputs'] = [tuple(w) for w in sp['inputs']]
            tb.judge(pid, [c for c in [tb.observe_case(sp)] if not c['skip']], ev, rep, tmp, 'replay')
            return rep.finish()
        if replay:
            case = json.load(open(replay))
            sp = case['spec']
            sp['inputs'] = [tuple(w) for w in sp['inputs']]
            judge(pid, [observe_case(sp)], ev, rep, tmp, 'replay')
            return rep.finish()
        res = C.tlc('MC_EBNF', 'SPECIFICATION Spec\nINVARIANT KnownAnswers\nINVARIANT CountsExact\nCHECK_DEADLOCK FALSE\n', timeout=1800)
        C.tlc_must_run(res, 'MC_EBNF')
        ev.add_tlc('MC_EBNF (known answers from docs/tree_construction.md, counts)', res, 'design')
        if not res.ok:
            raise C.MachineryFailure('MC_EBNF: %s violated - the specification itself is wrong' % res.violated)
        sps = specs(tier, rng, explicit=(pid == 'C04'))
        if pid == 'C03':
            sps += cyk_name_specs()
            sps += template_specs()
            from . import mtok
            sps += mtok.specs(C.scale(400 if tier == 'quick' else 4000), rng)
        cases = C.pmap(observe_case, sps)
        for c in cases:
            ev.count('skipped:' + c['skip'].split(':')[0] if c['skip'] else 'grammar_option_settings')
            ev.count('inputs_skipped_more_than_80_derivations', c.get('too_ambiguous', 0))
        cases = [c for c in cases if not c['skip']]
        for c in cases:
            for i in c['inputs']:
                for o in i['obs']:
                    ev.count('parses')
                    ev.count('accepted' if o['out'] == 0 else 'rejected')
                for o in i['exp']:
                    ev.count('explicit_parses')
                    if o['out'] == 0 and '_ambig' in json.dumps(o['tree']):
                        ev.count('explicit_ambiguous')
                if any('"N"' in json.dumps(o['tree']) and o['out'] == 0 for o in i['obs']):
                    ev.count('inputs_with_placeholders')
        ev.cov['traces_validated_against_impl'] = ev.cov['counts'].get('parses', 0) + ev.cov['counts'].get('explicit_parses', 0)
        c = cases[len(cases) // 2]
        i = next((i for i in c['inputs'] if any(o['out'] == 0 for o in i['obs'])), c['inputs'][0])
        ev.sample({'grammar': c['gtext'], 'keep_all_tokens': c['ka'], 'maybe_placeholders': c['ph'], 'text': i['text'],
                   'observed': (i['exp'] if pid == 'C04' else i['obs'])[:2]})
        judge(pid, cases, ev, rep, tmp, 'sweep')
        extra(pid, tier, rng, ev, rep, tmp)
        ev.assumptions += ['token level: single-character terminals, the token index is the offset; grammars with derivation cycles are excluded from '
                           'the EBNF family (the oracle enumerates derivations)', 'conventions of DESIGN 6/C03 (a)-(c)']
        return rep.finish()
    finally:
        shutil.rmtree(tmp, ignore_errors=True)


def extra(pid, tier, rng, ev, rep, tmp):
    if pid == 'C03':
        # L1: every reduction of the real LALR parser against the callback chain of TreeBuilder.tla
        from . import tb
        tb.phase(pid, tier, rng, ev, rep, tmp)
        if ev.cov['counts'].get('accepted', 0) < 5000 or ev.cov['counts'].get('inputs_with_placeholders', 0) < 200:
            raise C.MachineryFailure('vacuity: %s' % ev.cov['counts'])
    if pid == 'C04':
        from . import c04
        c04.extra(tier, rng, ev, rep, tmp)


def body(tier, seed, replay):
    return run('C03', tier, seed, replay)


if __name__ == '__main__':
    C.run_check('C03', body)
