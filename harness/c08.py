"""C08 - rejections are UnexpectedInput errors at the first offending position.

design : CFG.tla Viable/NextTerminals (L0), LALR.tla driver, Earley.tla error branches; MC_Errors.tla checks that
         the machines' error points are the first non-viable token on reduced grammars
binding: TraceC08.tla judges class, position, expected/allowed/accepts of every rejection of the real lark
"""
import json
import os
import random
import shutil

from . import common as C
from . import families as F
from . import observe as O

PID = 'C08'
CFGS = [('lalr/basic', 'lalr', 'basic'), ('lalr/contextual', 'lalr', 'contextual'), ('earley/basic', 'earley', 'basic'),
        ('earley/dynamic', 'earley', 'dynamic'), ('earley/dynamic_complete', 'earley', 'dynamic_complete'),
        ('cyk', 'cyk', 'basic')]
TRACE_CFG = 'SPECIFICATION Spec\nINVARIANT VerdictOk\nCHECK_DEADLOCK FALSE\n'
MC_CFG = '''SPECIFICATION Spec
CONSTANTS
  MaxRules = %(R)d
  MaxLen = %(L)d
  MaxRhs = 2
INVARIANT EarleyErrorAtFirstBad
INVARIANT EarleyExpectedExact
INVARIANT LALRErrorAtFirstBad
CHECK_DEADLOCK FALSE
'''
HANG_CORPUS = ['start.0: a a\na.1:  | start Y\nX: "x"\nY: "y"\n']


def observe_case(spec):
    import logging
    logging.disable(logging.CRITICAL)
    from lark import Lark
    gtext = spec['gtext']
    try:
        e = Lark(gtext, parser='earley', lexer='basic')
    except Exception as ex:
        return {'skip': repr(ex), 'gtext': gtext}
    rules = [{'lhs': str(r.origin.name), 'rhs': [str(s.name) for s in r.expansion], 'prio': (r.options.priority or 0)}
             for r in e.rules]
    parsers = {}
    for name, parser, lexer in CFGS:
        if parser == 'cyk' and not spec.get('cyk'):
            parsers[name] = None     # CYK construction (to_cnf) is slow on unit-rule-heavy grammars: sampled only
            continue
        try:
            with O.budget(2 if parser == 'cyk' else 30):
                parsers[name] = Lark(gtext, parser=parser, lexer=lexer)
        except (Exception, O.Hang):
            parsers[name] = None     # GrammarError (LALR conflicts), CYK without epsilon support: other properties
    inputs = []
    for w in spec['inputs']:
        text = F.to_text(w)
        toks = [t for t in w if t != 'W']
        tpos = [i for i, t in enumerate(w) if t != 'W']
        obs = []
        for name, _, _ in CFGS:
            p = parsers[name]
            if p is None:
                continue
            o = O.parse_outcome(p, text, tree=False, seconds=spec.get('budget', 20))
            if o['out'] == 'hang' and spec.get('budget', 20) < 8:
                o = O.parse_outcome(p, text, tree=False, seconds=8)      # a short budget is only a first filter (first-call costs)
            rec = {'cfg': name, 'cls': o['cls'], 'ui': bool(o['ui']), 'pos': -1, 'tt': '', 'exp': [], 'acc': [], 'hasacc': False}
            if o['out'] == 'reject' and o['ui']:
                rec['pos'] = o.get('pos', -1) if o.get('pos') is not None else -1
                rec['tt'] = o.get('token_type', '')
                # the contextual lexer spells the end-of-input marker '<END-OF-FILE>' in `expected`, accepts() spells it '$END'
                rec['exp'] = ['$END' if x == '<END-OF-FILE>' else x for x in (o.get('expected') or o.get('allowed') or [])]
                if o.get('accepts') is not None:
                    rec['acc'] = o['accepts']
                    rec['hasacc'] = True
            obs.append(rec)
        inputs.append({'w': list(w), 'toks': toks, 'tpos': tpos, 'obs': obs})
    return {'gtext': gtext, 'rules': rules, 'start': 'start', 'inputs': inputs, 'family': spec['family']}


def specs(tier, rng):
    out = []
    Gs = list(F.bnf_family(3))
    pick = Gs if tier == 'thorough' else F.sample(Gs, C.scale(2200), rng)
    for G in pick:
        ins = F.enriched_inputs(G, 3, extra_len=1, rng=rng)
        out.append({'family': 'F_bnf(3,3)', 'gtext': F.grammar_text(G), 'inputs': ins, 'cyk': rng.random() < 0.08})
    for G in F.sample(Gs, C.scale(500 if tier == 'quick' else 3000), rng):
        base = F.enriched_inputs(G, 3, extra_len=1, rng=rng)
        ins = set()
        for w in base:
            ins.add(F.with_spaces(w, rng))
            if w and rng.random() < 0.4:
                i = rng.randrange(len(w) + 1)
                ins.add(w[:i] + ('U',) + w[i:])       # '?': a character no terminal matches
        out.append({'family': 'F_bnf(3,3)+ignore+unknown', 'gtext': F.grammar_text(G, ignore_ws=True), 'inputs': sorted(ins)})
    for G in F.rand_family(C.scale(400 if tier == 'quick' else 4000), rng):
        ins = set(F.enriched_inputs(G, 2, extra_len=3, rng=rng, alphabet=('X', 'Y', 'Z')))
        out.append({'family': 'F_rand', 'gtext': F.grammar_text(G, term_defs=F.TERM3), 'inputs': sorted(ins)})
    # LALR merges the look-aheads of states reached in different left contexts: what is acceptable after the shared part
    # depends on the whole stack (every input of a grammar goes through the same parser instance, one after the other)
    import itertools
    merge = [(('s', ('X', 'a', 'Z')), ('s', ('Y', 'a', 'X')), ('a', ('Y',))),
             (('s', ('X', 'a', 'Z')), ('s', ('Y', 'a', 'X')), ('a', ('Y',)), ('a', ('Y', 'a'))),
             (('s', ('X', 's', 'X')), ('s', ('Y', 's', 'Y')), ('s', ('Z',))),
             (('s', ('a', 'X')), ('s', ('Y', 'a', 'Z')), ('a', ('Z',)), ('a', ('Z', 'Z'))),
             (('s', ('X', 'a', 'b')), ('s', ('Y', 'a', 'Z')), ('a', ('Z',)), ('b', ('X',)), ('b', ()))]
    for Gb in merge:
        for perm in itertools.permutations('XYZ'):
            ren = dict(zip('XYZ', perm))
            G = tuple((l, tuple(ren.get(x, x) for x in rhs)) for l, rhs in Gb)
            out.append({'family': 'F_merge', 'gtext': F.grammar_text(G, term_defs=F.TERM3), 'inputs': list(F.all_inputs(4, alphabet=('X', 'Y', 'Z')))})
    for g in HANG_CORPUS:
        out.append({'family': 'corpus-hang', 'gtext': g, 'inputs': list(F.all_inputs(3)), 'budget': 1})
    return out


# ---- LALR with a post-lexer: the $END of a truncated input borrows from the last token FED ------------------------------
END_GRAMMARS = {
    'drop-comments': ('start: stmt+\nstmt: NAME "=" NAME ";"\nNAME: /[a-z]+/\nCOMMENT: /#[^\\n]*/\n%ignore /[ \\n]+/\n',
                      ['a = b ; c = # note', 'a # x', 'a = b ; # done\nc', 'a = # one\n # two', 'a =', 'a = b ; c # t\n= # u', '# only a comment']),
    'indenter': ('?start: _NL* stmt*\nstmt: NAME LPAR [args] RPAR _NL | NAME ":" _NL _INDENT stmt+ _DEDENT\nargs: NAME ("," NAME)*\n%declare _INDENT _DEDENT\n'
                 'NAME: /[a-z]+/\nLPAR: "("\nRPAR: ")"\n_NL: /(\\r?\\n[\\t ]*)+/\n%ignore " "\n',
                 ['f(a,\n', 'f(a,\n  b', 'x:\n  f(\n', 'f(', 'x:\n  f(a\n   ,\n', 'f(a)\ng(\n\n', 'x:', 'x:\n  f(a)\n  g(b,\n']),
}


def observe_end(job):
    import logging
    logging.disable(logging.CRITICAL)
    from lark import Lark
    from lark.indenter import Indenter
    from lark.exceptions import UnexpectedToken, UnexpectedInput
    name, lexer = job

    class DropComments:
        always_accept = ('COMMENT',)

        def process(self, stream):
            return (t for t in stream if t.type != 'COMMENT')

    class Ind(Indenter):
        NL_type = '_NL'
        OPEN_PAREN_types = ['LPAR']
        CLOSE_PAREN_types = ['RPAR']
        INDENT_type = '_INDENT'
        DEDENT_type = '_DEDENT'
        tab_len = 8
    g, texts = END_GRAMMARS[name]
    out = []
    p = Lark(g, parser='lalr', lexer=lexer, postlex=DropComments() if name == 'drop-comments' else Ind())

    def six(t):
        return [t.start_pos if isinstance(t.start_pos, int) else -1, t.end_pos if isinstance(t.end_pos, int) else -1, t.line or 0, t.column or 0,
                t.end_line or 0, t.end_column or 0]
    for text in texts:
        for cut in range(len(text), max(0, len(text) - 6), -1):
            src = text[:cut]
            try:
                p.parse(src)
                continue
            except UnexpectedToken as e:
                if e.token.type != '$END':
                    continue
                tok = six(e.token)
            except UnexpectedInput:
                continue
            try:
                fed = [six(t) for t in p.lex(src)]
            except Exception:
                continue
            out.append({'fed': fed, 'tok': tok, 'text': src, 'grammar': g, 'config': name + '/' + lexer})
    return out


def end_token_phase(ev, rep, tmp):
    cases = [c for cs in C.pmap(observe_end, [(n, lx) for n in END_GRAMMARS for lx in ('basic', 'contextual')]) for c in cs]
    ev.count('truncated_inputs_with_a_post_lexer', len(cases))
    ev.count('of_which_text_follows_the_last_token_fed', sum(1 for c in cases if c['fed'] and c['fed'][-1][1] < len(c['text'].rstrip(' '))))
    if len(cases) < 20:
        raise C.MachineryFailure('post-lexer family: only %d truncated inputs reached $END' % len(cases))
    path = C.write_batch({'cases': [{'fed': c['fed'], 'tok': c['tok']} for c in cases]}, tmp, 'c08_end.json')
    res = C.tlc('TraceEnd', TRACE_END_CFG, env={'VERIF_BATCH': path}, workers=2, continue_=True, timeout=600)
    C.tlc_must_run(res, 'TraceEnd')
    ev.add_tlc('TraceEnd', res, 'trace')
    os.remove(path)
    for v in sorted(set(tuple(x) for x in res.verdicts)):
        c = cases[int(v[0]) - 1]
        rep.violation({'property': PID, 'clause': 'postlex:' + v[2], 'grammar': c['grammar'], 'text': c['text'], 'config': c['config'], 'end_token': c['tok'],
                       'last_token_fed': c['fed'][-1] if c['fed'] else None})


TRACE_END_CFG = 'SPECIFICATION Spec\nINVARIANT VerdictOk\nCHECK_DEADLOCK FALSE\n'

# ---- dynamic Earley lexers over multi-character terminals: the error is not reported after a character nothing can match ----
COVER_GRAMMARS = [
    ('start: STRING "x"\nSTRING: /"[^"]*"/\nCOMMENT: /#[^\\n]*/\n%ignore COMMENT\n%ignore " "\n',
     ['"a#b" y and more text', '"a#b" x', '"a b" y zz', '"#" ? x', '"a" # c\ny', '"ab" x ?', 'x', '"a#b"']),
    ('start: (WORD | NUM)+\nWORD: /[a-c]+/\nNUM: /[0-9]+/\nIG: /-+[a-c]*/\n%ignore IG\n%ignore " "\n',
     ['ab 12 ?? ab', 'a-b-c ? d', 'ab--c 1 ! 2 3', '--ab ?', 'abc', '?', 'a -- ?? -- b']),
    ('start: "a" X "b" | "b"+\n%declare X\n%ignore " "\n', ['ab', 'a b', 'b', 'bb a', 'a', 'b b']),
    ('start: A B+\nA: "ab"\nB: "ba" | "b"\nSKIP: /a+b?/\n%ignore SKIP\n',
     ['abba?ba', 'abaab?b', 'ab?', 'abbaa!bb', 'abb']),
]


def cover_case(job):
    import logging
    import re
    logging.disable(logging.CRITICAL)
    from lark import Lark
    from lark.exceptions import UnexpectedInput
    g, text, lexer = job
    p = Lark(g, parser='earley', lexer=lexer)
    ign = set(p.ignore_tokens)
    langs, ignores = {}, []
    for t in p.terminals:
        pat = re.compile(t.pattern.to_regexp())
        subs = sorted({text[s0:e0] for s0 in range(len(text)) for e0 in range(s0 + 1, len(text) + 1) if pat.fullmatch(text, s0, e0)})
        enc = [[ord(ch) for ch in w] for w in subs]
        if t.name in ign:
            ignores.append(enc)
        else:
            langs[str(t.name)] = enc
    rules = [[str(r.origin.name), [str(x.name) for x in r.expansion]] for r in p.rules]
    for r in p.rules:
        for x in r.expansion:
            if x.is_term and str(x.name) not in langs:
                langs[str(x.name)] = []          # a %declare'd terminal: no pattern, the dynamic lexers can never match it
    cls, pos = '', -1
    try:
        with O.budget(20):
            p.parse(text)
    except UnexpectedInput as e:
        cls, pos = type(e).__name__, e.pos_in_stream if isinstance(e.pos_in_stream, int) else -1
    except Exception as e:
        cls = 'EXC:' + type(e).__name__
    return {'rules': rules, 'langs': langs, 'ignores': ignores, 'text': [ord(ch) for ch in text], 'complete': lexer == 'dynamic_complete',
            'cls': cls, 'pos': pos, 'grammar': g, 'textstr': text, 'lexer': lexer}


def allowed_phase(tier, rng, ev, rep, tmp):
    """UnexpectedCharacters.allowed of the basic and contextual lexers on the keyword/identifier terminal sets of C07 (TraceLex, mode C08A)"""
    from . import c07
    sps = [sp for sp in c07.specs('quick', random.Random(rng.randrange(1 << 30))) if len(sp['terms']) <= 6][:C.scale(500 if tier == 'quick' else 2500)]
    for sp in sps:
        sp['texts'] = sp['texts'][:8] + ['?', 'if ?', 'a ?', '1?']
    cases = [c for c in C.pmap(c07.observe_case, sps) if not c['skip']]
    keys = ('n', 'M', 'NL', 'a', 'mode', 'toks', 'among', 'allowed', 'err', 'ecls', 'eline', 'ecol', 'basicacc', 'ctxacc', 'same', 'overlap')
    nerr = 0
    for c in cases:
        c['runs'] = [r for r in c['runs'] if r['mode'] in ('basic', 'ctx')]
        nerr += sum(1 for r in c['runs'] if r['ecls'] == 'UnexpectedCharacters')
    ev.count('lexer_errors_with_allowed_sets', nerr)
    if nerr < 200:
        raise C.MachineryFailure('allowed-set family: only %d UnexpectedCharacters' % nerr)
    CH = 250
    jobs = []
    for off in range(0, len(cases), CH):
        chunk = cases[off:off + CH]
        jobs.append((chunk, C.write_batch({'cases': [{'T': c['T'], 'rank': c['rank'], 'SM': c['SM'], 'order': c['order'],
                                                      'runs': [{k: r[k] for k in keys} for r in c['runs']]} for c in chunk]}, tmp, 'c08_allowed_%d.json' % off)))
    results = C.tlc_parallel('TraceLex', TRACE_END_CFG, [j[1] for j in jobs], continue_=True, timeout=3000, env={'VERIF_WHICH': 'C08A'})
    for (chunk, path), res in zip(jobs, results):
        C.tlc_must_run(res, 'TraceLex[C08A]')
        ev.add_tlc('TraceLex[C08A]', res, 'trace')
        os.remove(path)
        for v in sorted(set(tuple(x) for x in res.verdicts)):
            c = chunk[int(v[0]) - 1]
            r = c['runs'][int(v[1]) - 1]
            rep.violation({'property': PID, 'clause': 'lexer:' + v[2], 'grammar': c['sgtext'] if r['mode'] == 'ctx' and c.get('sgtext') else c['gtext'],
                           'text': json.loads(r['text']), 'config': 'lalr/' + ('contextual' if r['mode'] == 'ctx' else 'basic'),
                           'allowed': [c['T'][i - 1]['name'] for i in r['allowed']], 'held': [c['T'][i - 1]['name'] for i in r['among'][len(r['toks'])]]})


def cover_phase(tier, rng, ev, rep, tmp):
    jobs = [(g, t, lx) for g, texts in COVER_GRAMMARS for t in texts for lx in ('dynamic', 'dynamic_complete')]
    for g, texts in COVER_GRAMMARS:
        alpha = sorted(set(''.join(texts)))
        for _ in range(C.scale(60 if tier == 'quick' else 600)):
            t = ''.join(rng.choice(alpha) for _ in range(rng.randint(1, 14)))
            jobs.append((g, t, rng.choice(['dynamic', 'dynamic_complete'])))
    cases = C.pmap(cover_case, jobs)
    ev.count('dynamic_multichar_rejections', sum(1 for c in cases if c['cls']))
    ev.count('dynamic_multichar_parses', len(cases))
    path = C.write_batch({'cases': [{k: c[k] for k in ('rules', 'langs', 'ignores', 'text', 'complete', 'cls', 'pos')} for c in cases]}, tmp, 'c08_xscan.json')
    res = C.tlc('TraceXScan', TRACE_END_CFG, env={'VERIF_BATCH': path}, workers=8, continue_=True, timeout=1500)
    C.tlc_must_run(res, 'TraceXScan')
    ev.add_tlc('TraceXScan', res, 'trace')
    os.remove(path)
    for v in sorted(set(tuple(x) for x in res.verdicts)):
        c = cases[int(v[0]) - 1]
        rep.violation({'property': PID, 'clause': 'dynamic:' + v[2], 'grammar': c['grammar'], 'text': c['textstr'], 'config': 'earley/' + c['lexer'],
                       'reported': [c['cls'], c['pos']]})


def known_matcher(fnd, case):
    m = fnd.get('match', {})
    clause = case.get('clause', '')
    if m.get('kind') == 'nonreduced-late-detection':
        return clause.endswith('@nonreduced')
    if m.get('kind') == 'lalr-loop-on-priority-resolved-conflict':
        return clause.endswith('hang@automaton-loops')
    if m.get('kind') == 'end-not-in-expected':
        return clause.endswith('@end-through-contextual-lexer')
    return False


def batch_of(cases):
    out = []
    for c in cases:
        ins = [{'toks': i['toks'], 'tpos': i['tpos'], 'obs': i['obs']} for i in c['inputs']]
        out.append({'rules': c['rules'], 'start': c['start'], 'inputs': ins})
    return {'cases': out}


def judge(cases, ev, rep, tmp, name):
    CH = 600
    jobs = []
    for off in range(0, len(cases), CH):
        chunk = cases[off:off + CH]
        jobs.append((chunk, C.write_batch(batch_of(chunk), tmp, 'c08_%s_%d.json' % (name, off))))
    results = C.tlc_parallel('TraceC08', TRACE_CFG, [j[1] for j in jobs], continue_=True, timeout=3000)
    for (chunk, path), res in zip(jobs, results):
        C.tlc_must_run(res, 'TraceC08')
        ev.add_tlc('TraceC08:%s' % name, res, 'trace')
        os.remove(path)
        if res.violated and not res.verdicts:
            raise C.MachineryFailure('TraceC08 violation without VERDICT line')
        for v in sorted(set(tuple(x) for x in res.verdicts)):
            tid, k, clause = int(v[0]), int(v[1]), v[2]
            c = chunk[tid - 1]
            inp = c['inputs'][k - 1]
            rep.violation({'property': PID, 'family': c['family'], 'grammar': c['gtext'], 'clause': clause,
                           'w': inp['w'], 'text': F.to_text(inp['w']), 'first_bad_token_index': v[3] if len(v) > 3 else None,
                           'observed': [o for o in inp['obs'] if clause.startswith(o['cfg'] + ':')]})


def body(tier, seed, replay):
    ev = C.Evidence(PID, tier, seed)
    rep = C.Reporter(PID, ev, known_matcher)
    rng = random.Random(seed)
    tmp = C.scratch_dir('c08_')
    try:
        if replay and str(json.load(open(replay)).get('clause', '')).startswith('postlex:'):
            end_token_phase(ev, rep, tmp)
            return rep.finish()
        if replay and str(json.load(open(replay)).get('clause', '')).startswith('dynamic:'):
            cover_phase(tier, rng, ev, rep, tmp)
            return rep.finish()
        if replay:
            case = json.load(open(replay))
            got = observe_case({'family': case['family'], 'gtext': case['grammar'], 'inputs': [tuple(case['w'])], 'budget': 3})
            judge([got], ev, rep, tmp, 'replay')
            return rep.finish()
        for name, par in [('MC_Errors R=2', dict(R=2, L=3))] + ([('MC_Errors R=3', dict(R=3, L=3))] if tier == 'thorough' else []):
            res = C.tlc('MC_Errors', MC_CFG % par, timeout=3000)
            C.tlc_must_run(res, name)
            ev.add_tlc(name, res, 'design')
            if not res.ok:
                raise C.MachineryFailure('%s: design-level invariant %s violated' % (name, res.violated))
        cases = [c for c in C.pmap(observe_case, specs(tier, rng)) if 'skip' not in c]
        for c in cases:
            ev.count('grammars')
            for inp in c['inputs']:
                for o in inp['obs']:
                    ev.count('rejections' if o['cls'] else 'accepts')
                    if o['cls']:
                        ev.count('cls:' + o['cls'])
        ev.cov['traces_validated_against_impl'] = ev.cov['counts'].get('rejections', 0)
        for c in (cases[0], cases[len(cases) // 2]):
            inp = next((i for i in c['inputs'] if any(o['cls'] for o in i['obs'])), None)
            if inp:
                ev.sample({'grammar': c['gtext'], 'text': F.to_text(inp['w']), 'observed': inp['obs'][:3]})
        judge(cases, ev, rep, tmp, 'sweep')
        end_token_phase(ev, rep, tmp)
        cover_phase(tier, rng, ev, rep, tmp)
        allowed_phase(tier, rng, ev, rep, tmp)
        selftest(ev, cases, tmp)
        if ev.cov['counts'].get('rejections', 0) < 5000:
            raise C.MachineryFailure('vacuity: %s' % ev.cov['counts'])
        ev.assumptions += ['single-character terminals (offset of a token = its index); multi-character/overlapping terminals are covered at '
                           'the language level by C01 only', 'LALR on non-reduced or S/R-conflict grammars judged against the automaton of LALR.tla']
        return rep.finish()
    finally:
        shutil.rmtree(tmp, ignore_errors=True)


def selftest(ev, cases, tmp):
    import copy
    mut = []
    expect = set()
    for c in cases:
        for ii, inp in enumerate(c['inputs']):
            o = next((o for o in inp['obs'] if o['cfg'] == 'earley/dynamic' and o['cls'] == 'UnexpectedCharacters'), None)
            if o and len(mut) < 2:
                m = copy.deepcopy(c)
                m['inputs'] = [m['inputs'][ii]]
                oo = next(x for x in m['inputs'][0]['obs'] if x['cfg'] == 'earley/dynamic')
                if len(mut) == 0:
                    oo['pos'] += 1
                else:
                    oo['exp'] = oo['exp'] + ['BOGUS']
                mut.append(m)
                expect.add((len(mut), 1))
                break
        if len(mut) == 2:
            break
    path = C.write_batch(batch_of(mut), tmp, 'c08_self.json')
    res = C.tlc('TraceC08', TRACE_CFG, env={'VERIF_BATCH': path}, continue_=True, workers=2, timeout=600)
    C.tlc_must_run(res, 'selftest')
    got = {(int(v[0]), int(v[1])) for v in res.verdicts}
    ev.cov['binding_selftest'] = {'corrupted': len(expect), 'rejected': len(got & expect)}
    if got != expect:
        raise C.MachineryFailure('binding self-test: corrupted %s, TLC rejected %s' % (sorted(expect), sorted(got)))


if __name__ == '__main__':
    C.run_check(PID, body)
