"""C17 - imports, overrides, extensions and templates mean what textual inlining means.

design : Imports.tla: the grammar obtained by writing the definitions out (renaming layer by layer, dependencies,
         %override / %extend, template instantiation) as data for EBNF.tla - L0 is the meaning of THAT grammar
binding: TraceImports.tla: module systems written as real .lark files; Lark(main, import_paths=[dir]) under Earley and
         LALR against the trees of the assembled grammar: same language, same trees with the documented names,
         no capture of same-named local definitions.
"""
import itertools
import json
import os
import random
import shutil

from . import common as C
from . import observe as O
from . import ebnf as E
from . import c03

PID = 'C17'
TRACE_CFG = 'SPECIFICATION Spec\nINVARIANT VerdictOk\nCHECK_DEADLOCK FALSE\n'
TERMS = {'main': [('A', 'a'), ('B', 'b')], 'ma': [('P', 'p'), ('Q', 'q')], 'mb': [('R', 'r'), ('S', 's')]}
RULEPOOL = {'main': ['start', 'w', 'x', 'y'], 'ma': ['x', 'y', 'z'], 'mb': ['u', 'v', 'y']}


def tok(name):
    return {'k': 'tok', 'name': name, 'keep': not name.startswith('_')}


def tmpl(name, args):
    return {'k': 'tmpl', 'name': name, 'args': args}


def norm(e):
    d = E.norm(e)
    d['args'] = [norm(x) for x in e.get('args', [])]
    d['items'] = [norm(x) for x in e.get('items', [])]
    d['alts'] = [norm(x) for x in e.get('alts', [])]
    d['x'] = norm(e['x']) if 'x' in e else {}
    return d


def text(e):
    if e['k'] == 'tmpl':
        return '%s{%s}' % (e['name'], ', '.join(text(a) for a in e['args']))
    if e['k'] == 'tok':
        return '"%s"' % e['lit'] if e.get('lit') else e['name']
    if e['k'] == 'rule':
        return e['name']
    if e['k'] == 'seq':
        return ' '.join(text(x) for x in e['items'])
    if e['k'] == 'alt':
        return '(' + ' | '.join(text(x) for x in e['alts']) + ')'
    if e['k'] == 'opt':
        return wrap(e['x']) + '?'
    if e['k'] == 'maybe':
        return '[' + text(e['x']) + ']'
    if e['k'] == 'rep':
        if e['m'] < 0:
            return wrap(e['x']) + ('*' if e['n'] == 0 else '+')
        return wrap(e['x']) + ('~%d' % e['n'] if e['n'] == e['m'] else '~%d..%d' % (e['n'], e['m']))
    raise ValueError(e['k'])


def wrap(x):
    return text(x) if x['k'] in ('tok', 'rule', 'alt', 'maybe', 'tmpl') else '(' + text(x) + ')'


LITERAL_ARGS = [False]


def rand_body(rng, atoms, depth=2, tmpls=()):
    if depth <= 0 or rng.random() < 0.35:
        return rng.choice(atoms)
    k = rng.choice(['seq', 'seq', 'alt', 'opt', 'maybe', 'star', 'plus', 'tmpl' if tmpls else 'seq'])
    if k == 'seq':
        return E.seq([rand_body(rng, atoms, depth - 1, tmpls) for _ in range(rng.choice([2, 2, 3]))])
    if k == 'alt':
        return E.alt([rand_body(rng, atoms, depth - 1, tmpls) for _ in range(2)])
    if k == 'opt':
        return E.opt(rand_body(rng, atoms, depth - 1, tmpls))
    if k == 'maybe':
        return E.maybe(rand_body(rng, atoms, depth - 1, tmpls))
    if k == 'tmpl':
        name, nargs = rng.choice(tmpls)
        # in main a template argument may be a LITERAL: an anonymous terminal that takes the name of main's terminal with the
        # same text but is filtered - t{"a"} and t{A} are different instances when written out (hunted, DESIGN 7b)
        pool = atoms + ([dict(tok(t), keep=False, lit=ch) for t, ch in TERMS['main']] if LITERAL_ARGS[0] else [])
        return tmpl(name, [rng.choice(pool) for _ in range(nargs)])
    x = rand_body(rng, [a for a in atoms if a['k'] == 'tok'], 0)
    return E.rep(x, 0 if k == 'star' else 1, -1)


def rand_system(rng):
    use_mb = rng.random() < 0.6
    mb_via = rng.choice(['ma', 'main']) if use_mb else None
    mods = {}

    def mk_module(name, imported_atoms, tmpls=(), taken=()):
        terms = [tok(t) for t, _ in TERMS[name]]
        pool = [n for n in RULEPOOL[name] if n not in taken]       # a module does not define what it imports under the same name
        if name != 'main':
            rng.shuffle(pool)
        names = pool[:rng.choice([2, 3])] if name != 'main' else ['start'] + rng.sample(pool[1:], min(len(pool) - 1, rng.choice([0, 1, 2])))
        rules = []
        for i, n in enumerate(names):
            later = [E.ref(x) for x in names[i + 1:]]          # references only to later rules: no recursion, no cycles
            atoms = terms + terms + later + imported_atoms
            alts = [{'alias': rng.choice(['', '', 'al_' + n]) if n != 'start' else '', 'body': rand_body(rng, atoms, 2, tmpls)} for _ in range(rng.choice([1, 1, 2]))]
            if len(alts) == 2 and json.dumps(alts[0]['body'], sort_keys=True) == json.dumps(alts[1]['body'], sort_keys=True):
                alts = alts[:1]                            # "Rules defined twice" is not what this family is about
            rules.append({'name': n, 'expand1': rng.random() < 0.15 and n != 'start', 'keepall': False, 'inline': False, 'prio': 0, 'params': [], 'alts': alts})
        return rules, names

    def mk_import(frm, names, terms):
        style = rng.choice(['multi', 'multi', 'single-alias', 'single'])
        cand = names + [t for t, _ in terms]
        if style == 'multi':
            chosen = rng.sample(cand, rng.choice([1, 2, 2, 3]))
            return {'from': frm, 'names': [{'name': c, 'as': c} for c in chosen], 'style': 'multi'}
        if style == 'single-alias' and terms and rng.random() < 0.4:
            # a terminal renamed ACROSS the underscore boundary: written out by hand, every use of it (inside the imported rules
            # too) is a filtered _NAME (hunted defect 35: the imported rules kept filtering by the module's own name)
            c = rng.choice([t for t, _ in terms])
            return {'from': frm, 'names': [{'name': c, 'as': '_' + c + 'H'}], 'style': style}
        c = rng.choice(names)
        return {'from': frm, 'names': [{'name': c, 'as': (c + 'r') if style == 'single-alias' else c}], 'style': style}

    # innermost first
    if use_mb:
        rb, nb = mk_module('mb', [])
        mods['mb'] = {'rules': rb, 'imports': [], 'changes': []}
    ima = []
    atoms_a = []
    if use_mb and mb_via == 'ma':
        st = mk_import('mb', nb, TERMS['mb'])
        ima.append(st)
        atoms_a = [(tok(n['as']) if n['name'].isupper() else E.ref(n['as'])) for n in st['names']]
    ma_t = rng.random() < 0.45          # ma defines a template; its parameters are named like rules of main (and of ma)
    ra, na = mk_module('ma', atoms_a, [('lst', 2)] if ma_t else (), taken={n['as'] for st in ima for n in st['names']})
    if ma_t:
        ra.append({'name': 'lst', 'expand1': False, 'keepall': False, 'inline': False, 'prio': 0, 'params': ['start', 'w'],
                   # ^ names of rules of main, not of ma (a parameter may not be named like a rule of its own module)
                   'alts': [{'alias': '', 'body': E.seq([E.ref('start'), E.rep(E.seq([E.ref('w'), E.ref('start')]), 0, 2)])}]})
        if not any('"tmpl"' in json.dumps(r) for r in ra[:-1]):
            ra[0]['alts'][0]['body'] = E.seq([ra[0]['alts'][0]['body'], tmpl('lst', [tok('P'), tok('Q')])])
    mods['ma'] = {'rules': ra, 'imports': ima, 'changes': []}
    imain = [mk_import('ma', na, TERMS['ma'])]
    if rng.random() < 0.35:
        # a second statement for the same module: one of its terminals under a filtered (underscore) alias, while rules that use
        # the terminal are imported by the first statement
        already = {n['name'] for n in imain[0]['names']}
        cands = [t for t, _ in TERMS['ma'] if t not in already]
        if cands:
            c = rng.choice(cands)
            imain.append({'from': 'ma', 'names': [{'name': c, 'as': '_' + c + 'H'}], 'style': 'single-alias'})
    timport = None
    if ma_t and rng.random() < 0.6:        # main imports the template itself, by name or renamed
        if imain[0]['style'] == 'multi':
            imain[0]['names'].append({'name': 'lst', 'as': 'lst'})
            timport = 'lst'
        else:
            imain[0] = {'from': 'ma', 'names': [{'name': 'lst', 'as': 'lstr'}], 'style': 'single-alias'}
            timport = 'lstr'
    if use_mb and mb_via == 'main':
        st2 = mk_import('mb', nb, TERMS['mb'])
        seen = {n['as'] for n in imain[0]['names']}
        st2['names'] = [n for n in st2['names'] if n['as'] not in seen]      # one local name, one definition
        if not st2['names']:
            st2 = {'from': 'mb', 'names': [{'name': nb[0], 'as': nb[0] + 'b'}], 'style': 'single-alias'}
        imain.append(st2)
    atoms_m = []
    for st in imain:
        atoms_m += [(tok(n['as']) if n['name'].isupper() else E.ref(n['as'])) for n in st['names'] if n['name'] != 'lst']
    tmpls = [(timport, 2)] if timport else []
    if not atoms_m:
        atoms_m = [tmpl(timport, [tok('A'), tok('B')])]
    trules = []
    if rng.random() < 0.5:
        tmpls = tmpls + [('sep', 2)]
        trules.append({'name': 'sep', 'expand1': False, 'keepall': False, 'inline': False, 'prio': 0, 'params': ['tx', 'ts'],
                       'alts': [{'alias': '', 'body': E.seq([E.ref('tx'), E.rep(E.seq([E.ref('ts'), E.ref('tx')]), 0, -1)])}]})
    LITERAL_ARGS[0] = True
    try:
        rm, nm = mk_module('main', atoms_m + atoms_m, tmpls)
    finally:
        LITERAL_ARGS[0] = False
    # make sure start uses at least one imported name
    rm[0]['alts'][0]['body'] = E.seq([rm[0]['alts'][0]['body'], rng.choice(atoms_m)])
    # names of main must not collide with imported aliases
    imported_names = {n['as'] for st in imain for n in st['names']}
    rm = [r for r in rm if r['name'] == 'start' or r['name'] not in imported_names]
    keep = {r['name'] for r in rm}

    def scrub(e):       # references to removed local rules -> a terminal
        if e['k'] == 'rule' and e['name'] in RULEPOOL['main'] and e['name'] not in keep and e['name'] not in imported_names:
            return tok('A')
        for f in ('items', 'alts', 'args'):
            if f in e:
                e[f] = [scrub(x) for x in e[f]]
        if 'x' in e and e['x']:
            e['x'] = scrub(e['x'])
        return e
    for r in rm:
        for a in r['alts']:
            a['body'] = scrub(a['body'])
    changes = []
    imported_rules = [n['as'] for st in imain for n in st['names'] if not n['name'].isupper() and n['name'] != 'lst']
    if imported_rules and rng.random() < 0.5:
        target = rng.choice(imported_rules)
        body = rand_body(rng, [tok('A'), tok('B')], 1)
        changes.append({'kind': rng.choice(['override', 'extend']), 'name': target, 'alts': [{'alias': '', 'body': body}]})
    mods['main'] = {'rules': rm + trules, 'imports': imain, 'changes': changes}
    # terminals: ma's second terminal may be built from its first one; main may %extend / %override an imported terminal
    tdefs = {(m, t): ['"%s"' % ch] for m in TERMS for t, ch in TERMS[m]}
    composed = rng.random() < 0.5
    if composed:
        tdefs[('ma', 'Q')] = ['P "q"']
    tchanges = []
    imported_terms = [(st['from'], n['name'], n['as']) for st in imain for n in st['names'] if n['name'].isupper()]
    if imported_terms and rng.random() < 0.6:
        frm, nm, local = rng.choice(imported_terms)
        tchanges.append({'kind': rng.choice(['extend', 'extend', 'override']), 'local': local, 'mod': frm, 'term': nm, 'new': rng.choice(['t', 'k'])})
    return {'mods': mods, 'main': 'main', 'tdefs': {'%s.%s' % k: v for k, v in tdefs.items()}, 'tchanges': tchanges}


def term_languages(system):
    """strings of every terminal after the main module's %extend / %override (terminals are finite here)"""
    lang = {}
    ch = {(m, t): c for m in TERMS for t, c in TERMS[m]}
    for c in system.get('tchanges', []):
        pass
    base = {}
    for m in TERMS:
        for t, c in TERMS[m]:
            base[(m, t)] = [c]
    for c in system.get('tchanges', []):
        key = (c['mod'], c['term'])
        base[key] = [c['new']] if c['kind'] == 'override' else [c['new']] + base[key]
    for m in TERMS:
        for t, c in TERMS[m]:
            d = system.get('tdefs', {}).get('%s.%s' % (m, t), [])
            if d and d[0].startswith('P '):
                lang[(m, t)] = [p + 'q' for p in base[('ma', 'P')]]
            else:
                lang[(m, t)] = base[(m, t)]
    # a composed terminal is itself subject to a change made to it
    for c in system.get('tchanges', []):
        key = (c['mod'], c['term'])
        d = system.get('tdefs', {}).get('%s.%s' % key, [])
        if d and d[0].startswith('P '):
            lang[key] = [c['new']] if c['kind'] == 'override' else [c['new']] + lang[key]
    return lang


def module_text(name, M, system=None):
    lines = []
    for st in M['imports']:
        if st['style'] == 'multi':
            lines.append('%%import .%s (%s)' % (st['from'], ', '.join(n['name'] for n in st['names'])))
        else:
            n = st['names'][0]
            lines.append('%%import .%s.%s%s' % (st['from'], n['name'], ' -> ' + n['as'] if n['as'] != n['name'] else ''))
    for r in M['rules']:
        head = ('?' if r['expand1'] else '') + r['name'] + ('{%s}' % ', '.join(r['params']) if r['params'] else '')
        lines.append('%s: %s' % (head, ' | '.join(text(a['body']) + (' -> ' + a['alias'] if a['alias'] else '') for a in r['alts'])))
    for c in M['changes']:
        lines.append('%%%s %s: %s' % (c['kind'], c['name'], ' | '.join(text(a['body']) for a in c['alts'])))
    system = system or {}
    if name == 'main':
        for c in system.get('tchanges', []):
            lines.append('%%%s %s: "%s"' % (c['kind'], c['local'], c['new']))
    for t, ch in TERMS[name]:
        d = system.get('tdefs', {}).get('%s.%s' % (name, t))
        lines.append('%s: %s' % (t, d[0] if d else '"%s"' % ch))
    return '\n'.join(lines) + '\n'


def sys_json(system, ka, ph):
    mods = {}
    for name, M in system['mods'].items():
        mods[name] = {'rules': [{'name': r['name'], 'expand1': r['expand1'], 'keepall': r['keepall'], 'inline': False, 'prio': 0, 'params': r['params'],
                                 'alts': [{'alias': a['alias'], 'body': norm(a['body'])} for a in r['alts']]} for r in M['rules']],
                      # statements naming the same module are one import of that module (lark merges their alias tables)
                      'imports': [{'from': frm, 'names': [{'name': n['name'], 'as': n['as'], 'under': n['as'].startswith('_')}
                                                          for st in M['imports'] if st['from'] == frm for n in st['names']]}
                                  for frm in sorted({st['from'] for st in M['imports']}, key=[st['from'] for st in M['imports']].index)],
                      'changes': [{'kind': c['kind'], 'name': c['name'], 'alts': [{'alias': a['alias'], 'body': norm(a['body'])} for a in c['alts']]} for c in M['changes']]}
    for name in ('main', 'ma', 'mb'):
        mods.setdefault(name, {'rules': [], 'imports': [], 'changes': []})
    return {'mods': mods, 'main': 'main', 'ka': ka, 'ph': ph}


def observe_case(spec):
    import logging
    logging.disable(logging.CRITICAL)
    from lark import Lark
    from lark.exceptions import UnexpectedInput, GrammarError
    system = spec['system']
    work = C.scratch_dir('c17w_')
    case = {'skip': '', 'inputs': [], 'spec': spec, 'texts': {}, 'sys': sys_json(system, False, spec['ph'])}
    try:
        for name, M in system['mods'].items():
            open(os.path.join(work, name + '.lark'), 'w').write(module_text(name, M, system))
            case['texts'][name] = module_text(name, M, system)
        main = os.path.join(work, 'main.lark')
        parsers = {}
        for cfg, parser, lexer in (('earley/dynamic', 'earley', 'dynamic'), ('lalr/contextual', 'lalr', 'contextual')):
            try:
                with O.budget(30):
                    parsers[cfg] = Lark(open(main).read(), parser=parser, lexer=lexer, source_path=main, maybe_placeholders=spec['ph'])
            except GrammarError as e:
                if parser == 'earley':
                    case['skip'] = 'GrammarError: ' + str(e)[:120]
                    case['rejected_by_lark'] = str(e)[:300]
                    return case
            except Exception as e:
                if parser == 'earley':
                    case['skip'] = type(e).__name__ + ': ' + str(e)[:100]
                    return case
        p0 = parsers['earley/dynamic']
        if E.deriv_cyclic([(str(r.origin.name), [str(s.name) for s in r.expansion]) for r in p0.rules]):
            case['skip'] = 'derivation cycle'
            return case
        lang = term_languages(system)
        import hashlib
        for w in spec['inputs']:
            # each token is spelled by one of the strings of its terminal (chosen deterministically from the input)
            hsh = int(hashlib.sha1(json.dumps(w).encode()).hexdigest(), 16)
            pieces = [lang[(m, t)][(hsh >> (3 * i)) % len(lang[(m, t)])] for i, (m, t) in enumerate(w)]
            text_ = ''.join(pieces)
            offs, acc = {}, 0
            for i, pc in enumerate(pieces):
                offs[acc] = i
                acc += len(pc)
            obs = []
            for cfg, p in parsers.items():
                try:
                    with O.budget(20):
                        t = p.parse(text_)
                    obs.append({'cfg': cfg, 'out': 0, 'tree': reindex(c03.tree4(t), offs)})
                except UnexpectedInput:
                    obs.append({'cfg': cfg, 'out': 1, 'tree': ['N', '', 0, []]})
                except Exception as e:
                    obs.append({'cfg': cfg, 'out': 2, 'tree': ['N', '', 0, []], 'exc': type(e).__name__})
            case['inputs'].append({'w': [list(x) for x in w], 'obs': obs, 'text': text_})
    finally:
        shutil.rmtree(work, ignore_errors=True)
    return case


def reindex(t4, offs):
    """token leaves carry character offsets; the oracle numbers tokens: offset -> token index (by the intended spelling)"""
    if t4[0] == 'T':
        return ['T', t4[1], offs.get(t4[2], -1 - t4[2]), []]
    return [t4[0], t4[1], t4[2], [reindex(x, offs) for x in t4[3]]]


def sample_inputs(system, rng):
    """sentences sampled from the module system by expanding definitions in their own namespaces (input selection only)"""
    mods = system['mods']

    def find(mod, name):
        M = mods[mod]
        for r in M['rules']:
            if r['name'] == name and not r['params']:
                for c in M['changes']:
                    if c['name'] == name:
                        return mod, dict(r, alts=(c['alts'] if c['kind'] == 'override' else c['alts'] + r['alts']))
                return mod, r
        for st in M['imports']:
            for n in st['names']:
                if n['as'] == name:
                    m2, r = find(st['from'], n['name'])
                    for c in M['changes']:
                        if c['name'] == name and r is not None:
                            return mod if c['kind'] == 'override' else m2, dict(r, alts=(c['alts'] if c['kind'] == 'override' else r['alts']))
                    return m2, r
        return mod, None

    def find_tmpl(mod, name):
        for r in mods[mod]['rules']:
            if r['name'] == name and r['params']:
                return mod, r
        for st in mods[mod]['imports']:
            for n in st['names']:
                if n['as'] == name:
                    return find_tmpl(st['from'], n['name'])
        raise StopIteration

    def term_of(mod, name):
        if any(t == name for t, _ in TERMS[mod]):
            return (mod, name)
        for st in mods[mod]['imports']:
            for n in st['names']:
                if n['as'] == name:
                    return term_of(st['from'], n['name'])
        return None

    def gen(mod, e, env, depth):
        if depth > 9:
            raise RecursionError
        k = e['k']
        if k in ('tok', 'rule') and e['name'] in env:
            m2, e2 = env[e['name']]
            return gen(m2, e2, {}, depth + 1)
        if k == 'tok':
            t = term_of(mod, e['name'])
            if t is None:
                raise RecursionError
            return [t]
        if k == 'rule':
            m2, r = find(mod, e['name'])
            if r is None:
                raise RecursionError
            return gen(m2, rng.choice(r['alts'])['body'], {}, depth + 1)
        if k == 'tmpl':
            tmod, tr = find_tmpl(mod, e['name'])
            # arguments are resolved where the template is used (through the caller's environment first)
            env2 = {p: (env[a['name']] if a['k'] in ('tok', 'rule') and a['name'] in env else (mod, a)) for p, a in zip(tr['params'], e['args'])}
            return gen(tmod, rng.choice(tr['alts'])['body'], env2, depth + 1)
        if k == 'seq':
            out = []
            for x in e['items']:
                out += gen(mod, x, env, depth + 1)
            return out
        if k == 'alt':
            return gen(mod, rng.choice(e['alts']), env, depth + 1)
        if k in ('opt', 'maybe'):
            return gen(mod, e['x'], env, depth + 1) if rng.random() < 0.6 else []
        if k == 'rep':
            out = []
            for _ in range(rng.randint(e['n'], e['n'] + 2)):
                out += gen(mod, e['x'], env, depth + 1)
            return out
    outs = set()
    for _ in range(14):
        try:
            s = gen('main', E.ref('start'), {}, 0)
            if len(s) <= 7:
                outs.add(tuple(s))
        except (RecursionError, StopIteration):
            pass
    allt = [(m, t) for m in system['mods'] for t, _ in TERMS[m]]
    for _ in range(6):
        outs.add(tuple(rng.choice(allt) for _ in range(rng.randint(0, 3))))
    for s in list(outs)[:4]:
        if s:
            i = rng.randrange(len(s))
            outs.add(s[:i] + s[i + 1:])
    return sorted(outs)


def specs(tier, rng):
    out = []
    for _ in range(C.scale(1500 if tier == 'quick' else 15000)):
        system = rand_system(rng)
        out.append({'system': system, 'ph': rng.random() < 0.7, 'inputs': sample_inputs(system, rng)})
    return out


def judge(cases, ev, rep, tmp, name):
    CH = 200
    jobs = []
    for off in range(0, len(cases), CH):
        chunk = cases[off:off + CH]
        batch = {'cases': [{'sys': c['sys'], 'inputs': [{'w': i['w'], 'obs': [{k: o[k] for k in ('cfg', 'out', 'tree')} for o in i['obs']]} for i in c['inputs']]} for c in chunk]}
        jobs.append((chunk, C.write_batch(batch, tmp, 'c17_%s_%d.json' % (name, off))))
    results = C.tlc_parallel('TraceImports', TRACE_CFG, [j[1] for j in jobs], continue_=True, timeout=3000)
    for (chunk, path), res in zip(jobs, results):
        C.tlc_must_run(res, 'TraceImports')
        ev.add_tlc('TraceImports:%s' % name, res, 'trace')
        os.remove(path)
        if res.violated and not res.verdicts:
            raise C.MachineryFailure('TraceImports violation without VERDICT line')
        for v in sorted(set(tuple(x) for x in res.verdicts)):
            c = chunk[int(v[0]) - 1]
            i = c['inputs'][int(v[1]) - 1]
            sp = dict(c['spec'])
            sp['inputs'] = [i['w']]
            rep.violation({'property': PID, 'clause': v[2], 'modules': c['texts'], 'text': i['text'], 'observed': i['obs'], 'spec': sp})


def body(tier, seed, replay):
    ev = C.Evidence(PID, tier, seed)
    rep = C.Reporter(PID, ev)
    rng = random.Random(seed)
    tmp = C.scratch_dir('c17_')
    try:
        if replay:
            case = json.load(open(replay))
            sp = case['spec']
            sp['inputs'] = [tuple(tuple(x) for x in w) for w in sp['inputs']]
            judge([observe_case(sp)], ev, rep, tmp, 'replay')
            return rep.finish()
        res = C.tlc('MC_EBNF', 'SPECIFICATION Spec\nINVARIANT KnownAnswers\nINVARIANT CountsExact\nCHECK_DEADLOCK FALSE\n', timeout=1800)
        C.tlc_must_run(res, 'MC_EBNF')
        ev.add_tlc('MC_EBNF (oracle known answers)', res, 'design')
        cases = C.pmap(observe_case, specs(tier, rng))
        for c in cases:
            ev.count('skipped:' + c['skip'].split(':')[0] if c['skip'] else 'module_systems')
        for c in cases:
            # the family is collision-free by construction (no name defined twice, no parameter named like a rule of its own
            # module): the written-out grammar loads, so must the module system
            # ("Rules defined twice": colliding expansions of optionals, e.g. '[B?] P' - rejected in the written-out grammar too)
            if c.get('rejected_by_lark') and not c['rejected_by_lark'].startswith('Rules defined twice'):
                rep.violation({'property': PID, 'clause': 'module-system-rejected:' + ' '.join(c['rejected_by_lark'].split()[:3]),
                               'modules': c['texts'], 'error': c['rejected_by_lark'], 'spec': dict(c['spec'], inputs=[])})
        cases = [c for c in cases if not c['skip']]
        for c in cases:
            st = c['spec']['system']
            ev.count('with_transitive_import' if any(st['mods'][m]['imports'] for m in st['mods'] if m != 'main') else 'flat')
            ev.count('with_override_or_extend', 1 if st['mods']['main']['changes'] else 0)
            ev.count('with_templates', 1 if any(r['params'] for r in st['mods']['main']['rules']) else 0)
            ev.count('with_renaming_import', sum(1 for m in st['mods'].values() for i in m['imports'] if i['style'] == 'single-alias'))
            for i in c['inputs']:
                for o in i['obs']:
                    ev.count('parses')
                    ev.count('accepted' if o['out'] == 0 else 'rejected')
        ev.cov['traces_validated_against_impl'] = ev.cov['counts'].get('parses', 0)
        c = cases[len(cases) // 2]
        ev.sample({'modules': c['texts'], 'text': c['inputs'][0]['text'], 'observed': c['inputs'][0]['obs'][:1]})
        judge(cases, ev, rep, tmp, 'sweep')
        if ev.cov['counts'].get('accepted', 0) < 3000:
            raise C.MachineryFailure('vacuity: %s' % ev.cov['counts'])
        ev.assumptions += ['module rule names do not start with an underscore (TLC strings are atomic: the _prefix rule of the mangling is not modelled)',
                           'every module is imported by one statement; templates in the main module']
        return rep.finish()
    finally:
        shutil.rmtree(tmp, ignore_errors=True)


if __name__ == '__main__':
    C.run_check(PID, body)
