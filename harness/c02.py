"""C02 - LALR(1): conflicts reported, accepted language sound and (conflict-free) exact.

design : MC_LALR.tla  DeRemer-Pennello (L1) = LR(1) propagation (L0) on reduced grammars; driver sound/complete
binding: TraceC02.tla judges the real GrammarError/no-GrammarError, the real debug parse table (states named by
         item sets), parse() outcomes under both lexers and InteractiveParser stacks/choices()/accepts().
"""
import json
import logging
import os
import random
import shutil

from . import common as C
from . import families as F
from . import observe as O

PID = 'C02'

MC_CFG = '''SPECIFICATION Spec
CONSTANTS
  MaxRules = %(R)d
  MaxLen = %(L)d
  MaxRhs = 2
INVARIANT DPEqualsProp
INVARIANT Sound
INVARIANT CompleteIfNoSR
INVARIANT AcceptsInRow
CHECK_DEADLOCK FALSE
'''
TRACE_CFG = 'SPECIFICATION Spec\nINVARIANT VerdictOk\nCHECK_DEADLOCK FALSE\n'


def observe_case(spec):
    from lark import Lark
    from lark.exceptions import GrammarError, UnexpectedInput, UnexpectedToken
    from lark.parsers.lalr_analysis import Shift
    logging.disable(logging.CRITICAL)
    gtext = spec['gtext']
    try:
        e = Lark(gtext, parser='earley', lexer='basic')
    except Exception as ex:
        return {'skip': 'earley construction failed: %r' % ex, 'gtext': gtext}
    rid = {r: i + 1 for i, r in enumerate(e.rules)}
    rules = [{'lhs': str(r.origin.name), 'rhs': [str(s.name) for s in r.expansion],
              'prio': (r.options.priority or 0)} for r in e.rules]
    case = {'gtext': gtext, 'rules': rules, 'start': 'start', 'gerr': False, 'states': [], 'rows': [],
            'startstate': 1, 'inputs': [], 'family': spec['family'], 'other': ''}
    try:
        with O.budget(30):
            p = Lark(gtext, parser='lalr', lexer='basic', debug=True)
    except GrammarError as ex:
        case['gerr'] = True
        case['msg'] = str(ex)[:200]
        return case
    except Exception as ex:
        case['other'] = 'construction raised %s' % type(ex).__name__
        return case
    table = p.parser.parser._parse_table
    states = list(table.states)
    sidx = {s: i + 1 for i, s in enumerate(states)}

    def items(s):
        out = []
        for rp in s:
            r = 0 if rp.rule.origin.name.startswith('$root_') else rid[rp.rule]
            out.append([r, rp.index])
        return sorted(out)
    case['states'] = [items(s) for s in states]
    rows = []
    for s in states:
        row = []
        for sym, (act, arg) in table.states[s].items():
            if act is Shift:
                row.append([str(sym), 0, sidx[arg]])
            else:
                row.append([str(sym), 1, rid[arg]])
        rows.append(sorted(row))
    case['rows'] = rows
    case['startstate'] = sidx[table.start_states['start']]
    try:
        pc = Lark(gtext, parser='lalr', lexer='contextual')
        pb = Lark(gtext, parser='lalr', lexer='basic')     # debug=True dumps the whole state stack on errors
    except Exception as ex:
        case['other'] = 'contextual construction raised %s' % type(ex).__name__
        return case
    from lark import Token
    for w in spec['inputs']:
        text = F.to_text(w)
        o1 = O.parse_outcome(pb, text, tree=False, seconds=0.5)
        o2 = O.parse_outcome(pc, text, tree=False, seconds=0.5)
        # half a second of CPU is short for a first call (lazy scanner construction, collision checks, a GC pause): a "hang" is
        # only believed after a second attempt with a generous budget
        if o1['out'] == 'hang':
            o1 = O.parse_outcome(pb, text, tree=False, seconds=10)
            case['retried_hangs'] = case.get('retried_hangs', 0) + 1
        if o2['out'] == 'hang':
            o2 = O.parse_outcome(pc, text, tree=False, seconds=10)
            case['retried_hangs'] = case.get('retried_hangs', 0) + 1

        def code(o):
            if o['out'] == 'hang':
                return 3
            return 0 if o['out'] == 'accept' else (1 if o['out'] == 'reject' and o['ui'] else 2)
        # interactive walk, token types fed directly
        ip = p.parse_interactive('')
        evs = []
        errk = 0
        toks = list(w) + ['$END']
        for k, t in enumerate(toks):
            st = ip.parser_state
            try:
                with O.budget(4):
                    evs.append([[sidx[s] for s in st.state_stack], sorted(str(x) for x in ip.choices().keys()),
                                sorted(str(x) for x in ip.accepts())])
            except (O.Hang, MemoryError):
                # accepts() feeds tokens on a copy: it loops where the automaton loops (see LALR.tla, Fuel)
                errk = k + 1
                break
            try:
                with O.budget(4):
                    if t == '$END':
                        ip.feed_eof()
                    else:
                        ip.feed_token(Token(t, F.CHAR[t]))
            except (O.Hang, MemoryError):
                errk = k + 1
                break
            except UnexpectedToken:
                errk = k + 1
                break
            except Exception as ex:
                errk = -1
                case['other'] = 'interactive feed raised %s' % type(ex).__name__
                break
        del ip
        case['inputs'].append({'w': list(w), 'out': code(o1), 'out2': code(o2), 'errk': errk, 'evs': evs})
    return case


def record_digraph(gtext):
    """LALR construction of one grammar with lalr_analysis.digraph wrapped: arguments (snapshotted before the
    call - the function mutates the sets of G in place) and result, nodes and values numbered."""
    import logging
    logging.disable(logging.CRITICAL)
    from lark import Lark
    from lark.parsers import lalr_analysis as LA
    orig = LA.digraph
    calls = []

    def wrapped(X, R, G):
        X = list(X)
        idx = {x: i + 1 for i, x in enumerate(X)}
        vals = {}

        def vid(v):
            return vals.setdefault(v, len(vals) + 1)
        Rj = [[idx[y] for y in R[x] if y in idx] for x in X]
        Gj = [sorted(vid(v) for v in G[x]) for x in X]
        F = orig(X, R, G)
        Fj = [sorted(vid(v) for v in F[x]) for x in X]
        calls.append({'n': len(X), 'R': Rj, 'G': Gj, 'F': Fj})
        return F
    LA.digraph = wrapped
    try:
        try:
            Lark(gtext, parser='lalr')
        except Exception:
            pass
    finally:
        LA.digraph = orig
    for c in calls:
        c['gtext'] = gtext
    return calls


def digraph_conformance(ev, rep, tier, rng, tmp, extra_grammars):
    res = C.tlc('MC_Digraph', 'SPECIFICATION Spec\nCONSTANT NN = 3\nINVARIANT L1EqualsL0\nCHECK_DEADLOCK FALSE\n', timeout=1200)
    C.tlc_must_run(res, 'MC_Digraph')
    ev.add_tlc('MC_Digraph NN=3 (all graphs, all iteration orders)', res, 'design')
    if not res.ok:
        raise C.MachineryFailure('MC_Digraph: L1 # L0 - the specification itself is wrong')
    gtexts = list(extra_grammars)
    for _ in range(C.scale(1500 if tier == 'quick' else 12000)):
        G = F.rename_nts(F.tailrec_grammar(rng), rng)
        gtexts.append(F.grammar_text(G, term_defs=F.grammar_terms(G)))
    import glob
    for path in sorted(glob.glob(os.path.join(C.REPO, 'lark', 'grammars', '*.lark'))):
        if os.path.basename(path) in ('lark.lark', 'python.lark'):
            try:
                gtexts.append(open(path).read() if 'lark.lark' in path else None)
            except Exception:
                pass
    gtexts = [g for g in gtexts if g]
    calls = [c for cs in C.pmap(record_digraph, gtexts) for c in cs if c['n'] > 0]
    if len(calls) < 100:
        raise C.MachineryFailure('digraph conformance: only %d calls recorded (cannot attach?)' % len(calls))
    CH = 4000
    paths = [C.write_batch({'cases': [{k: c[k] for k in ('n', 'R', 'G', 'F')} for c in calls[o:o + CH]]}, tmp, 'dg_%d.json' % o)
             for o in range(0, len(calls), CH)]
    results = C.tlc_parallel('TraceDigraph', 'SPECIFICATION Spec\nINVARIANT VerdictOk\nCHECK_DEADLOCK FALSE\n', paths, continue_=True, timeout=3000)
    drift = []
    for pi, r in enumerate(results):
        C.tlc_must_run(r, 'TraceDigraph')
        ev.add_tlc('TraceDigraph', r, 'trace')
        for v in sorted(set(tuple(x) for x in r.verdicts)):
            drift.append(calls[pi * CH + int(v[0]) - 1])
        os.remove(paths[pi])
    ev.cov['counts']['digraph_calls'] = len(calls)
    ev.cov['counts']['digraph_sccs_nontrivial'] = sum(1 for c in calls if any(x + 1 in r for x, r in enumerate(c['R'])) or
                                                       any(len(r) > 1 for r in c['R']))
    ev.cov['drift'] = len(drift)
    ev.cov['traces_validated_against_impl'] += len(calls)
    if drift:
        print('DRIFT property=C02 lalr_analysis.digraph returned a result that is not the least solution for %d call(s); '
              'judging the tables of those grammars' % len(drift))
    # and every call lark's own test suite makes (grammars outside my families)
    from . import suite
    suite.digraph_calls(ev, tmp)
    return sorted({c['gtext'] for c in drift})


def specs(tier, rng):
    out = []
    fam2 = list(F.bnf_family(2))
    fam3 = [G for G in F.bnf_family(3) if len(G) == 3]
    pick3 = F.sample(fam3, 2500 if tier == 'quick' else len(fam3), rng)
    for fam, Gs in (('F_bnf(2,3) exhaustive', fam2), ('F_bnf(3,3)' + (' sample' if tier == 'quick' else ' exhaustive'), pick3)):
        for G in Gs:
            ins = F.enriched_inputs(G, 3, extra_len=1, rng=rng)
            out.append({'family': fam, 'gtext': F.grammar_text(G), 'inputs': ins})
    for G in F.rand_family(C.scale(1200 if tier == 'quick' else 8000), rng):
        G2 = F.rename_nts(G, rng)
        out.append({'family': 'F_rand', 'gtext': F.grammar_text(G2, term_defs=F.TERM3),
                    'inputs': F.enriched_inputs(G, 2, extra_len=3, rng=rng, alphabet=('X', 'Y', 'Z'))})
    out.append({'family': 'corpus-hang', 'gtext': 'start.0: a a\na.1:  | start Y\nX: "x"\nY: "y"\n', 'inputs': list(F.all_inputs(2))})
    # priorities on rule names: reduce/reduce conflicts between different rules resolved (or not) by priority
    n = 600 if tier == 'quick' else 4000
    for G in F.sample(fam3 + fam2, n, rng):
        if not any(l == 'a' for l, _ in G):
            continue
        ps, pa = rng.choice([(0, 1), (1, 0), (2, 2), (-1, 0), (0, -1), (1, 2)])
        g = F.grammar_text(G)
        g = g.replace('start:', 'start.%d:' % ps if ps >= 0 else 'start.-1:').replace('\na:', '\na.%d:' % pa if pa >= 0 else '\na.-1:')
        out.append({'family': 'F_prio', 'gtext': g, 'inputs': F.enriched_inputs(G, 3, extra_len=1, rng=rng)})
    return out


def known_matcher(fnd, case):
    if fnd.get('match', {}).get('kind') == 'lalr-loop-on-priority-resolved-conflict':
        return case.get('clause', '').endswith('@automaton-loops')
    return False


def batch_of(cases):
    keys = ('rules', 'start', 'gerr', 'states', 'rows', 'startstate', 'inputs')
    return {'cases': [{k: c[k] for k in keys} for c in cases]}


def judge(cases, ev, rep, tmp, name):
    CH = 700
    jobs = []
    for off in range(0, len(cases), CH):
        chunk = cases[off:off + CH]
        jobs.append((chunk, C.write_batch(batch_of(chunk), tmp, 'c02_%s_%d.json' % (name, off))))
    results = C.tlc_parallel('TraceC02', TRACE_CFG, [j[1] for j in jobs], continue_=True, timeout=3000)
    for (chunk, path), res in zip(jobs, results):
        C.tlc_must_run(res, 'TraceC02')
        ev.add_tlc('TraceC02:%s' % name, res, 'trace')
        os.remove(path)
        if res.violated and not res.verdicts:
            raise C.MachineryFailure('TraceC02 violation without VERDICT line')
        for v in sorted(set(tuple(x) for x in res.verdicts)):
            tid, k, clause = int(v[0]), int(v[1]), v[2]
            c = chunk[tid - 1]
            case = {'property': PID, 'family': c['family'], 'grammar': c['gtext'], 'clause': clause, 'step': k,
                    'inputs': [c['inputs'][k - 1]['w']] if k >= 1 else [],
                    'observed': c['inputs'][k - 1] if k >= 1 else {'gerr': c['gerr'], 'msg': c.get('msg', '')}}
            rep.violation(case)


def body(tier, seed, replay):
    ev = C.Evidence(PID, tier, seed)
    rep = C.Reporter(PID, ev, known_matcher)
    rng = random.Random(seed)
    tmp = C.scratch_dir('c02_')
    try:
        if replay:
            case = json.load(open(replay))
            got = observe_case({'family': case['family'], 'gtext': case['grammar'],
                                'inputs': [tuple(w) for w in case['inputs']] or list(F.all_inputs(3))})
            judge([got], ev, rep, tmp, 'replay')
            return rep.finish()
        runs = [('MC_LALR R=2', dict(R=2, L=3))]
        runs.append(('MC_LALR R=3', dict(R=3, L=3 if tier == 'quick' else 4)))
        for name, par in runs:
            res = C.tlc('MC_LALR', MC_CFG % par, timeout=3000, coverage=(par['R'] == 2))
            C.tlc_must_run(res, name)
            ev.add_tlc(name, res, 'design')
            if not res.ok:
                raise C.MachineryFailure('%s: design-level invariant %s violated - the specification itself is wrong' % (name, res.violated))
        cases = [c for c in C.pmap(observe_case, specs(tier, rng))]
        skipped = [c for c in cases if 'skip' in c]
        cases = [c for c in cases if 'skip' not in c]
        for c in cases:
            if c['other']:
                rep.violation({'property': PID, 'family': c['family'], 'grammar': c['gtext'], 'clause': c['other'], 'inputs': []})
            ev.count('grammars')
            ev.count('grammar_errors' if c['gerr'] else 'tables')
            for inp in c['inputs']:
                ev.count('parses')
                ev.count('accepted' if inp['out'] == 0 else 'rejected')
                ev.count('interactive_events', len(inp['evs']))
        ev.cov['traces_validated_against_impl'] = ev.cov['counts'].get('parses', 0) + len(cases)
        ev.cov['counts']['skipped'] = len(skipped)
        for c in (cases[0], cases[len(cases) // 2], cases[-1]):
            ev.sample({'grammar': c['gtext'], 'gerr': c['gerr'], 'states': len(c['states']),
                       'input': c['inputs'][-1] if c['inputs'] else None})
        judge([c for c in cases if not c['other']], ev, rep, tmp, 'sweep')
        # relation level (L1): digraph() against its least-fixpoint definition; grammars that drift get the full judgement
        tail = []
        for _ in range(C.scale(150 if tier == 'quick' else 1500)):
            G = F.tailrec_grammar(rng)
            G2 = F.rename_nts(G, rng)
            tail.append({'family': 'F_tailrec', 'gtext': F.grammar_text(G2, term_defs=F.grammar_terms(G2)),
                         'inputs': [w for w in F.sentences(G, 7, limit=6)] + [()]})
        tcases = [c for c in C.pmap(observe_case, tail) if 'skip' not in c and not c['other']]
        judge(tcases, ev, rep, tmp, 'tailrec')
        drifting = digraph_conformance(ev, rep, tier, rng, tmp, [])
        if drifting:
            dspecs = [{'family': 'digraph-drift', 'gtext': g, 'inputs': [()]} for g in drifting[:60]]
            dcases = [c for c in C.pmap(observe_case, dspecs) if 'skip' not in c and not c['other']]
            judge(dcases, ev, rep, tmp, 'drift')
        selftest(ev, cases, tmp)
        if ev.cov['counts'].get('grammar_errors', 0) < 50 or ev.cov['counts'].get('accepted', 0) < 500:
            raise C.MachineryFailure('vacuity: %s' % ev.cov['counts'])
        ev.assumptions += ['table equality and GrammarError exactness judged against the L0 LR(1)-propagation table on reduced grammars, '
                           'against the L1 DeRemer-Pennello transcription on grammars with unproductive non-terminals (reading of C02)',
                           'bounded families F_bnf(2..3 rules, inputs<=4), priorities on rule names only']
        return rep.finish()
    finally:
        shutil.rmtree(tmp, ignore_errors=True)


def selftest(ev, cases, tmp):
    import copy
    pick = [c for c in cases if not c['gerr'] and not c['other'] and c['inputs']][:12]
    mut = copy.deepcopy(pick)
    expect = set()
    # (a) drop one action from a table row  (b) flip one outcome  (c) remove one terminal from an accepts() set
    ri = next(i for i, r in enumerate(mut[0]['rows']) if r)
    mut[0]['rows'][ri] = mut[0]['rows'][ri][1:]
    expect.add((1, 0))
    mut[1]['inputs'][0]['out'] = 1 - min(mut[1]['inputs'][0]['out'], 1)
    expect.add((2, 1))
    tgt = next((i for i in range(2, len(mut)) if mut[i]['inputs'][0]['evs'][0][2]), None)
    if tgt is not None:
        mut[tgt]['inputs'][0]['evs'][0][2].pop()
        expect.add((tgt + 1, 1))
    path = C.write_batch(batch_of(mut), tmp, 'c02_self.json')
    res = C.tlc('TraceC02', TRACE_CFG, env={'VERIF_BATCH': path}, continue_=True, workers=4, timeout=600)
    C.tlc_must_run(res, 'selftest')
    got = {(int(v[0]), int(v[1])) for v in res.verdicts}
    ev.cov['binding_selftest'] = {'corrupted': len(expect), 'rejected': len(got & expect)}
    if got != expect:
        raise C.MachineryFailure('binding self-test: corrupted %s, TLC rejected %s' % (sorted(expect), sorted(got)))


if __name__ == '__main__':
    C.run_check(PID, body)
