"""C18 - the Indenter emits CPython's INDENT/DEDENT structure.

design : Indenter.tla (process/_process/handle_NL as a machine) - MC_Indenter: all streams <= 6 tokens, the stated laws
binding: TraceIndenter.tla: (a) every stream of the exhaustive family and sequences of streams on one object (with
         DedentErrors and abandoned generators) fed to a real Indenter subclass; (b) generated programs through
         Lark(python.lark, postlex=PythonIndenter()).lex; (c) the same programs through CPython's tokenize.
"""
import io
import itertools
import json
import os
import random
import shutil
import tokenize

from . import common as C
from . import families as F
from . import observe as O

PID = 'C18'
TRACE_CFG = 'SPECIFICATION Spec\nINVARIANT VerdictOk\nCHECK_DEADLOCK FALSE\n'
KINDS = [('NL', 0), ('NL', 1), ('NL', 2), ('NL', 3), ('OPEN', 0), ('CLOSE', 0), ('OTHER', 0), ('NLC', 0), ('NLC', 1)]
# NLC: a newline token that ends in a comment (ind 0) or holds no line break at all (ind 1)
NLC_TEXTS = [['\n# a b  c', '\n  # a\tb', '\n\n    #  x y z w', '\n \n# t\t\t', '# c\n\t# d e f  g'], ['# a b', '#  x\ty  z', '#']]


def make_indenter(tab_len):
    from lark.indenter import Indenter

    class Ind(Indenter):
        tab_len = 8
        NL_type = 'NL'
        OPEN_PAREN_types = ['OPEN']
        CLOSE_PAREN_types = ['CLOSE']
        INDENT_type = 'INDENT'
        DEDENT_type = 'DEDENT'
    Ind.tab_len = tab_len
    return Ind()


def nl_text(ind, tab_len, rng):
    """an indentation of `ind` columns spelled with spaces and tabs (tabs count tab_len)"""
    tabs = 0
    if tab_len <= ind and rng.random() < 0.5:
        tabs = rng.randint(0, ind // tab_len)
    chars = [' '] * (ind - tabs * tab_len) + ['\t'] * tabs
    rng.shuffle(chars)
    lead = rng.choice(['\n', '\n', '\n  \n', '\n\t\n'])     # earlier (blank) lines of the same token do not count
    return lead + ''.join(chars)


def run_history(spec):
    """spec: {'tab_len', 'streams': [{'toks': [[k, ind]..], 'consume': n or -1}], 'seed'} on ONE Indenter object"""
    from lark import Token
    from lark.indenter import DedentError
    rng = random.Random(spec['seed'])
    ind = make_indenter(spec['tab_len'])
    out = []
    for s in spec['streams']:
        toks = []
        for k, n in s['toks']:
            if k == 'NLC':
                toks.append(Token('NL', rng.choice(NLC_TEXTS[n])))
                continue
            toks.append(Token('NL', nl_text(n, spec['tab_len'], rng)) if k == 'NL' else Token(k, {'OPEN': '(', 'CLOSE': ')', 'OTHER': 'x'}[k]))
        got, err = [], ''
        gen = ind.process(iter(toks))
        try:
            for i, t in enumerate(gen):
                if s['consume'] >= 0 and i >= s['consume']:
                    break
                got.append(str(t.type))
        except DedentError:
            err = 'DedentError'
        except AssertionError:
            err = 'AssertionError'
        except Exception as e:
            err = type(e).__name__
        out.append({'toks': s['toks'], 'out': got, 'err': err, 'abandoned': s['consume'] >= 0, 'cpy': False, 'cpyerr': False, 'cpydepths': []})
    return {'streams': out, 'label': spec}


def cpython_depths(src):
    """nesting depth CPython's tokenizer gives each content token; (depths, indentation_error)"""
    depths, d = [], 0
    try:
        for t in tokenize.generate_tokens(io.StringIO(src).readline):
            if t.type == tokenize.INDENT:
                d += 1
            elif t.type == tokenize.DEDENT:
                d -= 1
            elif t.type in (tokenize.NAME, tokenize.OP):
                depths.append(d)
    except IndentationError:
        return depths, True
    except tokenize.TokenError:
        return None, False
    return depths, False


def program_of(toks):
    parts = []
    for i, (k, n) in enumerate(toks):
        if k == 'NLC':      # only as the last token of a program: a comment that ends the file without a line break
            parts.append(['\n# a b  c', '# a b'][n] if i % 2 else ['\n   # a b\tc', '#  a'][n])
            continue
        parts.append('\n' + ' ' * n if k == 'NL' else {'OPEN': '( ', 'CLOSE': ') ', 'OTHER': 'x '}[k])
    return ''.join(parts)


def python_case(toks):
    """the stream as a program through Lark(python.lark, postlex=PythonIndenter()).lex and through CPython's tokenize"""
    import logging
    logging.disable(logging.CRITICAL)
    from lark.indenter import DedentError
    global _PY
    try:
        _PY
    except NameError:
        from lark import Lark
        from lark.indenter import PythonIndenter
        _PY = Lark.open_from_package('lark', 'python.lark', ['grammars'], parser='lalr', postlex=PythonIndenter(), start='file_input')
    src = program_of(toks)
    depths, cerr = cpython_depths(src)
    got, err = [], ''
    try:
        for t in _PY.lex(src):
            ty = str(t.type)
            got.append({'_NEWLINE': 'NL', '_INDENT': 'INDENT', '_DEDENT': 'DEDENT', 'LPAR': 'OPEN', 'RPAR': 'CLOSE'}.get(ty, 'OTHER'))
    except DedentError:
        err = 'DedentError'
    except AssertionError:
        err = 'AssertionError'
    except Exception as e:
        err = type(e).__name__
    return {'streams': [{'toks': [list(t) for t in toks], 'out': got, 'err': err, 'abandoned': False, 'cpy': depths is not None,
                         'cpyerr': bool(cerr), 'cpydepths': depths or []}], 'label': {'program': src}}


def wellformed_for_cpython(toks):
    """space-only (by construction), balanced brackets, no NL directly after NL, ends with content or NL(0), starts with content"""
    depth = 0
    prev = None
    for k, n in toks:
        if k == 'OPEN':
            depth += 1
        elif k == 'CLOSE':
            depth -= 1
            if depth < 0:
                return False
        if k == 'NL' and prev == 'NL':
            return False
        prev = k
    if depth != 0 or not toks or toks[0][0] in ('NL', 'NLC'):
        return False
    if any(k == 'NLC' for k, n in toks[:-1]) or (toks[-1][0] == 'NLC' and len(toks) > 1 and toks[-2][0] == 'NL'):
        return False
    return toks[-1][0] != 'NL' or toks[-1][1] == 0


def specs(tier, rng):
    hist = []
    L = 5 if tier == 'quick' else 6
    allstreams = [list(s) for n in range(0, L + 1) for s in itertools.product(KINDS, repeat=n)]
    pick = allstreams if tier == 'thorough' else F.sample(allstreams, C.scale(9000), rng)
    for s in pick:
        hist.append({'tab_len': rng.choice([1, 2, 3, 8]), 'seed': rng.randrange(1 << 30), 'streams': [{'toks': [list(t) for t in s], 'consume': -1}]})
    # histories: 2-3 streams on one object, with errors and abandoned generators in between
    short = [s for s in allstreams if 1 <= len(s) <= 4]
    for _ in range(C.scale(6000 if tier == 'quick' else 60000)):
        n = rng.choice([2, 2, 3])
        streams = []
        for i in range(n):
            s = rng.choice(short)
            consume = -1 if (i == n - 1 or rng.random() < 0.4) else rng.randint(0, len(s))
            streams.append({'toks': [list(t) for t in s], 'consume': consume})
        hist.append({'tab_len': rng.choice([1, 2, 4]), 'seed': rng.randrange(1 << 30), 'streams': streams})
    progs = [s for s in allstreams if wellformed_for_cpython(s)]
    longer = []
    for _ in range(C.scale(3000 if tier == 'quick' else 30000)):
        s = [('OTHER', 0)]
        for _ in range(rng.randint(3, 12)):
            s.append(rng.choice(KINDS[:7] + [('OTHER', 0), ('NL', 0), ('NL', 1), ('NL', 2)]))
            if s[-1][0] == 'NL' and s[-2][0] == 'NL':
                s[-1] = ('OTHER', 0)
        if rng.random() < 0.3 and s[-1][0] != 'NL':
            s.append(('NLC', rng.randint(0, 1)))
        if wellformed_for_cpython(s):
            longer.append(s)
    return hist, F.sample(progs, C.scale(2500), rng) + longer


def judge(cases, ev, rep, tmp, name):
    CH = 6000
    jobs = []
    for off in range(0, len(cases), CH):
        chunk = cases[off:off + CH]
        jobs.append((chunk, C.write_batch({'cases': [{'streams': c['streams']} for c in chunk]}, tmp, 'c18_%s_%d.json' % (name, off))))
    results = C.tlc_parallel('TraceIndenter', TRACE_CFG, [j[1] for j in jobs], continue_=True, timeout=3000)
    for (chunk, path), res in zip(jobs, results):
        C.tlc_must_run(res, 'TraceIndenter')
        ev.add_tlc('TraceIndenter:%s' % name, res, 'trace')
        os.remove(path)
        if res.violated and not res.verdicts:
            raise C.MachineryFailure('TraceIndenter violation without VERDICT line')
        for v in sorted(set(tuple(x) for x in res.verdicts)):
            c = chunk[int(v[0]) - 1]
            rep.violation({'property': PID, 'clause': v[2], 'stream_index': int(v[1]), 'history': c['label'], 'observed': c['streams']})


def body(tier, seed, replay):
    ev = C.Evidence(PID, tier, seed)
    rep = C.Reporter(PID, ev)
    rng = random.Random(seed)
    tmp = C.scratch_dir('c18_')
    try:
        if replay:
            case = json.load(open(replay))
            h = case['history']
            got = python_case([tuple(t) for t in case['observed'][0]['toks']]) if 'program' in h else run_history(h)
            judge([got], ev, rep, tmp, 'replay')
            return rep.finish()
        res = C.tlc('MC_Indenter', 'SPECIFICATION Spec\nCONSTANTS\n MaxLen = %d\n MaxInd = 3\nINVARIANT StackLaw\nINVARIANT Balanced\nINVARIANT OnlyAfterNL\n'
                    'INVARIANT PassThrough\nINVARIANT CommentNeutral\nINVARIANT ErrorLaw\nINVARIANT NoSpuriousOk\nCHECK_DEADLOCK FALSE\n' % (6 if tier == 'quick' else 7), timeout=3000)
        C.tlc_must_run(res, 'MC_Indenter')
        ev.add_tlc('MC_Indenter', res, 'design')
        if not res.ok:
            raise C.MachineryFailure('MC_Indenter: %s violated' % res.violated)
        hist, progs = specs(tier, rng)
        hcases = C.pmap(run_history, hist)
        pcases = C.pmap(python_case, progs)
        for c in hcases:
            ev.count('histories')
            ev.count('streams', len(c['streams']))
            ev.count('streams_with_DedentError', sum(1 for s in c['streams'] if s['err'] == 'DedentError'))
            ev.count('abandoned_generators', sum(1 for s in c['streams'] if s['abandoned']))
        for c in pcases:
            ev.count('python_programs')
            ev.count('python_programs_cpython_error', sum(1 for s in c['streams'] if s['cpyerr']))
        ev.cov['traces_validated_against_impl'] = len(hcases) + len(pcases)
        ev.sample({'history': hcases[len(hcases) - 3]['label'], 'observed': hcases[len(hcases) - 3]['streams']})
        ev.sample({'program': pcases[-1]['label'], 'observed': pcases[-1]['streams']})
        judge(hcases, ev, rep, tmp, 'histories')
        judge(pcases, ev, rep, tmp, 'python')
        if ev.cov['counts'].get('streams_with_DedentError', 0) < 100 or ev.cov['counts'].get('python_programs_cpython_error', 0) < 20:
            raise C.MachineryFailure('vacuity: %s' % ev.cov['counts'])
        ev.assumptions += ['CPython cross-check: space-only indentation, balanced brackets, no blank lines; the DEDENTs lark yields right before '
                           'DedentError are not compared with CPython', 'a stray closing bracket is the code\'s assert (modelled as CloseUnderflow, not judged)']
        return rep.finish()
    finally:
        shutil.rmtree(tmp, ignore_errors=True)


if __name__ == '__main__':
    C.run_check(PID, body)
