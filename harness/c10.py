"""C10 - a Lark instance is a pure function of its input: reusable and thread-safe.

design : LarkAPI.tla (cells shared by calls on one instance; lazy scanner construction and publication of the
         callback dict at source-line grain): TLC proves ResultIsDenote for the publish-late design and produces the
         interleaving that breaks the publish-early one
binding: spec -> code.  (a) call histories (succeeding, failing, abandoned lex/scan/interactive sessions, other
         instances) on one real instance, every call compared with a fresh instance; (b) two threads on one instance
         under a deterministic line-level scheduler (threading/sys.settrace), every schedule with <= 2 context switches
         on a grid of switch points over the code that touches objects shared between calls.  TraceAPI.tla judges.
"""
import hashlib
import itertools
import json
import os
import random
import shutil

from . import common as C
from . import observe as O

PID = 'C10'
TRACE_CFG = 'SPECIFICATION Spec\nINVARIANT VerdictOk\nCHECK_DEADLOCK FALSE\n'
MC_CFG = 'SPECIFICATION Spec\nCONSTANTS\n Threads = {1, 2%s}\n NTokens = %d\n PublishLate = %s\nINVARIANT ResultIsDenote\nPROPERTY AllFinish\nCHECK_DEADLOCK FALSE\n'

EXPR = '''start: stmt+
stmt: NAME "=" expr ";" | "if" expr block
block: "{" stmt* "}"
?expr: term | expr "+" term
?term: NAME | NUMBER | "(" expr ")"
NAME: /[a-z]+/
NUMBER: /[0-9]+/
%ignore /[ \\n]+/
'''
INDENT = '''start: _NL* tree+
tree: NAME _NL [_INDENT tree+ _DEDENT]
NAME: /[a-z]+/
_NL: /(\\r?\\n[\\t ]*)+/
%declare _INDENT _DEDENT
%ignore / +/
'''
AMBIG = '''start: e
?e: add | mul | n1 | n2 | "(" e ")"
add.1: e "+" e
mul.2: e "*" e
n1.2: NAME
n2.1: NAME
NAME: /[a-z]+/
%ignore " "
'''
GOOD = {'expr': ['a = b + c; if x { y = 1; }', 'q=(a+b)+c;', 'x = 1;'], 'indent': ['a\n  b\n  c\n    d\ne\n', 'a\n', 'a\n b\n'],
        'ambig': ['a+b*c', 'a+b+c+d', '(a)']}
BADLEX = {'expr': ['a = $;', 'if # {'], 'indent': ['a\n  B\n', 'a\n  b\n%\n'], 'ambig': ['a+%', '?']}
BADPARSE = {'expr': ['a = = b;', 'if x { y = 1;', '1 = a;'], 'indent': ['a\n    b\n  c\n', 'a\n  b\n c\n'], 'ambig': ['a+', '+a']}


def configs():
    return [
        ('lalr/contextual', 'expr', dict(parser='lalr', lexer='contextual', propagate_positions=True)),
        ('lalr/basic', 'expr', dict(parser='lalr', lexer='basic')),
        ('lalr/contextual+callbacks', 'expr', dict(parser='lalr', lexer='contextual', _cb=True)),
        ('lalr/basic+callbacks', 'expr', dict(parser='lalr', lexer='basic', _cb=True)),
        ('lalr/contextual+indenter', 'indent', dict(parser='lalr', lexer='contextual', _indent=True)),
        ('lalr/basic+indenter', 'indent', dict(parser='lalr', lexer='basic', _indent=True)),
        ('earley/dynamic', 'ambig', dict(parser='earley', lexer='dynamic')),
        ('earley/basic', 'ambig', dict(parser='earley', lexer='basic')),
        ('earley/dynamic+explicit', 'ambig', dict(parser='earley', lexer='dynamic', ambiguity='explicit')),
    ]


def upper_name(t):
    return t.update(value=t.value.upper())


def make(cfgname):
    from lark import Lark
    name, gkey, opts = next(c for c in configs() if c[0] == cfgname)
    opts = dict(opts)
    g = {'expr': EXPR, 'indent': INDENT, 'ambig': AMBIG}[gkey]
    if opts.pop('_cb', False):
        opts['lexer_callbacks'] = {'NAME': upper_name, 'IF': upper_name}     # pure callbacks (one of them on a keyword terminal)
    if opts.pop('_indent', False):
        from lark.indenter import Indenter

        class TreeIndenter(Indenter):
            NL_type = '_NL'
            OPEN_PAREN_types = []
            CLOSE_PAREN_types = []
            INDENT_type = '_INDENT'
            DEDENT_type = '_DEDENT'
            tab_len = 8
        opts['postlex'] = TreeIndenter()
    return Lark(g, **opts), gkey


def dig(x):
    return hashlib.sha1(json.dumps(x, sort_keys=True, default=str).encode()).hexdigest()[:14]


def do_call(p, call, held=None):
    """one API call -> JSON-able result.  held: abandoned iterators that the caller KEEPS referenced (a session left open)"""
    from lark.exceptions import UnexpectedInput, LarkError
    kind, text, k = call
    try:
        if kind == 'lexhold':
            it = p.lex(text)
            out = []
            for i in range(k):
                t = next(it, None)
                if t is None:
                    break
                out.append(O.tok_json(t))
            if held is not None:
                held.append(it)
            return {'toks': out}
        if kind == 'interactivehold':
            ip = p.parse_interactive(text)
            it = ip.iter_parse()
            out = []
            for i in range(k):
                t = next(it, None)
                if t is None:
                    break
                out.append(O.tok_json(t))
            if held is not None:
                held.append((ip, it))
            return {'toks': out}
        if kind == 'parse':
            return O.parse_outcome(p, text, positions=True, meta=True, seconds=None)
        if kind == 'lex':
            out = []
            for i, t in enumerate(p.lex(text)):
                if k >= 0 and i >= k:
                    break
                out.append(O.tok_json(t))
            return {'toks': out}
        if kind == 'scan':
            out = []
            for i, (span, tree) in enumerate(p.scan(text)):
                if k >= 0 and i >= k:
                    break
                out.append([list(span), O.tree_json(tree, True)])
            return {'matches': out}
        if kind == 'interactive':
            ip = p.parse_interactive(text)
            out = []
            for i, t in enumerate(ip.iter_parse()):
                if k >= 0 and i >= k:
                    break
                out.append(O.tok_json(t))
            res = None
            if k < 0:
                res = O.tree_json(ip.feed_eof(), True)
            return {'toks': out, 'res': res}
        if kind == 'other':
            from lark import Lark
            Lark('start: "x"+\n', parser='lalr').parse('xx')
            Lark(EXPR, parser='lalr').parse('z = 1;')
            # instances built from the SAME Grammar object with other priority modes (hunted defect 41: compile handed every
            # instance the grammar's own RuleOptions objects, and priority='invert' / None rewrite them in place)
            if p.options.parser == 'earley' and getattr(p, 'grammar', None) is not None:
                Lark(p.grammar, parser='earley', lexer=p.options.lexer, priority='invert').parse('a+b*c')
            return {'other': True}
    except UnexpectedInput as e:
        return O.error_json(e)
    except LarkError as e:
        return {'out': 'larkerror', 'cls': type(e).__name__}
    except Exception as e:
        return {'out': 'exception', 'cls': type(e).__name__, 'msg': str(e)[:80]}


def call_alphabet(gkey, cfgname):
    calls = [('parse', GOOD[gkey][0], -1), ('parse', BADLEX[gkey][0], -1), ('parse', BADPARSE[gkey][0], -1), ('parse', BADPARSE[gkey][1], -1),
             ('lex', GOOD[gkey][0], 2), ('lex', BADLEX[gkey][-1], -1), ('other', '', -1)]
    calls += [('lexhold', GOOD[gkey][0], 3), ('lexhold', GOOD[gkey][0], 5)]
    if cfgname.startswith('lalr'):
        calls += [('interactive', GOOD[gkey][0], 3), ('interactive', BADPARSE[gkey][0], -1), ('interactivehold', GOOD[gkey][0], 4)]
        if 'indenter' not in cfgname:
            calls += [('scan', GOOD[gkey][0] + ' $$ ' + GOOD[gkey][1], 1)]
    return calls


def probes(gkey, cfgname):
    ps = [('parse', t, -1) for t in GOOD[gkey]] + [('parse', BADPARSE[gkey][0], -1), ('lex', GOOD[gkey][1], -1)]
    if cfgname.startswith('lalr'):
        ps.append(('interactive', GOOD[gkey][1], -1))
        if 'indenter' not in cfgname:
            ps.append(('scan', 'zz ' + GOOD[gkey][2] + ' ## ' + GOOD[gkey][1], -1))
    return ps


def run_history(job):
    import logging
    logging.disable(logging.CRITICAL)
    cfgname, hist = job
    p, gkey = make(cfgname)
    evs = []
    held = []          # sessions the history leaves open stay referenced until the history ends
    for call in list(hist) + probes(gkey, cfgname):
        got = do_call(p, tuple(call), held)
        fresh_p, _ = make(cfgname)
        want = do_call(fresh_p, tuple(call), [])
        evs.append({'thread': 0, 'call': list(call), 'res': dig(got), 'fresh': dig(want), 'detail': '' if got == want else json.dumps([got, want])[:500]})
    return {'evs': evs, 'cfg': cfgname, 'history': [list(c) for c in hist], 'schedule': []}


def run_schedule(job):
    """two threads on one instance under the scheduler"""
    import logging
    logging.disable(logging.CRITICAL)
    from . import sched
    cfgname, calls, schedule, warm = job
    p, gkey = make(cfgname)
    if warm:
        do_call(p, tuple(warm))         # the instance was already used (lazy objects built) before the concurrent calls
    shared, _keep = sched.shared_ids(p)
    results, sc, hung = sched.run_threads([lambda c=c: do_call(p, tuple(c)) for c in calls], schedule, shared)
    evs = []
    for i, c in enumerate(calls):
        fresh_p, _ = make(cfgname)
        want = do_call(fresh_p, tuple(c))
        got = results[i][1] if results[i] and results[i][0] == 'ok' else {'thread_exc': results[i][1] if results[i] else 'no result'}
        evs.append({'thread': i + 1, 'call': list(c), 'res': 'HUNG' if hung else dig(got), 'fresh': dig(want),
                    'detail': '' if got == want else json.dumps([got, want])[:500]})
    return {'evs': evs, 'cfg': cfgname, 'history': [list(warm)] if warm else [], 'schedule': schedule, 'points': sc.points, 'where': sc.trace_log[:60]}


def count_points(job):
    import logging
    logging.disable(logging.CRITICAL)
    from . import sched
    cfgname, call, warm = job
    p, _ = make(cfgname)
    if warm:
        do_call(p, tuple(warm))
    shared, _keep = sched.shared_ids(p)
    n, where = sched.count_points(lambda: do_call(p, tuple(call)), shared)
    return n, sched.write_points(where)


def schedules_for(nA, nB, tier, rng, wA=()):
    """all schedules with <= 2 context switches on a grid: A runs i points, B runs j points (or to the end), A finishes, B finishes"""
    gA = sorted(set(list(range(0, min(nA, 40))) + [int(nA * q / 24.0) for q in range(25)]))
    gB = sorted(set(list(range(0, min(nB, 12))) + [int(nB * q / 6.0) for q in range(7)] + [nB + 5]))
    if tier == 'quick':
        gA = sorted(set(list(range(0, min(nA, 14))) + [int(nA * q / 10.0) for q in range(11)]))
        gB = sorted(set([0, 1, 2, 3, nB // 2, nB + 5]))
    out = []
    for i in gA:
        for j in gB:
            out.append([[0, i], [1, j], [0, 10 ** 9], [1, 10 ** 9]])
    # three context switches around the start of the call (lazy construction of shared objects): A runs i points, B runs j,
    # A runs k more points, B finishes, A finishes  (LarkAPI.tla's counterexample for early publication has this shape)
    # The switch points are the writes to objects shared between calls (AST query, sched.write_lines): A is stopped right before
    # / after such a write, B runs some way, A runs to one of its next few shared writes, B finishes, A finishes.
    wA = list(wA)[:160 if tier == 'quick' else 600]
    for a in range(len(wA)):
        for b in range(a + 1, min(a + 4, len(wA))):
            for j in sorted(set([nB // 4, nB // 2, (3 * nB) // 4])):
                out.append([[0, wA[a]], [1, j], [0, wA[b] - wA[a]], [1, 10 ** 9], [0, 10 ** 9]])
    return out


def judge(cases, ev, rep, tmp, name):
    CH = 4000
    jobs = []
    for off in range(0, len(cases), CH):
        chunk = cases[off:off + CH]
        jobs.append((chunk, C.write_batch({'cases': [{'evs': [{k: e[k] for k in ('thread', 'res', 'fresh')} for e in c['evs']]} for c in chunk]}, tmp, 'c10_%s_%d.json' % (name, off))))
    results = C.tlc_parallel('TraceAPI', TRACE_CFG, [j[1] for j in jobs], continue_=True, timeout=3000)
    for (chunk, path), res in zip(jobs, results):
        C.tlc_must_run(res, 'TraceAPI')
        ev.add_tlc('TraceAPI:%s' % name, res, 'trace')
        os.remove(path)
        if res.violated and not res.verdicts:
            raise C.MachineryFailure('TraceAPI violation without VERDICT line')
        for v in sorted(set(tuple(x) for x in res.verdicts)):
            c = chunk[int(v[0]) - 1]
            e = c['evs'][int(v[1]) - 1]
            rep.violation({'property': PID, 'clause': v[2], 'config': c['cfg'], 'history': c['history'], 'schedule': c['schedule'],
                           'failing_call': e['call'], 'thread': e['thread'], 'got_vs_fresh': e['detail'], 'points': c.get('points'),
                           'first_scheduling_points': c.get('where')})


def body(tier, seed, replay):
    ev = C.Evidence(PID, tier, seed)
    rep = C.Reporter(PID, ev)
    rng = random.Random(seed)
    tmp = C.scratch_dir('c10_')
    try:
        if replay:
            case = json.load(open(replay))
            if case['schedule']:
                got = run_schedule((case['config'], case['calls'], case['schedule'], tuple(case['history'][0]) if case['history'] else None))
            else:
                got = run_history((case['config'], [tuple(c) for c in case['history']]))
            judge([got], ev, rep, tmp, 'replay')
            return rep.finish()
        # ---- design level
        res = C.tlc('LarkAPI', MC_CFG % ('', 2, 'TRUE') if tier == 'quick' else MC_CFG % (', 3', 3, 'TRUE'), timeout=3000)
        C.tlc_must_run(res, 'LarkAPI')
        ev.add_tlc('LarkAPI (callback dict published when complete)', res, 'design')
        if not res.ok:
            raise C.MachineryFailure('LarkAPI: %s violated' % res.violated)
        r2 = C.tlc('LarkAPI', MC_CFG % ('', 2, 'FALSE'), timeout=600, workers=2)
        C.tlc_must_run(r2, 'LarkAPI early')
        ev.cov['binding_selftest']['model_rejects_early_publication'] = bool(r2.violated)
        if not r2.violated:
            raise C.MachineryFailure('LarkAPI.tla accepts the publish-early design: the model is vacuous')
        # ---- (a) histories
        hjobs = []
        for cfgname, gkey, _ in configs():
            alpha = call_alphabet(gkey, cfgname)
            hs = [h for n in (1, 2) for h in itertools.product(alpha, repeat=n)]
            if tier == 'thorough':
                hs += [h for h in itertools.product(alpha, repeat=3)]
            else:
                hs += [tuple(rng.choice(alpha) for _ in range(3)) for _ in range(C.scale(40))]
            hjobs += [(cfgname, h) for h in hs]
        hcases = C.pmap(run_history, hjobs)
        ev.count('histories', len(hcases))
        ev.count('calls_compared_with_fresh_instance', sum(len(c['evs']) for c in hcases))
        # ---- (b) schedules
        sjobs = []
        for cfgname, gkey, _ in configs():
            if 'indenter' in cfgname:
                continue      # stateful post-lexer: excluded from the concurrency claim by the statement
            pairs = [(('parse', GOOD[gkey][0], -1), ('parse', GOOD[gkey][1], -1)), (('parse', GOOD[gkey][1], -1), ('parse', BADPARSE[gkey][0], -1)),
                     (('lex', GOOD[gkey][0], -1), ('parse', GOOD[gkey][2], -1))]
            if cfgname.startswith('lalr') :
                pairs.append((('scan', 'zz ' + GOOD[gkey][2] + ' ## ' + GOOD[gkey][1], -1), ('parse', GOOD[gkey][0], -1)))
            for a, b in pairs:
                for warm in (None, ('parse', GOOD[gkey][2], -1)):
                    nA, wA = count_points((cfgname, a, warm))
                    nB, wB = count_points((cfgname, b, warm))
                    ev.count('scheduling_points_measured', nA + nB)
                    ev.count('shared_write_points_measured', len(wA) + len(wB))
                    for sc in schedules_for(nA, nB, tier, rng, wA):
                        sjobs.append((cfgname, [list(a), list(b)], sc, warm))
        if tier == 'quick' and len(sjobs) > C.scale(20000):
            sjobs = rng.sample(sjobs, C.scale(20000))
        scases = C.pmap(run_schedule, sjobs)
        ev.count('schedules_executed', len(scases))
        ev.cov['traces_validated_against_impl'] = len(hcases) + len(scases)
        ev.sample({'history': hcases[17]['history'], 'config': hcases[17]['cfg'], 'calls': [e['call'] for e in hcases[17]['evs']][:4]})
        sc = scases[len(scases) // 2]
        ev.sample({'config': sc['cfg'], 'schedule': sc['schedule'], 'points_per_thread': sc['points'], 'first_points': sc['where'][:8]})
        for c in scases:
            c['calls'] = [e['call'] for e in c['evs']]
        judge(hcases, ev, rep, tmp, 'histories')
        judge(scases, ev, rep, tmp, 'schedules')
        for v in rep.new:
            if v.get('schedule'):
                v['calls'] = [c for c in next(s['calls'] for s in scases if s['schedule'] == v['schedule'] and s['cfg'] == v['config'])]
        ev.assumptions += ['scheduling at source-line grain in frames whose self is an object reachable from the instance before the calls; '
                           'CPython may also switch between bytecodes of one line', 'schedules: <= 2 context switches on a grid of switch points',
                           'configurations with a post-lexer take part in the histories only (statement)']
        return rep.finish()
    finally:
        shutil.rmtree(tmp, ignore_errors=True)


if __name__ == '__main__':
    C.run_check(PID, body)
