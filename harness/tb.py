"""Reduction-grain conformance of the tree builder (TreeBuilder.tla / TraceBuilder.tla).

Every rule callback of a real LALR parser is wrapped; each call is recorded as (rule index, children as given - snapshotted
before the call, metas included -, returned value)."""
import json

from . import common as C
from . import observe as O
from . import ebnf as E

TRACE_CFG = 'SPECIFICATION Spec\nINVARIANT VerdictOk\nCHECK_DEADLOCK FALSE\n'
CAP_PER_PARSE = 250
CUT = {}            # id(log) -> the per-parse counter of instrument(); -1 = the parse was cut off
NODES_PER_PARSE = 120000


def val5(v):
    """<<tag, label, children, span, cspan>>"""
    if v is None:
        return ['N', '', [], [-1, -1], [-1, -1]]
    if hasattr(v, 'type') and hasattr(v, 'start_pos'):
        s = v.start_pos if isinstance(v.start_pos, int) else -1
        e = v.end_pos if isinstance(v.end_pos, int) else -1
        return ['T', str(v.type), [], [s, e], [s, e]]
    if hasattr(v, 'data'):
        m = v.meta

        def pos(name):
            x = getattr(m, name, -1)
            return x if isinstance(x, int) else -1
        return ['R', str(v.data), [val5(c) for c in v.children], [pos('start_pos'), pos('end_pos')], [pos('container_start_pos'), pos('container_end_pos')]]
    return ['O', repr(v)[:30], [], [-1, -1], [-1, -1]]


def rules_json(parser, ph):
    out = []
    for r in parser.rules:
        o = r.options
        out.append({'origin': str(r.origin.name), 'label': str(r.alias or o.template_source or r.origin.name), 'hasalias': bool(r.alias),
                    'expand1': bool(o.expand1), 'keepall': bool(o.keep_all_tokens),
                    'syms': [{'isterm': bool(s.is_term), 'filter_out': bool(getattr(s, 'filter_out', False)) if s.is_term else False,
                              'inl': (not s.is_term) and str(s.name).startswith('_')} for s in r.expansion],
                    'empty': [bool(b) for b in (o.empty_indices or ())] if ph else [], 'helper': str(r.origin.name).startswith('_')})
    return out


def instrument(parser, log, log_reset):
    """wrap the callbacks of an LALR Lark instance in place; returns the list of rules in index order"""
    inner = parser.parser.parser
    cbs = inner.parser.callbacks if hasattr(inner, 'parser') else inner.callbacks        # LALR_Parser._Parser / earley.Parser
    rules = list(parser.rules)
    idx = {r: i + 1 for i, r in enumerate(rules)}

    num = {}            # id(object) -> number of the reduction result it is (renumbered: TLC integers are 32 bit)
    counter = [0]
    alive = []          # the results stay referenced for the duration of a parse: an id is never reused while it is in num
    left = [CAP_PER_PARSE]      # reductions still recorded in this parse (a hugely ambiguous parse is cut off: the snapshots are deep)
    CUT[id(log)] = left
    room = [NODES_PER_PARSE]    # snapshot nodes still recorded in this parse (nested _ambig values are written out by value)
    log_reset.append(lambda: (num.clear(), alive.clear(), left.__setitem__(0, CAP_PER_PARSE), room.__setitem__(0, NODES_PER_PARSE)))

    def size(v, cap):
        n, todo = 0, [v]
        while todo and n < cap:
            x = todo.pop()
            n += 1
            if isinstance(x, (list, tuple)):
                todo.extend(x)
        return n

    def wrap(rule, f):
        def g(children):
            if left[0] <= 0:
                left[0] = -1                  # marks the parse as cut off
                return f(children)
            left[0] -= 1
            kids = [val5(c) for c in children]
            room[0] -= size(kids, room[0] + 2)
            if room[0] < 0:
                left[0] = -1                  # too much to write out: the parse is cut off (not judged)
                return f(children)
            kid = [num.get(id(c), 0) if (hasattr(c, 'data') or hasattr(c, 'type')) else 0 for c in children]
            res = f(children)
            if hasattr(res, 'data') or hasattr(res, 'type'):       # a ?rule may return a bare token: it is numbered too
                same = [n for c, n in zip(children, kid) if c is res and n]
                # a ?rule returns its only child - which may be a grandchild spliced in from an inlined (_rule) child
                inner = [g for c in children if hasattr(c, 'data') and str(c.data).startswith('_') for g in c.children if g is res]
                pt = bool(same or inner or any(c is res for c in children))
                if same:
                    rid = same[0]
                elif inner and id(res) in num:
                    rid = num[id(res)]
                else:
                    counter[0] += 1
                    rid = counter[0]
                num[id(res)] = rid
                alive.append(res)
            else:
                rid, pt = 0, False
            log.append({'r': idx[rule], 'kids': kids, 'res': val5(res), 'rid': rid, 'kid': kid, 'pt': pt})
            return res
        return g
    for rule in list(cbs):
        if rule in idx:
            cbs[rule] = wrap(rule, cbs[rule])
    return rules


def observe_case(spec):
    import logging
    logging.disable(logging.CRITICAL)
    from lark import Lark
    from lark.exceptions import UnexpectedInput
    G, ka, ph, pp = spec['G'], spec['ka'], spec['ph'], spec['pp']
    amb = bool(spec.get('amb'))
    gtext = E.grammar_text(G)
    case = {'gtext': gtext, 'ka': ka, 'ph': ph, 'pp': pp, 'amb': amb, 'reds': [], 'skip': '', 'spec': spec, 'texts': []}
    try:
        with O.budget(30):
            if amb:
                p = Lark(gtext, parser='earley', lexer=spec.get('elexer', 'basic'), ambiguity='explicit', keep_all_tokens=ka, maybe_placeholders=ph, propagate_positions=pp)
            else:
                p = Lark(gtext, parser='lalr', lexer=spec.get('lexer', 'contextual'), keep_all_tokens=ka, maybe_placeholders=ph, propagate_positions=pp)
    except Exception as ex:
        case['skip'] = type(ex).__name__
        return case
    log, resets = [], []
    try:
        instrument(p, log, resets)
    except Exception as ex:
        raise C.MachineryFailure('cannot wrap the rule callbacks: %s' % ex)
    case['rules'] = rules_json(p, ph)
    for w in spec['inputs']:
        text = E.to_text(w)
        n0 = len(log)
        for r in resets:
            r()
        try:
            with O.budget(20):
                p.parse(text)
            if len(log) - n0 >= CAP_PER_PARSE or CUT[id(log)][0] < 0:
                del log[n0:]                  # cut off: not judged (a later reduction could refer to an unrecorded one)
                case['cut_off'] = case.get('cut_off', 0) + 1
                continue
            case['texts'].append([text, n0, len(log)])
        except UnexpectedInput:
            del log[n0:]
        except O.Hang:
            del log[n0:]
        except Exception as ex:
            # the tree builder itself raised on a legal grammar and input: an observable, whatever the property
            del log[n0:]
            case.setdefault('crashes', []).append([text, type(ex).__name__, str(ex)[:120]])
    case['reds'] = log
    return case


SHAPE = ('callback-got-another-number-of-children-than-the-rule-has-symbols', 'reduction-builds-another-node', 'reduction-keeps-other-children')
POSITIONS = ('reduction-sets-other-positions',)
SPANLAW = 'node-meta-is-not-the-span-of-the-tokens-its-rule-matched'      # C06's statement itself, at the grain of one reduction


def judge(pid, cases, ev, rep, tmp, name):
    """Returns the drifting cases.  A reduction that differs from the callback chain of TreeBuilder.tla is an INTERNAL
    projection (DESIGN 2, verdict policy): printed as DRIFT, counted, not a violation by itself - the caller has the
    drifting (grammar, input) pairs judged on their observables (the returned tree against EBNF.tla for C03)."""
    import os
    mine = POSITIONS if pid == 'C06' else SHAPE          # shaping is C03's statement, meta positions are C06's
    CH = 400
    jobs = []
    for off in range(0, len(cases), CH):
        chunk = cases[off:off + CH]
        jobs.append((chunk, C.write_batch({'cases': [{'rules': c['rules'], 'pp': c['pp'], 'amb': bool(c.get('amb')), 'reds': c['reds']} for c in chunk]}, tmp, 'tb_%s_%d.json' % (name, off))))
    results = C.tlc_parallel('TraceBuilder', TRACE_CFG, [j[1] for j in jobs], continue_=True, timeout=3000)
    for c in cases:
        for text, cls, msg in c.get('crashes', [])[:3]:
            rep.violation({'property': pid, 'clause': 'builder:parse-raised-' + cls, 'grammar': c['gtext'], 'text': text, 'message': msg,
                           'options': {'keep_all_tokens': c['ka'], 'maybe_placeholders': c['ph'], 'propagate_positions': c['pp'], 'ambiguity_explicit': bool(c.get('amb'))}})
    drift = []
    for (chunk, path), res in zip(jobs, results):
        C.tlc_must_run(res, 'TraceBuilder')
        ev.add_tlc('TraceBuilder:%s' % name, res, 'trace')
        os.remove(path)
        if res.violated and not res.verdicts:
            raise C.MachineryFailure('TraceBuilder violation without VERDICT line')
        for v in sorted(set(tuple(x) for x in res.verdicts)):
            if v[2].split('@')[0] == SPANLAW and pid == 'C06':
                c = chunk[int(v[0]) - 1]
                k = int(v[1]) - 1
                text = next((t[0] for t in c['texts'] if t[1] <= k < t[2]), '')
                sp = dict(c['spec'])
                sp['inputs'] = [w for w in sp['inputs'] if E.to_text(w) == text][:1]
                rep.violation({'property': pid, 'clause': 'builder:' + v[2], 'grammar': c['gtext'], 'keep_all_tokens': c['ka'], 'maybe_placeholders': c['ph'],
                               'text': text, 'rule': c['rules'][c['reds'][k]['r'] - 1], 'reduction': c['reds'][k], 'builder_spec': sp})
                continue
            if v[2] not in mine:
                ev.count('builder_verdicts_left_to_the_other_property:' + v[2])
                continue
            c = chunk[int(v[0]) - 1]
            k = int(v[1]) - 1
            text = next((t[0] for t in c['texts'] if t[1] <= k < t[2]), '')
            sp = dict(c['spec'])
            sp['inputs'] = [w for w in sp['inputs'] if E.to_text(w) == text][:1]
            drift.append({'clause': 'builder:' + v[2], 'grammar': c['gtext'], 'keep_all_tokens': c['ka'], 'maybe_placeholders': c['ph'],
                          'propagate_positions': c['pp'], 'text': text, 'rule': c['rules'][c['reds'][k]['r'] - 1], 'reduction': c['reds'][k], 'builder_spec': sp})
    ev.cov['drift'] = ev.cov.get('drift', 0) + len(drift)
    ev.cov.setdefault('drift_samples', [])
    ev.cov['drift_samples'] += [{k: d[k] for k in ('clause', 'grammar', 'text', 'rule')} for d in drift[:3]]
    if drift:
        print('DRIFT property=%s %d reduction(s) of the real tree builder differ from TreeBuilder.tla (not a violation by itself; first: %s)'
              % (pid, len(drift), json.dumps({k: drift[0][k] for k in ('clause', 'grammar', 'text')})[:300]))
    return drift


def directed():
    """?rules passing a tree through other ?rules, with filtered tokens at the edges (containers wider than the node)"""
    T, R = E.tok, E.ref
    A, B, C_, D = T('A'), T('B'), T('_C'), T('D')

    def rule(name, alts, expand1=False):
        return {'name': name, 'expand1': expand1, 'keepall': False, 'alts': [{'alias': '', 'body': b} for b in alts]}
    gs = []
    gs.append({'rules': [rule('start', [E.rep(R('stmt'), 1, -1)]), rule('stmt', [E.seq([R('expr'), D])], True),
                         rule('expr', [E.seq([C_, R('sum'), C_]), A], True), rule('sum', [E.seq([R('expr'), E.rep(E.seq([B, R('expr')]), 0, -1)])])]})
    gs.append({'rules': [rule('start', [E.seq([R('x'), E.rep(R('x'), 0, -1)])]), rule('x', [E.seq([D, R('y')])], True), rule('y', [E.seq([R('k'), C_])], True),
                         rule('k', [E.seq([C_, A, E.opt(B)]), E.seq([A, A])])]})
    gs.append({'rules': [rule('start', [E.seq([A, R('x'), A])]), rule('x', [R('y')], True), rule('y', [E.seq([C_, R('k'), D]), R('k')], True),
                         rule('k', [E.seq([B, E.rep(C_, 0, -1)])])]})
    gs.append({'rules': [rule('start', [E.rep(R('z'), 1, 3)]), rule('z', [E.seq([D, R('z'), D]), E.seq([C_, R('k')])], True), rule('k', [E.seq([A, E.rep(D, 0, 2)]), E.seq([B, B])])]})
    # a ?rule whose only tree child is EMPTY, next to filtered tokens: the node takes its whole span from the tokens around it
    # (hunted defect 44: the start was written into the child's meta first, which made the child its own "last child with a position")
    gs.append({'rules': [rule('start', [E.rep(R('a'), 1, 3)]), rule('a', [E.seq([C_, R('b')]), E.seq([R('b'), D, C_]), E.seq([C_, R('b'), C_])], True),
                         rule('b', [E.seq([]), A])]})
    gs.append({'rules': [rule('start', [E.seq([R('a'), E.opt(B)])]), rule('a', [E.seq([C_, R('k'), E.rep(D, 0, 2)])], True), rule('k', [R('b')], True), rule('b', [E.seq([])])]})
    return gs


def specs(n, rng, pp=None):
    import itertools
    out = []
    for G in directed():
        ins = set()
        for _ in range(40):
            sn = E.sample_sentence(G, rng, maxlen=9)
            if sn is not None:
                ins.add(tuple(sn))
        for ph in (False, True):
            out.append({'G': G, 'ka': False, 'ph': ph, 'pp': True if pp is None else pp, 'inputs': sorted(ins), 'lexer': 'contextual'})
    short = [w for k in range(0, 3) for w in itertools.product(['A', 'B', '_C', 'D'], repeat=k)]
    for i in range(n):
        G = E.rand_grammar(rng, depth=2 if i % 4 else 3)
        ins = set(rng.sample(short, 6))
        for _ in range(10):
            s = E.sample_sentence(G, rng, maxlen=6)
            if s is not None:
                ins.add(tuple(s))
        out.append({'G': G, 'ka': rng.random() < 0.25, 'ph': rng.random() < 0.6, 'pp': (rng.random() < 0.7) if pp is None else pp, 'inputs': sorted(ins),
                    'lexer': rng.choice(['contextual', 'basic'])})
    return out


MC_CFG = 'SPECIFICATION Spec\nCONSTANT MaxDepth = %d\n%s\nCHECK_DEADLOCK FALSE\n'


def design(pid, tier, ev):
    """MC_TreeBuilder: the callback chain over all nestings of a catalogue of rule shapes; and the model must refute the span
    law where a ?rule returns a bare token (known finding C06-token-through-expand1) - otherwise it says nothing"""
    d = 4 if tier == 'quick' else 6
    res = C.tlc('MC_TreeBuilder', MC_CFG % (d, 'INVARIANT SpanLaw\nINVARIANT ContainerLaw\nINVARIANT NoHelperLeft\nINVARIANT NonesCounted'), timeout=3000)
    C.tlc_must_run(res, 'MC_TreeBuilder')
    ev.add_tlc('MC_TreeBuilder MaxDepth=%d' % d, res, 'design')
    if not res.ok:
        raise C.MachineryFailure('MC_TreeBuilder: %s violated' % res.violated)
    r2 = C.tlc('MC_TreeBuilder', MC_CFG % (3, 'INVARIANT SpanLawEvenThroughTokens'), timeout=600, workers=2)
    C.tlc_must_run(r2, 'MC_TreeBuilder (no exemption)')
    ev.cov['binding_selftest']['model_finds_token_through_expand1'] = bool(r2.violated)
    if not r2.violated:
        raise C.MachineryFailure('MC_TreeBuilder does not find the token pass-through counterexample: the model is vacuous')


def design_lalrtree(tier, ev):
    """MC_LALRTree: LALR automaton + value stack + the callback chain = the shaped derivation (catalogue of option-bearing grammars)"""
    L = 3 if tier == 'quick' else 5
    res = C.tlc('MC_LALRTree', 'SPECIFICATION Spec\nCONSTANT MaxLen = %d\nINVARIANT AllConflictFree\nINVARIANT AcceptsTheSentences\n'
                'INVARIANT ReturnsTheShapedDerivation\nCHECK_DEADLOCK FALSE\n' % L, timeout=3000)
    C.tlc_must_run(res, 'MC_LALRTree')
    ev.add_tlc('MC_LALRTree MaxLen=%d' % L, res, 'design')
    if not res.ok:
        raise C.MachineryFailure('MC_LALRTree: %s violated' % res.violated)


def phase(pid, tier, rng, ev, rep, tmp, n_quick=2500, n_thorough=20000):
    design(pid, tier, ev)
    if pid == 'C03':
        design_lalrtree(tier, ev)
    cases = [c for c in C.pmap(observe_case, specs(C.scale(n_quick if tier == 'quick' else n_thorough), rng, pp=True if pid == 'C06' else None))
             if not c['skip'] and c['reds']]
    ev.count('builder_grammars', len(cases))
    ev.count('builder_reductions', sum(len(c['reds']) for c in cases))
    ev.count('builder_reductions_with_placeholders', sum(1 for c in cases for e in c['reds'] if any(k[0] == 'N' for k in e['res'][2])))
    ev.count('builder_reductions_inlining_a_child', sum(1 for c in cases for e in c['reds'] if e['res'][0] == 'R' and any(k == e['res'] for k in e['kids'])))
    ev.cov['traces_validated_against_impl'] = ev.cov.get('traces_validated_against_impl', 0) + sum(len(c['reds']) for c in cases)
    drift = judge(pid, cases, ev, rep, tmp, 'builder')
    if drift and pid == 'C03':
        # the observables of the drifting cases: the returned trees against the meaning of the grammar as written
        from . import c03
        seen, sps = set(), []
        for d in drift:
            sp = d['builder_spec']
            key = json.dumps([d['grammar'], sp['inputs'], sp['ka'], sp['ph']], sort_keys=True)
            if key not in seen and len(sps) < 300:
                seen.add(key)
                sps.append({'G': sp['G'], 'ka': sp['ka'], 'ph': sp['ph'], 'inputs': [tuple(w) for w in sp['inputs']], 'family': 'F_ebnf(builder drift)'})
        c03.judge(pid, [c for c in C.pmap(c03.observe_case, sps) if not c['skip']], ev, rep, tmp, 'builder-drift')
    selftest(cases, ev, tmp)
    # lark's own test suite under the same recorder: its grammars (templates, priorities, the python grammar, ...) are not of
    # my families - every reduction they make goes through the same judgement
    from . import suite
    suite.run(pid, ev, rep, tmp)
    if pid == 'C03':
        cdrift = compile_phase(pid, tier, rng, ev, tmp)
        if cdrift:
            # the observables of the drifting grammars: every engine's trees against the meaning of the grammar as written
            from . import c03
            import itertools
            short = [w for k in range(0, 4) for w in itertools.product(['A', 'B', '_C', 'D'], repeat=k)]
            sps = []
            for d in cdrift[:200]:
                G = d['spec_G']
                ins = set(rng.sample(short, 20))
                for _ in range(12):
                    sn = E.sample_sentence(G, rng, maxlen=6)
                    if sn is not None:
                        ins.add(tuple(sn))
                sps.append({'G': G, 'ka': d['keep_all_tokens'], 'ph': d['maybe_placeholders'], 'inputs': sorted(ins), 'must': True, 'family': 'F_ebnf(compile drift)'})
            c03.judge(pid, [c for c in C.pmap(c03.observe_case, sps) if not c['skip']], ev, rep, tmp, 'compile-drift')
    if sum(len(c['reds']) for c in cases) < (6000 if C.scale(100) == 100 else 10):
        raise C.MachineryFailure('vacuity (builder): %s' % ev.cov['counts'])


def selftest(cases, ev, tmp):
    """binding self-test: one recorded child dropped from a result / one position moved -> TLC must reject exactly those"""
    import copy
    import os
    picked = []
    for c in cases:
        for k, e in enumerate(c['reds']):
            if e['res'][0] == 'R' and len(e['res'][2]) >= 2 and e['res'][3][0] >= 0:
                picked.append((c, k))
                break
        if len(picked) == 2:
            break
    if len(picked) < 2:
        raise C.MachineryFailure('builder self-test: no suitable reduction recorded')
    bad = []
    for n, (c, k) in enumerate(picked):
        c2 = {'rules': c['rules'], 'pp': c['pp'], 'amb': False, 'reds': copy.deepcopy(c['reds'][k:k + 1])}     # the one reduction, on its own
        if n == 0:
            c2['reds'][0]['res'][2] = c2['reds'][0]['res'][2][:-1]
        else:
            c2['reds'][0]['res'][3][0] += 1000
        bad.append((c2, 1))
    path = C.write_batch({'cases': [b[0] for b in bad]}, tmp, 'tb_selftest.json')
    res = C.tlc('TraceBuilder', TRACE_CFG, env={'VERIF_BATCH': path}, workers=2, continue_=True, timeout=600)
    C.tlc_must_run(res, 'TraceBuilder self-test')
    os.remove(path)
    got = sorted({(int(v[0]), int(v[1]), v[2]) for v in res.verdicts})
    want = [(1, 1, 'reduction-keeps-other-children'), (2, 1, 'reduction-sets-other-positions')]
    got = [(a, b, 'reduction-sets-other-positions' if cl.split('@')[0] == SPANLAW else cl) for a, b, cl in got]     # a moved position breaks the span law first
    ev.cov['binding_selftest']['builder_corrupted_reductions_rejected'] = got == want
    if got != want:
        raise C.MachineryFailure('builder self-test: corrupted reductions judged %s, expected %s' % (got, want))


def phase_amb(pid, tier, rng, ev, rep, tmp, extra_specs=()):
    """C04: the callbacks of Earley with ambiguity='explicit' (the chain with AmbiguousExpander and
    AmbiguousIntermediateExpander) against CallbackAmb of TreeBuilder.tla; drifting cases are re-judged on their observable"""
    sps = [dict(sp, amb=True, pp=False, elexer=rng.choice(['basic', 'dynamic'])) for sp in specs(C.scale(700 if tier == 'quick' else 7000), rng)]
    for d in extra_specs:
        sps.append({'G': d['G'], 'ka': False, 'ph': True, 'pp': False, 'amb': True, 'inputs': d['inputs'], 'elexer': 'basic'})
    # in slices: the recorded reductions of a few thousand ambiguous parses do not fit through one pool.map (MemoryError, thorough)
    drift = []
    for off in range(0, len(sps), 700):
        cases = [c for c in C.pmap(observe_case, sps[off:off + 700], chunksize=6) if not c['skip'] and c['reds']]
        ev.count('builder_amb_grammars', len(cases))
        ev.count('builder_amb_reductions', sum(len(c['reds']) for c in cases))
        ev.count('builder_amb_reductions_returning__ambig', sum(1 for c in cases for e in c['reds'] if e['res'][1] == '_ambig'))
        ev.count('builder_amb_reductions_with_an_ambiguous_intermediate_node', sum(1 for c in cases for e in c['reds'] if e['kids'] and e['kids'][0][1] == '_iambig'))
        ev.cov['traces_validated_against_impl'] = ev.cov.get('traces_validated_against_impl', 0) + sum(len(c['reds']) for c in cases)
        drift += judge(pid, cases, ev, rep, tmp, 'builder-amb%d' % off) or []
        del cases
    if drift:
        from . import c03
        seen, out = set(), []
        for d in drift:
            sp = d['builder_spec']
            key = json.dumps([d['grammar'], sp['inputs']], sort_keys=True)
            if key not in seen and len(out) < 300:
                seen.add(key)
                out.append({'G': sp['G'], 'ka': sp['ka'], 'ph': sp['ph'], 'inputs': [tuple(w) for w in sp['inputs']], 'explicit': True, 'collapse': True,
                            'only_explicit': True, 'family': 'F_ebnf(builder drift)'})
        c03.judge(pid, [c for c in C.pmap(c03.observe_case, out) if not c['skip']], ev, rep, tmp, 'builder-amb-drift')
    if ev.cov['counts'].get('builder_amb_reductions_returning__ambig', 0) < (300 if C.scale(100) == 100 else 1):
        raise C.MachineryFailure('vacuity (ambiguous builder): %s' % ev.cov['counts'])


# ---- the compilation EBNF -> BNF (Compile.tla / TraceCompile.tla) -----------------------------------------------------------
def observe_compile(spec):
    import logging
    logging.disable(logging.CRITICAL)
    from lark import Lark
    G, ka, ph = spec['G'], spec['ka'], spec['ph']
    gtext = E.grammar_text(G)
    out = {'gtext': gtext, 'ka': ka, 'ph': ph, 'skip': '', 'G': E.grammar_json(G, ka, ph), 'spec_G': G}
    try:
        with O.budget(30):
            p = Lark(gtext, parser='earley', lexer='basic', keep_all_tokens=ka, maybe_placeholders=ph)
    except Exception as ex:
        out['skip'] = type(ex).__name__
        return out
    real = []
    for r in p.rules:
        o = r.options
        real.append({'origin': str(r.origin.name), 'rhs': [str(x.name) for x in r.expansion], 'alias': str(r.alias or ''), 'expand1': bool(o.expand1),
                     'keepall': bool(o.keep_all_tokens), 'empty': [bool(b) for b in (o.empty_indices or ())] if ph and any(o.empty_indices or ()) else [],
                     'fo': [bool(getattr(x, 'filter_out', False)) if x.is_term else False for x in r.expansion]})
    out['real'] = real
    return out


def compile_phase(pid, tier, rng, ev, tmp):
    """drift level: the real compiled rules against Compile.tla; design level: MC_Compile closes the chain
    EBNF.tla = TreeBuilder o CFG.Derivs o Compile on a catalogue"""
    import copy
    import os
    L = 4 if tier == 'quick' else 5
    res = C.tlc('MC_Compile', 'SPECIFICATION Spec\nCONSTANT MaxLen = %d\nINVARIANT NotRefused\nINVARIANT CompiledMeansWritten\n'
                'INVARIANT ExactOnAllButTheCollisions\nCHECK_DEADLOCK FALSE\n' % L, timeout=3000)
    C.tlc_must_run(res, 'MC_Compile')
    ev.add_tlc('MC_Compile MaxLen=%d (the compiled grammar means what the written one means)' % L, res, 'design')
    if not res.ok:
        raise C.MachineryFailure('MC_Compile: %s violated' % res.violated)
    sps = [{'G': s['G'], 'ka': s['ka'], 'ph': s['ph']} for s in specs(C.scale(1500 if tier == 'quick' else 12000), rng)]
    cases = [c for c in C.pmap(observe_compile, sps) if not c['skip']]
    ev.count('compiled_grammars_compared', len(cases))
    ev.count('compiled_rules_compared', sum(len(c['real']) for c in cases))
    CH = 250
    paths = [C.write_batch({'cases': [{'G': c['G'], 'real': c['real']} for c in cases[o:o + CH]]}, tmp, 'compile_%d.json' % o) for o in range(0, len(cases), CH)]
    # Compile.tla enumerates helper numberings; on a rare grammar that blows up (seen once: one batch at 100% CPU for 20 minutes).
    # The compiled rules are an INTERNAL projection (drift level), so a batch that does not finish in time is left unjudged and
    # counted - it can neither raise nor hide an alarm on an observable.
    results = C.tlc_parallel('TraceCompile', TRACE_CFG, paths, continue_=True, timeout=120 if tier == 'quick' else 900)
    drift = []
    for pi, res in enumerate(results):
        if res.timeout:
            ev.count('compile_batches_left_unjudged_after_timeout')
            os.remove(paths[pi])
            continue
        C.tlc_must_run(res, 'TraceCompile')
        ev.add_tlc('TraceCompile', res, 'trace')
        os.remove(paths[pi])
        for v in sorted(set(tuple(x) for x in res.verdicts)):
            c = cases[pi * CH + int(v[0]) - 1]
            drift.append({'clause': v[2], 'grammar': c['gtext'], 'keep_all_tokens': c['ka'], 'maybe_placeholders': c['ph'], 'real': c['real'], 'spec_G': c['spec_G']})
    ev.cov['drift'] = ev.cov.get('drift', 0) + len(drift)
    ev.cov['drift_samples'] = ev.cov.get('drift_samples', []) + [{k: d[k] for k in ('clause', 'grammar')} for d in drift[:3]]
    if drift:
        print('DRIFT property=%s the compiled rules of %d grammar(s) differ from Compile.tla (not a violation by itself; first: %s)'
              % (pid, len(drift), json.dumps({k: drift[0][k] for k in ('clause', 'grammar')})[:300]))
    # binding self-test: one symbol dropped from one recorded expansion -> exactly that grammar must be rejected
    pick = next(c for c in cases if any(len(r['rhs']) >= 2 for r in c['real']))
    bad = copy.deepcopy({'G': pick['G'], 'real': pick['real']})
    r = next(r for r in bad['real'] if len(r['rhs']) >= 2)
    r['rhs'].pop()
    r['fo'].pop()
    path = C.write_batch({'cases': [bad, {'G': pick['G'], 'real': pick['real']}]}, tmp, 'compile_selftest.json')
    rs = C.tlc('TraceCompile', TRACE_CFG, env={'VERIF_BATCH': path}, workers=2, continue_=True, timeout=600)
    C.tlc_must_run(rs, 'TraceCompile self-test')
    os.remove(path)
    got = sorted({int(v[0]) for v in rs.verdicts})
    ev.cov['binding_selftest']['compile_corrupted_rule_rejected'] = got == [1]
    if got != [1]:
        raise C.MachineryFailure('compile self-test: corrupted case judged %s' % got)
    if len(cases) < (800 if C.scale(100) == 100 else 3):
        raise C.MachineryFailure('vacuity (compile): %d grammars' % len(cases))
    return drift
