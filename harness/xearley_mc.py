def run(ev, tier):
    pass
