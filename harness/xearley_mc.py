"""Design-level check of the dynamic (character-level) scanner: XEarley.tla |= CharInLang (part of C01)."""
from . import common as C

CFG = '''SPECIFICATION Spec
CONSTANTS
  MaxRules = %d
  MaxLen = %d
  IgnoreAllLengths = %s
INVARIANT AcceptIffCharInLang
CHECK_DEADLOCK FALSE
'''


def run(ev, tier):
    R, L = (2, 3) if tier == 'quick' else (2, 4)
    res = C.tlc('MC_XEarley', CFG % (R, L, 'TRUE'), timeout=3000)
    C.tlc_must_run(res, 'MC_XEarley')
    ev.add_tlc('MC_XEarley R=%d L=%d (dynamic and dynamic_complete scanner = character-level language)' % (R, L), res, 'design')
    if not res.ok:
        raise C.MachineryFailure('MC_XEarley: %s violated - the specification itself is wrong' % res.violated)
    # model sensitivity: the pinned behaviour (ignored terminals skipped at their longest match only) must be refuted
    r2 = C.tlc('MC_XEarley', CFG % (2, 3, 'FALSE'), timeout=600, workers=4)
    C.tlc_must_run(r2, 'MC_XEarley pinned design')
    ev.cov['binding_selftest']['model_refutes_longest_only_ignores_under_dynamic_complete'] = bool(r2.violated)
    if not r2.violated:
        raise C.MachineryFailure('MC_XEarley accepts the longest-only treatment of ignored terminals: the model is vacuous')
