"""F_term: terminal catalogue, random terminal sets, regex-oracle tables and recording of real lexer runs
(shared by C06, C07, C15)."""
import re
import json

try:
    import re._parser as sre_parse
except ImportError:       # pragma: no cover
    import sre_parse

from . import families as F
from . import observe as O

# key: (kind, body, flags)   kind 'str' -> "body"flags, 're' -> /body/flags
CATALOGUE = {
    'A': ('str', 'a', ''), 'B': ('str', 'b', ''), 'AB': ('str', 'ab', ''), 'IF': ('str', 'if', ''),
    'IFI': ('str', 'if', 'i'), 'IFU': ('str', 'IF', ''), 'IN': ('str', 'in', ''), 'PLUS': ('str', '+', ''),
    'PP': ('str', '++', ''), 'EQ': ('str', '=', ''), 'EQEQ': ('str', '==', ''), 'ONE': ('str', '1', ''),
    'LOW': ('re', '[a-z]+', ''), 'UPP': ('re', '[A-Z]+', ''), 'LOWI': ('re', '[a-z]+', 'i'), 'WORD': ('re', r'\w+', ''),
    'IDENT': ('re', '[a-z][a-z0-9]*', ''), 'AS': ('re', 'a+', ''), 'AOB': ('re', 'ab?', ''), 'ALT': ('re', 'a|ab', ''),
    'NUM': ('re', r'\d+', ''), 'SPT': ('re', r'[ \t]+', ''), 'WS': ('re', r'\s+', ''), 'NOTA': ('re', '[^a]+', ''),
    'DOT': ('re', '.', ''), 'DOTS': ('re', '.', 's'), 'CTRL': ('re', r'[\x00-\x20]+', ''), 'NONW': ('re', r'\W+', ''),
    'NOND': ('re', r'\D', ''), 'NL': ('re', r'\n', ''), 'NLO': ('re', r'\012', ''), 'NLX': ('re', r'\x0a+', ''),
    'NLC': ('re', r'[\n]', ''), 'SP': ('str', ' ', ''), 'COMMENT': ('re', r'#[^\n]*', ''), 'ANYS': ('re', r'(?s:.)b', ''),
    'NLSTR': ('str', r'\n', ''), 'SPNL': ('re', r' *\n', ''), 'NONS': ('re', r'\S+', ''), 'MLC': ('re', r'/\*.*?\*/', 's'),
    # X_: only in directed terminal sets (never drawn by random_termset)
    'X_AI': ('str', 'a', 'i'), 'X_IFEQ': ('str', 'if=', ''), 'X_LOWNB': ('re', '(?<!1)[a-z]+', ''), 'X_LOWB': ('re', r'[a-z]+\b', ''),
}
NEWLINE_KEYS = ['WS', 'NOTA', 'DOTS', 'CTRL', 'NONW', 'NOND', 'NL', 'NLO', 'NLX', 'NLC', 'ANYS', 'NLSTR', 'SPNL', 'MLC']
ALPHABET = 'abifIF 1+=\n'

_FLAGS = {'i': re.I, 's': re.S, 'm': re.M, 'x': re.X}


def py_flags(fl):
    f = 0
    for ch in fl:
        f |= _FLAGS[ch]
    return f


def lark_regexp_value(body):
    """length-relevant form of a regexp as lark stores it: \\n \\t \\r \\f \\xHH \\uHHHH are evaluated to the character,
    every other escape keeps its backslash (documented: 'longer pattern' is measured on this value)"""
    out = []
    i = 0
    while i < len(body):
        ch = body[i]
        if ch == '\\' and i + 1 < len(body):
            n2 = body[i + 1]
            if n2 in 'nftr':
                out.append({'n': '\n', 'f': '\f', 't': '\t', 'r': '\r'}[n2])
                i += 2
                continue
            if n2 == 'x':
                out.append(chr(int(body[i + 2:i + 4], 16)))
                i += 4
                continue
            if n2 == 'u':
                out.append(chr(int(body[i + 2:i + 6], 16)))
                i += 6
                continue
            out.append(ch + n2)
            i += 2
            continue
        out.append(ch)
        i += 1
    return ''.join(out)


class Term:
    def __init__(self, name, key, prio=0, ign=False):
        kind, body, fl = CATALOGUE[key]
        self.name, self.key, self.kind, self.body, self.fl, self.prio, self.ign = name, key, kind, body, fl, prio, ign
        if kind == 'str':
            lit = body.encode().decode('unicode_escape') if '\\' in body else body
            self.value = lit
            self.src = re.escape(lit)
        else:
            self.value = lark_regexp_value(body)
            self.src = body
        self.pat = re.compile(self.src, py_flags(fl))
        self.bpat = re.compile(self.src.encode('latin1'), py_flags(fl))
        lo, hi = sre_parse.parse(self.src, py_flags(fl)).getwidth()
        self.maxw = min(int(hi), 10 ** 9)
        self.minw = int(lo)

    def lark_def(self):
        pr = '' if self.prio == 0 else '.%d' % self.prio
        if self.kind == 'str':
            return '%s%s: "%s"%s' % (self.name, pr, self.body, self.fl)
        return '%s%s: /%s/%s' % (self.name, pr, self.body.replace('/', '\\/'), self.fl)

    def json(self, nlcode):
        return {'name': self.name, 'prio': self.prio, 'maxw': self.maxw, 'plen': len(self.value), 'isstr': self.kind == 'str',
                'fl': sorted(self.fl), 'ign': self.ign, 'nlcode': bool(nlcode)}


def match_table(terms, text, a=0, b=None, use_bytes=False):
    """M[t][p] = end of t's own greedy match at offset p (window [a,b) of the buffer), 0 if none; rows are full-buffer length"""
    b = len(text) if b is None else b
    M = []
    for t in terms:
        pat = t.bpat if use_bytes else t.pat
        row = [0] * (len(text) + 1)
        for p in range(a, b):
            m = pat.match(text, p, b)
            if m and m.end() > p:
                row[p] = m.end()
        M.append(row)
    return M


def spelling_matrix(terms):
    """SM[r][s]: regexp r, applied to the spelling of string terminal s, matches all of it"""
    out = []
    for r in terms:
        row = []
        for s in terms:
            ok = False
            if r.kind == 're' and s.kind == 'str':
                m = r.pat.match(s.value)
                ok = bool(m) and m.group(0) == s.value
            row.append(ok)
        out.append(row)
    return out


def regexps_overlap(terms, alphabet=ALPHABET, maxlen=3):
    """some string (over the alphabet, <= maxlen) is fully matched by two different regexp terminals"""
    import itertools
    res = [t for t in terms if t.kind == 're']
    if len(res) < 2:
        return False
    for n in range(1, maxlen + 1):
        for w in itertools.product(alphabet, repeat=n):
            s = ''.join(w)
            if sum(1 for t in res if t.pat.fullmatch(s)) >= 2:
                return True
    return False


def random_termset(rng, keys=None, n=None, newline_bias=False):
    pool = [k for k in (keys or CATALOGUE) if not k.startswith('X_')]
    n = n or rng.choice([2, 3, 3, 4, 5])
    chosen = rng.sample(pool, min(n, len(pool)))
    if newline_bias and not any(k in NEWLINE_KEYS for k in chosen):
        chosen[0] = rng.choice(NEWLINE_KEYS)
    terms = []
    used = set()
    for k in chosen:
        nm = rng.choice('ABCDEFGHKMNPQRTZ') + rng.choice('ABCXYZ') + '_' + k
        while nm in used:
            nm = rng.choice('ABCDEFGHKMNPQRTZ') + rng.choice('ABCXYZ') + '_' + k
        used.add(nm)
        terms.append(Term(nm, k, prio=rng.choice([0, 0, 0, 0, 1, 2]), ign=False))
    # ignore: at most one or two, prefer whitespace-like
    for t in terms:
        if t.key in ('SPT', 'WS', 'SP', 'COMMENT', 'CTRL', 'NL', 'MLC', 'SPNL') and rng.random() < 0.6:
            t.ign = True
    if all(t.ign for t in terms):
        terms[0].ign = False
    return terms


def lexer_grammar(terms):
    kept = [t.name for t in terms if not t.ign]
    g = 'start: (%s)*\n' % ' | '.join(kept)
    for t in terms:
        g += t.lark_def() + '\n'
    for t in terms:
        if t.ign:
            g += '%%ignore %s\n' % t.name
    return g


def rank_of(terms):
    return {n: i for i, n in enumerate(sorted(t.name for t in terms))}


def random_text(rng, alphabet=ALPHABET, maxlen=7):
    n = rng.choice([1, 2, 3, 3, 4, 4, 5, 6, maxlen])
    return ''.join(rng.choice(alphabet) for _ in range(n))


def tok_row(idx, t, text, a=0):
    v = t.value
    ok = text[t.start_pos:t.end_pos] == v
    return [idx[str(t.type)], t.start_pos, t.end_pos, t.line, t.column, t.end_line, t.end_column, bool(ok)]


def nl_offsets(text):
    if isinstance(text, bytes):
        return [i for i, ch in enumerate(text) if ch == 10]
    return [i for i, ch in enumerate(text) if ch == '\n']
