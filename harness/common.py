"""Shared machinery: TLC driver, evidence/replay writers, known findings, worker pools.

Every check is  spec (TLA+) + TLC run(s) + conformance against the real lark in /repo.
Exit codes of a check: 0 = property held on everything explored (KNOWN-FINDING lines allowed),
1 = VIOLATION line printed, 2 = MACHINERY-FAILURE (TLC crash, harness cannot attach, ...).
"""
import json
import os
import re
import shutil
import subprocess
import sys
import tempfile
import time
import hashlib

VERIF = os.path.dirname(os.path.dirname(os.path.abspath(__file__)))
SPEC = os.path.join(VERIF, 'spec')
REPO = os.environ.get('VERIF_REPO', '/repo')
if REPO not in sys.path:          # lark is imported from the tree under test, whichever module imports it first
    sys.path.insert(0, REPO)
EVID = os.path.join(VERIF, 'evidence')
REPLAYS = os.path.join(VERIF, 'replays')
TLA_JAR = '/opt/veriftools/tla/tla2tools.jar'
TLA_CP = TLA_JAR + ':/opt/veriftools/tla/CommunityModules-deps.jar'
NCPU = int(os.environ.get('VERIF_WORKERS', '16'))
GUARD = 'LARK_VERIF'


class MachineryFailure(Exception):
    pass


def scale(n, lo=1):
    """VERIF_SCALE shrinks/grows sample sizes (debugging aid; default 1.0)"""
    try:
        f = float(os.environ.get('VERIF_SCALE', '1'))
    except ValueError:
        f = 1.0
    return max(lo, int(n * f))


def seed_from_env():
    try:
        return int(os.environ.get('VERIF_SEED', '0'))
    except ValueError:
        return 0


def scratch_dir(prefix='verif_'):
    base = os.environ.get('TMPDIR') or '/tmp'
    return tempfile.mkdtemp(prefix=prefix, dir=base)


# ----------------------------------------------------------------------------------------
# TLC
# ----------------------------------------------------------------------------------------
class TLCResult:
    def __init__(self):
        self.rc = None
        self.out = ''
        self.generated = 0      # "states generated" = initial states + evaluated transitions
        self.distinct = 0
        self.depth = 0
        self.init_states = 0
        self.violated = []      # names of violated invariants / properties
        self.verdicts = []      # parsed PrintT("VERDICT|...") lines
        self.prints = []        # other PrintT lines starting with "OUT|"
        self.wall = 0.0
        self.coverage = {}      # action name -> (distinct, total) when -coverage was on
        self.timeout = False

    @property
    def ok(self):
        return self.rc == 0 and not self.violated

    def stats(self):
        return {'generated': self.generated, 'distinct': self.distinct, 'depth': self.depth,
                'init': self.init_states, 'wall_s': round(self.wall, 2), 'rc': self.rc}


_re_final = re.compile(r'^(\d[\d,]*) states generated, (\d[\d,]*) distinct states found, (\d[\d,]*) states left', re.M)
_re_depth = re.compile(r'The depth of the complete state graph search is (\d+)')
_re_init = re.compile(r'Finished computing initial states: (\d[\d,]*) distinct state')
_re_inv = re.compile(r'Error: Invariant (\S+) is violated')
_re_prop = re.compile(r'Error: (?:Action|Temporal) propert(?:y|ies) (\S*) ?(?:is|were) violated')
_re_cov = re.compile(r'^<(\w+) line \d+, col \d+ to line \d+, col \d+ of module (\w+)>: (\d+):(\d+)', re.M)


def tlc(module, cfg_text, env=None, workers=None, timeout=1800, extra=(), simulate=None,
        continue_=False, coverage=False, depth_first=False, cwd=SPEC, heap='8g'):
    """Run TLC on spec/<module>.tla with the given cfg text. Returns TLCResult.

    The cfg is written to a scratch dir (never into /verif/spec) so concurrent checks do not collide.
    """
    workers = workers or NCPU
    tmp = scratch_dir('tlc_')
    res = TLCResult()
    try:
        cfg = os.path.join(tmp, module + '.cfg')
        with open(cfg, 'w') as f:
            f.write(cfg_text)
        cmd = ['java', '-XX:+UseParallelGC', '-Xmx' + heap, '-Xss1g', '-Djava.io.tmpdir=' + tmp]     # TLC leaves a tlc-<n> dir in java's tmpdir
        if depth_first:
            cmd.append('-Dtlc2.tool.queue.IStateQueue=StateDeque')
        cmd += ['-cp', TLA_CP, 'tlc2.TLC', '-workers', str(workers), '-metadir', os.path.join(tmp, 'meta'),
                '-noGenerateSpecTE', '-config', cfg]
        if continue_:
            cmd.append('-continue')
        if coverage:
            cmd += ['-coverage', '1']
        if simulate:
            cmd += ['-simulate', simulate]
        cmd += list(extra)
        cmd.append(os.path.join(cwd, module + '.tla'))
        e = dict(os.environ)
        if env:
            e.update({k: str(v) for k, v in env.items()})
        t0 = time.time()
        try:
            p = subprocess.run(cmd, cwd=cwd, env=e, stdout=subprocess.PIPE, stderr=subprocess.STDOUT,
                               timeout=timeout, text=True, errors='replace')
            res.rc = p.returncode
            res.out = p.stdout
        except subprocess.TimeoutExpired as ex:
            res.rc = -9
            res.timeout = True
            res.out = (ex.stdout or b'').decode('utf8', 'replace') if isinstance(ex.stdout, bytes) else (ex.stdout or '')
        res.wall = time.time() - t0
        m = None
        for m in _re_final.finditer(res.out):
            pass
        if m:
            res.generated = int(m.group(1).replace(',', ''))
            res.distinct = int(m.group(2).replace(',', ''))
        m = _re_depth.search(res.out)
        if m:
            res.depth = int(m.group(1))
        m = _re_init.search(res.out)
        if m:
            res.init_states = int(m.group(1).replace(',', ''))
        res.violated = _re_inv.findall(res.out) + [x or 'temporal' for x in _re_prop.findall(res.out)]
        if 'Temporal properties were violated' in res.out and not res.violated:
            res.violated.append('temporal')
        for line in res.out.splitlines():
            line = line.strip()
            if line.startswith('"') and line.endswith('"'):
                try:
                    line = json.loads(line)        # TLC prints strings as quoted literals with escapes
                except ValueError:
                    line = line[1:-1]
            if line.startswith('VERDICT|'):
                res.verdicts.append(line.split('|')[1:])
            elif line.startswith('OUT|'):
                res.prints.append(line[4:])
        for mm in _re_cov.finditer(res.out):
            res.coverage[mm.group(1)] = (int(mm.group(3)), int(mm.group(4)))
        return res
    finally:
        shutil.rmtree(tmp, ignore_errors=True)


def tlc_parallel(module, cfg_text, batch_paths, procs=4, **kw):
    """One TLC process per batch file, `procs` at a time (JSON parsing is serial inside each JVM)."""
    from concurrent.futures import ThreadPoolExecutor
    if not batch_paths:
        return []
    procs = min(procs, len(batch_paths))
    w = max(2, NCPU // procs)

    extra_env = kw.pop('env', None) or {}

    def one(path):
        return tlc(module, cfg_text, env=dict(extra_env, VERIF_BATCH=path), workers=w, **kw)
    with ThreadPoolExecutor(procs) as ex:
        return list(ex.map(one, batch_paths))


def tlc_must_run(res, what):
    """TLC must have terminated normally (0) or with a safety/liveness violation (12/13)."""
    if res.timeout:
        raise MachineryFailure('%s: TLC timed out after %.0fs' % (what, res.wall))
    if res.rc not in (0, 12, 13):
        lines = [l for l in res.out.splitlines() if not re.match(r'^\d+\. Line', l)]
        errs = [i for i, l in enumerate(lines) if l.startswith('Error:') and 'Invariant' not in l and 'behavior up to' not in l]
        tail = '\n'.join(lines[errs[0]:errs[0] + 25] if errs else lines[-25:])
        raise MachineryFailure('%s: TLC exited %s\n%s' % (what, res.rc, tail))


def write_batch(obj, tmpdir, name='batch.json'):
    path = os.path.join(tmpdir, name)
    with open(path, 'w') as f:
        json.dump(obj, f, separators=(',', ':'))
    return path


# ----------------------------------------------------------------------------------------
# evidence / replay / findings
# ----------------------------------------------------------------------------------------
class Evidence:
    def __init__(self, pid, tier, seed, level='model_checking'):
        self.pid = pid
        self.tier = tier
        self.seed = seed
        self.level = level
        self.t0 = time.time()
        self.cov = {'states': 0, 'transitions': 0, 'traces_validated_against_impl': 0, 'samples': [],
                    'exhaustive': False, 'tlc_runs': [], 'families': {}, 'counts': {}, 'drift': 0,
                    'binding_selftest': {}, 'known_findings_printed': []}
        self.assumptions = []
        self.violations = 0

    def add_tlc(self, name, res, kind):
        """kind: 'design' (L1 |= L0 over a TLA+-enumerated family) or 'trace' (validation of recorded behaviour)."""
        self.cov['states'] += res.distinct
        self.cov['transitions'] += max(res.generated - res.init_states, 0)
        r = dict(res.stats())
        r.update({'name': name, 'kind': kind, 'violated': res.violated})
        if res.coverage:
            r['action_coverage'] = {k: v[1] for k, v in res.coverage.items()}
        self.cov['tlc_runs'].append(r)

    def count(self, key, n=1):
        self.cov['counts'][key] = self.cov['counts'].get(key, 0) + n

    def sample(self, s, cap=6):
        if len(self.cov['samples']) < cap:
            self.cov['samples'].append(s)

    def write(self):
        os.makedirs(EVID, exist_ok=True)
        if not self.cov['samples']:
            self.cov['samples'].append('(no case recorded)')
        d = {'property_id': self.pid, 'tier': self.tier, 'seed': self.seed, 'level': self.level,
             'coverage': self.cov, 'assumptions': self.assumptions,
             'wall_s': round(time.time() - self.t0, 2), 'violations': self.violations}
        # states/transitions must be >= 1 for the model_checking level
        d['coverage']['states'] = max(int(d['coverage']['states']), 0)
        d['coverage']['transitions'] = max(int(d['coverage']['transitions']), 0)
        tmp = os.path.join(EVID, self.pid + '.json.tmp')
        with open(tmp, 'w') as f:
            json.dump(d, f, indent=1, default=str)
        os.replace(tmp, os.path.join(EVID, self.pid + '.json'))


def write_replay(pid, case):
    os.makedirs(REPLAYS, exist_ok=True)
    blob = json.dumps(case, sort_keys=True, default=str)
    h = hashlib.sha1(blob.encode()).hexdigest()[:12]
    path = os.path.join(REPLAYS, '%s_%s.json' % (pid, h))
    with open(path, 'w') as f:
        json.dump(case, f, indent=1, sort_keys=True, default=str)
    return path


def load_findings(pid):
    path = os.path.join(VERIF, 'known_findings.json')
    try:
        with open(path) as f:
            d = json.load(f)
    except FileNotFoundError:
        return []
    return [x for x in d.get('known', []) if x.get('property') == pid]


class Reporter:
    """Collects violations, separates listed known findings, prints the interface lines."""

    def __init__(self, pid, ev, matcher=None):
        self.pid = pid
        self.ev = ev
        self.findings = load_findings(pid)
        self.matcher = matcher          # f(finding, case) -> bool
        self.known_hit = {}
        self.new = []

    def violation(self, case):
        for fnd in self.findings:
            if self.matcher and self.matcher(fnd, case):
                self.known_hit.setdefault(fnd['id'], []).append(case)
                return False
        self.new.append(case)
        return True

    def finish(self):
        for fnd in self.findings:
            hits = self.known_hit.get(fnd['id'])
            if hits:
                print('KNOWN-FINDING: property=%s %s (%d case(s) this run)' % (self.pid, fnd['what'], len(hits)))
                self.ev.cov['known_findings_printed'].append({'id': fnd['id'], 'cases': len(hits)})
        self.ev.violations = len(self.new)
        hist = {}
        for case in self.new:
            hist[case.get('clause', '?')] = hist.get(case.get('clause', '?'), 0) + 1
        if hist:
            self.ev.cov['violation_clauses'] = hist
            for k, v in sorted(hist.items(), key=lambda kv: -kv[1])[:12]:
                print('  %6d x %s' % (v, k))
        # write one replay per distinct clause first
        seen = set()
        ordered = []
        for case in self.new:
            if case.get('clause') not in seen:
                seen.add(case.get('clause'))
                ordered.append(case)
        ordered += [c for c in self.new if c not in ordered[:len(seen)]][:5]
        self.new_ordered = ordered
        paths = []
        for case in self.new_ordered[:8]:
            p = write_replay(self.pid, case)
            paths.append(p)
            print('VIOLATION property=%s replay=%s' % (self.pid, p))
        if len(self.new) > 8:
            print('(%d further violations of %s not written out)' % (len(self.new) - 8, self.pid))
        self.ev.write()
        return 1 if self.new else 0


def run_check(pid, body):
    """Wrap a check body: body(tier, seed) -> exit code. Maps machinery failures to exit 2."""
    tier = os.environ.get('VERIF_TIER', 'quick')
    args = sys.argv[1:]
    if '--tier' in args:
        tier = args[args.index('--tier') + 1]
    replay = None
    if '--replay' in args:
        replay = args[args.index('--replay') + 1]
    seed = seed_from_env()
    os.environ.setdefault('PYTHONHASHSEED', '0')
    os.environ[GUARD] = '1'
    try:
        rc = body(tier, seed, replay)
    except MachineryFailure as e:
        print('MACHINERY-FAILURE property=%s %s' % (pid, e))
        rc = 2
    except Exception:
        import traceback
        traceback.print_exc()
        print('MACHINERY-FAILURE property=%s unexpected exception in the harness' % pid)
        rc = 2
    sys.exit(rc)


# ----------------------------------------------------------------------------------------
# worker pool (fork; lark imported from /repo's working tree in the children)
# ----------------------------------------------------------------------------------------
def _worker_init():
    # lark runs only in pool workers: cap their address space so a runaway parse cannot take the machine down
    import resource
    try:
        resource.setrlimit(resource.RLIMIT_AS, (6 << 30, 6 << 30))
    except Exception:
        pass


def pmap(func, items, chunksize=None, procs=None):
    import multiprocessing as mp
    items = list(items)
    if not items:
        return []
    procs = min(procs or NCPU, len(items))
    ctx = mp.get_context('fork')
    if chunksize is None:
        chunksize = max(1, len(items) // (procs * 8))
    with ctx.Pool(procs, initializer=_worker_init) as pool:
        return pool.map(func, items, chunksize=chunksize)


def ensure_repo_on_path():
    if REPO not in sys.path:
        sys.path.insert(0, REPO)
    import lark  # noqa
    lp = os.path.realpath(os.path.dirname(lark.__file__))
    if not lp.startswith(os.path.realpath(REPO)):
        raise MachineryFailure('lark imported from %s, not from %s' % (lp, REPO))
