"""lark's own test suite under the tree-builder recorder (suite_plugin.py); the recorded reductions against TreeBuilder.tla."""
import glob
import json
import os
import shutil
import subprocess
import sys

from . import common as C
from . import tb


def collect(tmp, tests=('tests',)):
    """run lark's tests under the recorders; returns (directory with the recordings, tail of pytest's output)"""
    out = os.path.join(tmp, 'suite_out')
    os.makedirs(out, exist_ok=True)
    env = dict(os.environ, VERIF_SUITE_OUT=out, PYTHONPATH=C.VERIF + os.pathsep + C.REPO)
    cmd = [sys.executable, '-m', 'pytest', '-q', '-p', 'no:cacheprovider', '-p', 'harness.suite_plugin', '--timeout=900', '-n', '8'] + list(tests)
    r = subprocess.run(cmd, cwd=C.REPO, env=env, stdout=subprocess.PIPE, stderr=subprocess.STDOUT, timeout=1800)
    tail = r.stdout.decode('utf8', 'replace')[-400:]
    if r.returncode not in (0, 1):
        raise C.MachineryFailure('the test suite did not run under the recorder: %s' % tail)
    return out, tail


def digraph_calls(ev, tmp):
    """C02 (drift level): every digraph() call the test suite makes returns the least solution (TraceDigraph)"""
    out, tail = collect(tmp)
    calls = []
    for f in sorted(glob.glob(os.path.join(out, '*.digraph.ndjson'))):
        calls += [json.loads(line) for line in open(f)]
    shutil.rmtree(out, ignore_errors=True)
    seen, uniq = set(), []
    for c in calls:
        key = json.dumps(c, sort_keys=True)
        if key not in seen:
            seen.add(key)
            uniq.append(c)
    ev.count('suite_digraph_calls', len(uniq))
    if len(uniq) < 100:
        raise C.MachineryFailure('the recorder saw only %d digraph calls in the test suite: %s' % (len(uniq), tail))
    CH = 1500
    paths = [C.write_batch({'cases': uniq[o:o + CH]}, tmp, 'suite_dg_%d.json' % o) for o in range(0, len(uniq), CH)]
    results = C.tlc_parallel('TraceDigraph', 'SPECIFICATION Spec\nINVARIANT VerdictOk\nCHECK_DEADLOCK FALSE\n', paths, continue_=True, timeout=3000)
    drift = 0
    for pi, r in enumerate(results):
        C.tlc_must_run(r, 'TraceDigraph (suite)')
        ev.add_tlc('TraceDigraph:suite', r, 'trace')
        drift += len(set(tuple(x) for x in r.verdicts))
        os.remove(paths[pi])
    ev.cov['drift'] = ev.cov.get('drift', 0) + drift
    ev.cov['traces_validated_against_impl'] = ev.cov.get('traces_validated_against_impl', 0) + len(uniq)
    if drift:
        print('DRIFT property=C02 lalr_analysis.digraph returned a result that is not the least solution for %d call(s) made by the test suite' % drift)
    return drift


def run(pid, ev, rep, tmp, tests=('tests',)):
    out, tail = collect(tmp, tests)
    if pid == 'C06':
        lexed_tokens(out, ev, rep, tmp)
    cases = []
    for f in sorted(glob.glob(os.path.join(out, '[0-9]*.ndjson'))):
        if f.endswith('.tokens.ndjson') or f.endswith('.digraph.ndjson'):
            continue
        for line in open(f):
            b = json.loads(line)
            def odd(v):       # a token without positions, or a span of which only one end is known (None positions)
                if v[0] == 'T' and (v[3][0] < 0 or v[3][1] < 0):
                    return True
                if v[0] == 'R' and ((v[3][0] < 0) != (v[3][1] < 0) or (v[4][0] < 0) != (v[4][1] < 0)):
                    return True
                return any(odd(c) for c in v[2])
            nopos = any(odd(k) for e in b['reds'] for k in e['kids'] + [e['res']])
            cases.append({'rules': b['rules'], 'pp': b['pp'], 'amb': b['amb'], 'reds': b['reds'], 'gtext': '(a grammar of the test suite)', 'ka': None,
                          'ph': b['ph'], 'texts': [], 'spec': {'inputs': []}, 'nopos': nopos})
    shutil.rmtree(out, ignore_errors=True)
    if pid == 'C06':          # positions are judged only where every token has them (the tests also feed hand-made tokens)
        cases = [c for c in cases if c['pp'] and not c['nopos']]
    ev.count('suite_builders', len(cases))
    ev.count('suite_reductions', sum(len(c['reds']) for c in cases))
    ev.count('suite_ambiguous_builders', sum(1 for c in cases if c['amb']))
    ev.cov['traces_validated_against_impl'] = ev.cov.get('traces_validated_against_impl', 0) + sum(len(c['reds']) for c in cases)
    if sum(len(c['reds']) for c in cases) < 2000:
        raise C.MachineryFailure('the recorder saw only %d reductions in the test suite: %s' % (sum(len(c['reds']) for c in cases), tail))
    return tb.judge(pid, cases, ev, rep, tmp, 'suite')


def lexed_tokens(out, ev, rep, tmp):
    """coordinates of every token the basic/contextual lexers handed out during the suite, against Coord of Lexer.tla"""
    from . import c07
    runs = []
    for f in sorted(glob.glob(os.path.join(out, '*.tokens.ndjson'))):
        for line in open(f):
            r = json.loads(line)
            runs.append({'n': r['n'], 'M': [], 'NL': r['NL'], 'a': 0, 'mode': 'tree', 'toks': r['toks'], 'among': [[]], 'err': -1, 'ecls': '', 'eline': 0,
                         'ecol': 0, 'basicacc': False, 'ctxacc': False, 'same': False, 'overlap': False, 'dyn': False, 'nodes': []})
    ev.count('suite_texts_lexed', len(runs))
    ev.count('suite_tokens', sum(len(r['toks']) for r in runs))
    ev.count('suite_tokens_after_a_newline', sum(1 for r in runs for t in r['toks'] if t[3] > 1))
    if sum(len(r['toks']) for r in runs) < 3000:
        raise C.MachineryFailure('the recorder saw only %d tokens in the test suite' % sum(len(r['toks']) for r in runs))
    CH = 400
    paths = [C.write_batch({'cases': [{'T': [], 'rank': {}, 'SM': [], 'order': [], 'runs': runs[off:off + CH]}]}, tmp, 'suite_tokens_%d.json' % off)
             for off in range(0, len(runs), CH)]
    results = C.tlc_parallel('TraceLex', c07.TRACE_CFG, paths, continue_=True, timeout=3000, env={'VERIF_WHICH': 'C06'})
    for pi, res in enumerate(results):
        C.tlc_must_run(res, 'TraceLex (suite tokens)')
        ev.add_tlc('TraceLex[C06]:suite-tokens', res, 'trace')
        os.remove(paths[pi])
        for v in sorted(set(tuple(x) for x in res.verdicts)):
            r = runs[pi * CH + int(v[1]) - 1]
            rep.violation({'property': 'C06', 'clause': 'suite:' + v[2], 'where': 'a token lexed while the test suite ran', 'n': r['n'], 'newlines': r['NL'][:20],
                           'tokens': r['toks'][:20]})
