"""C01 - Earley accepts exactly the language of the grammar.

design : MC_Earley.tla  (worklist machine |= LFP language, closure, soundness, termination)
         MC_XEarley.tla (dynamic scanner machine |= character-level language)
binding: code->spec, TraceC01.tla judges accept/reject of the real lark on bounded families under
         the three Earley lexers; TraceEarleyCols.tla compares the real chart columns with the machine.
"""
import os
import random
import re
import shutil
import sys
import json

from . import common as C
from . import families as F
from . import observe as O

PID = 'C01'
MODES = ('basic', 'dynamic', 'dynamic_complete')

MC_CFG = '''SPECIFICATION Spec
CONSTANTS
  MaxRules = %(R)d
  MaxLen = %(L)d
  MaxRhs = 2
  PopAny = %(pop)s
INVARIANT AcceptIffInLang
INVARIANT ColumnIsClosure
INVARIANT ItemsSound
INVARIANT Partition
%(prop)s
CHECK_DEADLOCK FALSE
'''

TRACE_CFG = '''SPECIFICATION Spec
INVARIANT VerdictOk
CHECK_DEADLOCK FALSE
'''

# ---- family B: overlapping multi-character terminals, for the dynamic lexers -------------------
TERM_CATALOGUE = {
    'A': ('"a"', 'a'), 'B': ('"b"', 'b'), 'AB': ('"ab"', 'ab'), 'AS': ('/a+/', 'a+'),
    'BA': ('/ba|b/', 'ba|b'), 'ABS': ('/(ab)+/', '(ab)+'), 'BB': ('"bb"', 'bb'),
    'SB': ('" b"', ' b'), 'AOPT': ('/ab?/', 'ab?'), 'SA': ('/ +a/', ' +a'),
}
IGNORES = {'none': None, 'sp': ('" "', ' '), 'sps': ('/ +/', ' +')}


CODE = {'accept': 0}


def obs_code(o):
    if o['out'] == 'accept':
        return 0
    if o['out'] == 'reject':
        return 1 if o['ui'] else 2
    return 3


def observe_case(spec):
    """Run the real lark on one grammar under the requested lexer modes; return the observed case."""
    import lark  # noqa  (from /repo)
    parsers = {}
    cons = {}
    for mode in spec['modes']:
        p, c = O.construct(spec['gtext'], parser='earley', lexer=mode)
        parsers[mode] = p
        cons[mode] = c
    modes = [m for m in spec['modes'] if parsers[m] is not None]
    obs = []
    cls = []
    for text in spec['inputs']:
        row = []
        crow = []
        for mode in modes:
            o = O.parse_outcome(parsers[mode], text, tree=False)
            row.append(obs_code(o))
            crow.append(o['cls'])
        obs.append(row)
        cls.append(crow)
    return {'gtext': spec['gtext'], 'rules': spec['rules'], 'start': 'start', 'texts': spec['inputs'],
            'modes': modes, 'obs': obs, 'cls': cls, 'terms': spec['terms'], 'ignore': spec['ignore'],
            'construct': cons, 'family': spec['family']}


_PATS = {}


def input_entry(text, terms, ignore):
    """Row of the shared input table: base spans of every terminal over the text, by the regex oracle."""
    def pat(src):
        if src not in _PATS:
            _PATS[src] = re.compile(src)
        return _PATS[src]
    tsA, tsL, igA, igL = [], [], [], []
    ok = True
    for t, src in sorted(terms.items()):
        p = pat(src)
        ok = ok and O.greedy_is_longest(p, text)
        tsA += [[t, i, j] for i, j in O.full_spans(p, text)]
        tsL += [[t, i, j] for i, j in O.longest_spans(p, text)]
    for src in ignore:
        p = pat(src)
        ok = ok and O.greedy_is_longest(p, text)
        igA += [[i, j] for i, j in O.full_spans(p, text)]
        igL += [[i, j] for i, j in O.longest_spans(p, text)]
    return {'text': json.dumps(text), 'n': len(text), 'tsA': tsA, 'tsL': tsL, 'igA': igA, 'igL': igL}, ok


def build_batch(chunk):
    """cases -> compact batch with a shared input table (JsonDeserialize is the bottleneck: keep it small)"""
    table = []
    index = {}
    out = []
    for c in chunk:
        tkey = tuple(sorted(c['terms'].items()))
        ikey = tuple(c['ignore'])
        ins, obs, keep = [], [], []
        for ti, text in enumerate(c['texts']):
            key = (text, tkey, ikey)
            if key not in index:
                row, ok = input_entry(text, c['terms'], c['ignore'])
                if ok:
                    table.append(row)
                    index[key] = len(table)
                else:
                    index[key] = None      # outside the reading (greedy match is not the longest)
            if index[key] is None:
                continue
            ins.append(index[key])
            obs.append(c['obs'][ti])
            keep.append(ti)
        out.append({'rules': c['rules'], 'start': c['start'], 'modes': list(c['modes']), 'ins': ins, 'obs': obs})
        c['_keep'] = keep
    return {'inputs': table, 'cases': out}


def specs_family_a(tier, rng):
    R = 3
    L = 3
    out = []
    for G in F.bnf_family(R):
        ins = [F.to_text(w) for w in F.enriched_inputs(G, L, extra_len=2 if tier == 'quick' else 3, rng=rng)]
        out.append({'family': 'F_bnf(3,3)', 'gtext': F.grammar_text(G), 'rules': F.rules_json(G),
                    'terms': {'X': 'x', 'Y': 'y'}, 'ignore': [], 'inputs': ins, 'modes': MODES})
    # the same family with an ignored blank, inputs with blanks sprinkled in (sample)
    Gs = list(F.bnf_family(R))
    for G in F.sample(Gs, 1500 if tier == 'quick' else 6000, rng):
        base = F.enriched_inputs(G, L, extra_len=1, rng=rng)
        ins = sorted({F.to_text(F.with_spaces(w, rng)) for w in base} | {' ', '  '})
        out.append({'family': 'F_bnf(3,3)+ignore', 'gtext': F.grammar_text(G, ignore_ws=True),
                    'rules': F.rules_json(G), 'terms': {'X': 'x', 'Y': 'y'}, 'ignore': [' '],
                    'inputs': ins, 'modes': MODES})
    return out


def specs_family_rand(tier, rng):
    out = []
    for G in F.rand_family(C.scale(1500 if tier == 'quick' else 12000), rng):
        ins = [F.to_text(w) for w in F.enriched_inputs(G, 3, extra_len=3, rng=rng, alphabet=('X', 'Y', 'Z'))]
        out.append({'family': 'F_rand', 'gtext': F.grammar_text(G, term_defs=F.TERM3), 'rules': F.rules_json(G),
                    'terms': {'X': 'x', 'Y': 'y', 'Z': 'z'}, 'ignore': [], 'inputs': ins, 'modes': MODES})
    # nullable non-terminals completed early in a column and reached again two or more rule levels down a later prediction
    # (held completions H of the Earley predictor), from a non-initial position
    import itertools
    chains = [(('s', ('e', 'a', 'Y')), ('a', ('b',)), ('b', ('e', 'X')), ('e', ())),
              (('s', ('e', 'a', 'Y')), ('a', ('b',)), ('b', ('c',)), ('c', ('e', 'X')), ('e', ())),
              (('s', ('X', 'e', 'a')), ('a', ('b',)), ('b', ('e', 'Y')), ('e', ()), ('e', ('Z',))),
              (('s', ('e', 'a')), ('a', ('b', 'Y')), ('a', ('X',)), ('b', ('e', 'c')), ('c', ('X',)), ('c', ()), ('e', ()), ('e', ('Z',))),
              (('s', ('e', 'e', 'a')), ('a', ('b',)), ('a', ('a', 'Y')), ('b', ('e', 'e', 'X')), ('e', ())),
              (('s', ('a', 'b')), ('a', ()), ('a', ('X',)), ('b', ('c', 'Y')), ('c', ('d',)), ('d', ('a', 'a', 'Z')), ('d', ('Z',)))]
    for Gb in chains:
        for perm in itertools.permutations('XYZ'):
            ren = dict(zip('XYZ', perm))
            G0 = tuple((l, tuple(ren.get(x, x) for x in rhs)) for l, rhs in Gb)
            for k in range(2 if tier == 'quick' else 6):
                G = G0
                if k:       # an extra random alternative somewhere
                    nts = sorted({l for l, _ in G0})
                    extra = (rng.choice(nts), tuple(rng.choice(nts[1:] + ['X', 'Y', 'Z']) for _ in range(rng.choice([1, 2]))))
                    G = tuple(sorted(set(G0) | {extra}, key=lambda r: (r[0] != 's', r)))
                ins = [F.to_text(w) for w in F.enriched_inputs(G, 4, extra_len=1, rng=rng, alphabet=('X', 'Y', 'Z'))]
                out.append({'family': 'F_nullchain', 'gtext': F.grammar_text(G, term_defs=F.TERM3), 'rules': F.rules_json(G),
                            'terms': {'X': 'x', 'Y': 'y', 'Z': 'z'}, 'ignore': [], 'inputs': ins, 'modes': MODES})
    return out


def random_overlap_grammar(rng):
    names = rng.sample(sorted(TERM_CATALOGUE), rng.choice([2, 3, 3, 4]))
    syms = ['s', 'a'] + names
    nrules = rng.choice([2, 3, 3, 4])
    G = set()
    G.add(('s', tuple(rng.choice(syms[1:]) for _ in range(rng.choice([1, 2, 2, 3])))))
    while len(G) < nrules:
        lhs = rng.choice(['s', 'a', 'a'])
        G.add((lhs, tuple(rng.choice(syms) for _ in range(rng.choice([0, 1, 1, 2, 2, 3])))))
    if any('a' in rhs for _, rhs in G) and not any(l == 'a' for l, _ in G):
        G.add(('a', (rng.choice(names),)))
    G = tuple(sorted(G))
    ig = rng.choice(sorted(IGNORES))
    used = sorted({x for _, rhs in G for x in rhs if x in TERM_CATALOGUE})
    return G, used, ig


def specs_family_b(tier, rng):
    n = 1200 if tier == 'quick' else 12000
    import itertools
    texts = [''.join(w) for k in range(0, 5) for w in itertools.product('ab ', repeat=k)]
    out = []
    for _ in range(n):
        G, used, ig = random_overlap_grammar(rng)
        term_defs = {t: TERM_CATALOGUE[t][0] for t in used}
        gtext = F.grammar_text(G, term_defs=term_defs)
        igsrc = []
        if IGNORES[ig]:
            gtext += 'IG: %s\n%%ignore IG\n' % IGNORES[ig][0]
            igsrc = [IGNORES[ig][1]]
        ins = F.sample(texts, 60 if tier == 'quick' else 121, rng)
        ins += [''.join(rng.choice('ab ') for _ in range(rng.choice([5, 6]))) for _ in range(8)]
        out.append({'family': 'F_overlap', 'gtext': gtext, 'rules': F.rules_json(G),
                    'terms': {t: TERM_CATALOGUE[t][1] for t in used}, 'ignore': igsrc,
                    'inputs': sorted(set(ins)), 'modes': ('dynamic', 'dynamic_complete')})
    return out


def known_matcher(fnd, case):
    pred = fnd.get('match', {})
    if pred.get('kind') == 'ignore-not-complete-lexed':
        # dynamic_complete rejects a sentence whose derivation needs a non-longest match of an ignored terminal
        return case.get('clause', '').startswith('rejected-sentence:dynamic_complete') and case.get('needs_short_ignore')
    return False


def judge_batch(cases, ev, rep, tmp, name, kind='trace'):
    """TLC-validate a list of observed cases; route VERDICT lines to the reporter."""
    CH = 2500
    jobs = []
    for off in range(0, len(cases), CH):
        chunk = cases[off:off + CH]
        batch = build_batch(chunk)
        path = C.write_batch(batch, tmp, 'b_%s_%d.json' % (name, off))
        jobs.append((off, chunk, batch, path))
    results = C.tlc_parallel('TraceC01', TRACE_CFG, [j[3] for j in jobs], continue_=True, timeout=3000)
    for (off, chunk, batch, path), res in zip(jobs, results):
        C.tlc_must_run(res, 'TraceC01/%s' % name)
        ev.add_tlc('TraceC01:%s[%d]' % (name, off), res, kind)
        os.remove(path)
        if res.violated and not res.verdicts:
            raise C.MachineryFailure('TraceC01 reported a violation without a VERDICT line')
        for v in sorted(set(tuple(x) for x in res.verdicts)):
            tid, k, clause = int(v[0]), int(v[1]), v[2]
            c = chunk[tid - 1]
            bc = batch['cases'][tid - 1]
            inp = batch['inputs'][bc['ins'][k - 1] - 1]
            ti = c['_keep'][k - 1]
            case = {'property': PID, 'family': c['family'], 'grammar': c['gtext'], 'text': c['texts'][ti],
                    'clause': clause, 'modes': c['modes'], 'observed': c['cls'][ti], 'codes': c['obs'][ti],
                    'spec_rules': c['rules'], 'terms': c['terms'], 'ignore_src': c['ignore'],
                    'spans': {k2: inp[k2] for k2 in ('tsA', 'tsL', 'igA', 'igL')}}
            if clause.startswith('rejected-sentence:dynamic_complete'):
                case['needs_short_ignore'] = needs_short_ignore(c, inp)
            rep.violation(case)


def needs_short_ignore(c, inp):
    """True iff the input is in the language with all ignore matches but not when ignored terminals are
    restricted to their longest match (classification for the known finding only; computed by the same
    LFP in Python, the verdict itself came from TLC)."""
    def inlang(ts, ig):
        n = inp['n']
        igs = {(a, b) for a, b in ig}

        def skip(i):
            S = {i}
            ch = True
            while ch:
                ch = False
                for a, b in igs:
                    if a in S and b not in S:
                        S.add(b)
                        ch = True
            return S
        base = set()
        for t, i, j in ts:
            for p in range(n + 1):
                if i in skip(p):
                    base.add((t, p, j))
        S = set(base)
        rules = c['rules']
        ch = True
        while ch:
            ch = False
            for r in rules:
                for i in range(n + 1):
                    P = {i}
                    for x in r['rhs']:
                        P = {j for (s, a, j) in S if s == x and a in P}
                    for j in P:
                        if (r['lhs'], i, j) not in S:
                            S.add((r['lhs'], i, j))
                            ch = True
        return any((c['start'], 0, j) in S and n in skip(j) for j in range(n + 1))
    return inlang(inp['tsA'], inp['igA']) and not inlang(inp['tsA'], inp['igL'])


def body(tier, seed, replay):
    ev = C.Evidence(PID, tier, seed)
    rep = C.Reporter(PID, ev, known_matcher)
    rng = random.Random(seed)
    tmp = C.scratch_dir('c01_')
    try:
        if replay and 'spec' in json.load(open(replay)):
            from . import c03
            sp = json.load(open(replay))['spec']
            sp['inputs'] = [tuple(w) for w in sp['inputs']]
            c03.judge(PID, [c03.observe_case(sp)], ev, rep, tmp, 'replay', which='LANG')
            return rep.finish()
        if replay:
            case = json.load(open(replay))
            spec = {'family': case['family'], 'gtext': case['grammar'], 'rules': case['spec_rules'],
                    'terms': case['terms'], 'ignore': case['ignore_src'], 'inputs': [case['text']],
                    'modes': tuple(case['modes'])}
            got = observe_case(spec)
            judge_batch([got], ev, rep, tmp, 'replay')
            return rep.finish()

        # ---- design level -------------------------------------------------------------------------
        runs = [('MC_Earley R=2 any pop order + termination', dict(R=2, L=3, pop='TRUE', prop='PROPERTY Terminates'))]
        runs.append(('MC_Earley R=3', dict(R=3, L=3, pop='FALSE', prop='')))
        if tier == 'thorough':
            runs.append(('MC_Earley R=3 L=4', dict(R=3, L=4, pop='FALSE', prop='')))
        for name, par in runs:
            res = C.tlc('MC_Earley', MC_CFG % par, timeout=3000, coverage=(par['R'] == 2))
            C.tlc_must_run(res, name)
            ev.add_tlc(name, res, 'design')
            if not res.ok:
                raise C.MachineryFailure('%s: design-level invariant %s violated - the specification itself is wrong' % (name, res.violated))
        from . import xearley_mc
        xearley_mc.run(ev, tier)

        # ---- code -> spec ------------------------------------------------------------------------
        specs = specs_family_a(tier, rng) + specs_family_rand(tier, rng) + specs_family_b(tier, rng)
        cases = C.pmap(observe_case, specs)
        ninp = 0
        for c in cases:
            for mode, con in c['construct'].items():
                ev.count('constructed')
                if con['out'] != 'ok':
                    # family grammars are well-formed BNF: any construction failure breaks the statement
                    rep.violation({'property': PID, 'family': c['family'], 'grammar': c['gtext'], 'clause': 'construction-' + con['out'],
                                   'mode': mode, 'detail': con})
            for row in c['obs']:
                ninp += 1
                for o in row:
                    ev.count('parses')
                    ev.count('accepted' if o == 0 else 'rejected')
        ev.cov['traces_validated_against_impl'] += ninp
        ev.cov['families']['F_bnf(3,3)'] = {'grammars': sum(1 for c in cases if c['family'] == 'F_bnf(3,3)'), 'exhaustive': True}
        ev.cov['families']['F_bnf(3,3)+ignore'] = {'grammars': sum(1 for c in cases if c['family'] == 'F_bnf(3,3)+ignore')}
        ev.cov['families']['F_rand'] = {'grammars': sum(1 for c in cases if c['family'] == 'F_rand')}
        ev.cov['families']['F_overlap'] = {'grammars': sum(1 for c in cases if c['family'] == 'F_overlap')}
        for c in cases[:2] + cases[-2:]:
            if c['texts']:
                ev.sample({'grammar': c['gtext'], 'text': c['texts'][-1], 'modes': c['modes'], 'observed': c['cls'][-1]})
        judge_batch(cases, ev, rep, tmp, 'sweep')

        # ---- grammars written in lark's EBNF (? * + ~n..m [..] groups, inlined and ! rules): accepted iff in the language of
        #      the grammar as written (EBNF.tla), under the three Earley lexers
        ebnf_phase(tier, rng, ev, rep, tmp)

        # ---- chart-column conformance (drift level) and binding self-test ---------------------------
        from . import earley_cols
        earley_cols.run(ev, rep, tier, rng, tmp)
        selftest(ev, cases, tmp)
        if ev.cov['counts'].get('accepted', 0) < 1000:
            raise C.MachineryFailure('vacuity: only %d accepted parses' % ev.cov['counts'].get('accepted', 0))
        ev.assumptions += ["Python's re decides which substrings a terminal matches (regex oracle)",
                           'terminals on which re\'s greedy match is not the longest match are excluded (reading of C01)',
                           'bounded families; TLC "transitions" = states generated minus initial states']
        return rep.finish()
    finally:
        shutil.rmtree(tmp, ignore_errors=True)


def ebnf_phase(tier, rng, ev, rep, tmp):
    import itertools
    from . import c03, c09, ebnf as E
    specs = []
    short = [w for k in range(0, 4) for w in itertools.product(['A', 'B', '_C', 'D'], repeat=k)]
    for i in range(C.scale(900 if tier == 'quick' else 9000)):
        G = E.rand_grammar(rng, depth=2 if i % 4 else 3)
        ins = set(rng.sample(short, 14))
        for _ in range(10):
            sn = E.sample_sentence(G, rng, maxlen=6)
            if sn is not None:
                sn = list(sn)
                ins.add(tuple(sn))
                q = rng.randrange(len(sn) + 1)
                ins.add(tuple(sn[:q] + [rng.choice(['A', 'B', '_C', 'D'])] + sn[q:]))
                if sn:
                    ins.add(tuple(sn[:q - 1] + sn[q:]))
        specs.append({'G': G, 'ka': False, 'ph': True, 'inputs': sorted(ins), 'must': True, 'family': 'F_ebnf', 'lexers': ['basic', 'dynamic', 'dynamic_complete']})
    for sp in c09.parse_specs('quick', rng):
        if max(len(w) for w in sp['inputs']) <= 12:
            specs.append(dict(sp, lexers=['basic', 'dynamic', 'dynamic_complete']))
    cases = [c for c in C.pmap(c03.observe_case, specs) if not c['skip']]
    for c in cases:
        ev.count('ebnf_grammars')
        for i in c['inputs']:
            for o in i['obs']:
                ev.count('ebnf_parses')
                ev.count('ebnf_accepted' if o['out'] == 0 else 'ebnf_rejected')
    ev.cov['families']['F_ebnf'] = {'grammars': len(cases)}
    ev.cov['traces_validated_against_impl'] += ev.cov['counts'].get('ebnf_parses', 0)
    c03.judge(PID, cases, ev, rep, tmp, 'ebnf', which='LANG')
    if ev.cov['counts'].get('ebnf_accepted', 0) < 3000:
        raise C.MachineryFailure('vacuity (EBNF family): %s' % ev.cov['counts'])


def selftest(ev, cases, tmp):
    """Binding self-test: flip one recorded outcome / turn one UnexpectedInput into another exception in a
    small copy of the batch: TLC must reject exactly those two observations."""
    import copy
    pick = [c for c in cases if c['texts'] and c['modes']][:30]
    if len(pick) < 3:
        raise C.MachineryFailure('self-test: no cases')
    mut = copy.deepcopy(pick)
    mut[1]['obs'][0][0] = 1 if mut[1]['obs'][0][0] == 0 else 0
    expect = {(2, 1)}
    rej = next(((ci, ii) for ci, c in enumerate(mut) for ii, row in enumerate(c['obs']) if row[0] == 1 and ci != 1), None)
    if rej:
        mut[rej[0]]['obs'][rej[1]][0] = 2
        expect.add((rej[0] + 1, rej[1] + 1))
    path = C.write_batch(build_batch(mut), tmp, 'selftest.json')
    res = C.tlc('TraceC01', TRACE_CFG, env={'VERIF_BATCH': path}, continue_=True, timeout=600, workers=4)
    C.tlc_must_run(res, 'selftest')
    got = {(int(v[0]), int(v[1])) for v in res.verdicts}
    ev.cov['binding_selftest']['corrupted_fields'] = len(expect)
    ev.cov['binding_selftest']['rejected'] = len(got & expect)
    if got != expect:
        raise C.MachineryFailure('binding self-test: corrupted %s, TLC rejected %s' % (sorted(expect), sorted(got)))


if __name__ == '__main__':
    C.run_check(PID, body)
