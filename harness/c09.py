"""C09 - repetition and optional operators match exactly the stated counts.

design : Repeat.tla (small_factors + helper rules abstracted to count sets) checked for all 0<=n<=m<=B (MC_Repeat);
         EBNF.tla count laws (MC_EBNF)
binding: TraceRepeat.tla: the rules lark really generated for X~n..m derive exactly n..m X's; terminal form;
         TraceTrees.tla (which=C09): accept/reject and children of parses around the bounds for x a terminal,
         group, alternative group, optional group, rule and template argument, Earley and LALR.
"""
import json
import os
import random
import shutil

from . import common as C
from . import observe as O
from . import ebnf as E
from . import c03

PID = 'C09'
TRACE_CFG = 'SPECIFICATION Spec\nINVARIANT VerdictOk\nCHECK_DEADLOCK FALSE\n'


def observe_rules(nm):
    import logging
    logging.disable(logging.CRITICAL)
    from lark import Lark
    n, m = nm
    g = 'start: X~%d..%d\nX: "x"\n' % (n, m) if n != m else 'start: X~%d\nX: "x"\n' % n
    try:
        with O.budget(60):
            p = Lark(g, parser='lalr')
    except Exception as e:
        return {'kind': 'rules', 'n': n, 'm': m, 'rules': [], 'ks': [], 'err': '%s: %s' % (type(e).__name__, str(e)[:80]), 'gtext': g}
    rules = [[str(r.origin.name), [str(s.name) for s in r.expansion]] for r in p.rules]
    return {'kind': 'rules', 'n': n, 'm': m, 'rules': rules, 'ks': [], 'err': '', 'gtext': g,
            'helpers': sorted({r[0] for r in rules if r[0] != 'start'})}


def observe_term(nm):
    import logging
    logging.disable(logging.CRITICAL)
    from lark import Lark
    n, m = nm
    g = ('start: T\nT: "x"~%d..%d\n' % (n, m)) if n != m else ('start: T\nT: "x"~%d\n' % n)
    try:
        with O.budget(60):
            p = Lark(g, parser='lalr')
    except Exception as e:
        return {'kind': 'term', 'n': n, 'm': m, 'rules': [], 'ks': [], 'err': '%s: %s' % (type(e).__name__, str(e)[:80]), 'gtext': g}
    ks = []
    for k in sorted({max(n - 1, 1), n, n + 1, (n + m) // 2, max(m - 1, 1), m, m + 1}):
        if k < 1:
            continue
        o = O.parse_outcome(p, 'x' * k, tree=False)
        ks.append([k, 1 if o['out'] == 'accept' else 0])
    return {'kind': 'term', 'n': n, 'm': m, 'rules': [], 'ks': ks, 'err': '', 'gtext': g}


def grid(tier, rng):
    hi = 120 if tier == 'quick' else 260
    pairs = set()
    for n in range(0, 61 if tier == 'quick' else 121):
        for m in range(n, 61 if tier == 'quick' else 121):
            if tier == 'thorough' or (n + m) % 3 == 0 or m - n < 3 or m in (49, 50, 51):
                pairs.add((n, m))
    for _ in range(C.scale(300 if tier == 'quick' else 3000)):
        n = rng.randint(0, hi)
        pairs.add((n, rng.randint(n, hi + 40)))
    for n in list(range(45, 75)) + [100, 127, 128, 250, 256, 300] + ([400, 511, 600] if tier == 'thorough' else []):
        pairs.add((n, n))
    return sorted(pairs)


# ---- parse level: items x and bounds, judged by the EBNF oracle -------------------------------------------
def parse_specs(tier, rng):
    T = E.tok
    items = {
        'terminal': (lambda: T('A'), ['A']),
        'anon': (lambda: T('D'), ['D']),
        'group': (lambda: E.seq([T('A'), T('B')]), ['A', 'B']),
        'altgroup': (lambda: E.alt([T('A'), T('B')]), None),
        'optgroup': (lambda: E.seq([T('A'), E.opt(T('B'))]), None),
        'rule': (lambda: E.ref('x'), None),
        'inlinerule': (lambda: E.ref('_y'), None),
    }
    out = []
    bounds = [(0, 1), (0, 2), (1, 1), (1, 2), (2, 2), (2, 3), (1, 3), (3, 3), (0, 3), (2, 4), (3, 5), (4, 4)]
    big = [(48, 49), (49, 50), (50, 50), (50, 51), (3, 60), (60, 61), (55, 70), (64, 64), (100, 100), (97, 131)]
    if tier == 'thorough':
        big += [(200, 260), (256, 256), (299, 300), (1, 300), (127, 129)]
    for kind, (mk, unit) in items.items():
        for n, m in bounds + (big if kind in ('terminal', 'anon', 'group', 'altgroup') else []):
            for opname, expr in (('rep', E.rep(mk(), n, m)),):
                rules = [{'name': 'start', 'expand1': False, 'keepall': False,
                          'alts': [{'alias': '', 'body': E.seq([E.tok('B'), expr, E.tok('_C')])}]}]
                if kind == 'rule':
                    rules.append({'name': 'x', 'expand1': False, 'keepall': False, 'alts': [{'alias': '', 'body': E.seq([T('A'), E.opt(T('D'))])}]})
                if kind == 'inlinerule':
                    rules.append({'name': '_y', 'expand1': False, 'keepall': False, 'alts': [{'alias': '', 'body': E.alt([T('A'), E.seq([T('B'), T('A')])])}]})
                G = {'rules': rules}
                ins = set()
                for k in sorted({n - 1, n, n + 1, (n + m) // 2, m - 1, m, m + 1}):
                    if k < 0:
                        continue
                    for _ in range(3 if unit is None else 1):
                        body = []
                        for _j in range(k):
                            if unit is not None:
                                body += unit
                            elif kind == 'altgroup':
                                body += [rng.choice(['A', 'B'])]
                            elif kind == 'optgroup':
                                body += ['A'] + (['B'] if rng.random() < 0.5 else [])
                            elif kind == 'rule':
                                body += ['A'] + (['D'] if rng.random() < 0.5 else [])
                            elif kind == 'inlinerule':
                                body += rng.choice([['A'], ['B', 'A']])
                        ins.add(tuple(['B'] + body + ['_C']))
                out.append({'G': G, 'ka': False, 'ph': True, 'inputs': sorted(ins), 'must': True, 'family': 'F_rep/' + kind})
    # ? * + on the same items
    for kind, (mk, unit) in items.items():
        for expr in (E.opt(mk()), E.rep(mk(), 0, -1), E.rep(mk(), 1, -1)):
            rules = [{'name': 'start', 'expand1': False, 'keepall': False, 'alts': [{'alias': '', 'body': E.seq([E.tok('B'), expr, E.tok('_C')])}]}]
            if kind == 'rule':
                rules.append({'name': 'x', 'expand1': False, 'keepall': False, 'alts': [{'alias': '', 'body': E.seq([T('A'), E.opt(T('D'))])}]})
            if kind == 'inlinerule':
                rules.append({'name': '_y', 'expand1': False, 'keepall': False, 'alts': [{'alias': '', 'body': E.alt([T('A'), E.seq([T('B'), T('A')])])}]})
            ins = set()
            for k in range(0, 5):
                body = []
                for _j in range(k):
                    body += unit if unit is not None else {'altgroup': [rng.choice(['A', 'B'])], 'optgroup': ['A'], 'rule': ['A', 'D'], 'inlinerule': ['B', 'A']}[kind]
                ins.add(tuple(['B'] + body + ['_C']))
            out.append({'G': {'rules': rules}, 'ka': False, 'ph': True, 'inputs': sorted(ins), 'must': True, 'family': 'F_rep/' + kind})
    return out


def template_cases():
    """x a template argument: start: B rep{A} _C ;  rep{x}: x~2..3   (observed directly; expected by the count law)"""
    out = []
    from itertools import product
    for n, m in ((1, 2), (2, 3), (0, 2), (3, 3)):
        g = 'start: B rp{A} _C\nrp{x}: x~%d..%d\nA: "a"\nB: "b"\n_C: "c"\n' % (n, m)
        out.append((g, n, m))
    return out


def observe_template(spec):
    import logging
    logging.disable(logging.CRITICAL)
    from lark import Lark
    g, n, m = spec
    ks = []
    for parser in ('earley', 'lalr'):
        p = Lark(g, parser=parser)
        for k in range(0, m + 3):
            o = O.parse_outcome(p, 'b' + 'a' * k + 'c')
            ok = o['out'] == 'accept'
            if ok:
                # children: B, then the template node with exactly k A's
                tr = o['tree']
                flat = json.dumps(tr).count('"A"')
                ok = flat == k
            ks.append([k, 1 if ok else 0])
    return {'kind': 'term', 'n': n, 'm': m, 'rules': [], 'ks': ks, 'err': '', 'gtext': g}


# ---- repetition operators inside terminals: the language of the pattern lark compiles ------------------------------
LIT = {'A': '"a"', 'B': '"b"', '_C': '"c"', 'D': '"d"'}


RX_ALTS = [False]


def term_text(e):
    """the expression written as the body of a terminal (string literals for the tokens)"""
    k = e['k']
    if k == 'tok':
        return LIT[e['name']]
    if k == 'seq':
        return ' '.join(term_text(x) for x in e['items'])
    if k == 'alt':
        if RX_ALTS[0] and all(x['k'] == 'tok' for x in e['alts']):
            # the same alternation written by the user as ONE regexp with a top-level | (hunted defect 45: concatenation
            # joined such a regexp to its neighbours without grouping - /a|b/ "c" became a|bc)
            return '/%s/' % '|'.join(LIT[x['name']].strip('"') for x in e['alts'])
        return '(' + ' | '.join(term_text(x) for x in e['alts']) + ')'
    w = term_text(e['x']) if e['x']['k'] in ('tok', 'alt', 'maybe') else '(' + term_text(e['x']) + ')'
    if k == 'opt':
        return w + '?'
    if k == 'maybe':
        return '[' + term_text(e['x']) + ']'
    if e['m'] < 0:
        return w + ('*' if e['n'] == 0 else '+')
    return w + ('~%d' % e['n'] if e['n'] == e['m'] else '~%d..%d' % (e['n'], e['m']))


def min_len(e):
    k = e['k']
    if k == 'tok':
        return 1
    if k == 'seq':
        return sum(min_len(x) for x in e['items'])
    if k == 'alt':
        return min(min_len(x) for x in e['alts'])
    if k in ('opt', 'maybe'):
        return 0
    return e['n'] * min_len(e['x'])


def nullable_unbounded(e):
    """x* / x+ over a nullable x: a derivation cycle in rule terms - the oracle enumerates derivations and leaves these out"""
    if e['k'] == 'rep' and e['m'] < 0 and min_len(e['x']) == 0:
        return True
    return any(nullable_unbounded(x) for x in e.get('items', []) + e.get('alts', []) + ([e['x']] if 'x' in e else []))


def termexpr_specs(tier, rng):
    T = E.tok
    ab, cd = E.alt([T('A'), T('B')]), E.alt([T('_C'), T('D')])
    directed = [E.rep(E.seq([ab, cd]), 2, 3), E.rep(ab, 2, 2), E.rep(E.seq([ab, cd]), 1, -1), E.rep(E.seq([T('A'), E.opt(T('B'))]), 2, 3),
                E.rep(E.alt([T('A'), E.seq([T('A'), T('B')])]), 1, 2), E.rep(E.rep(T('A'), 1, 2), 2, 2), E.seq([E.rep(ab, 0, 2), T('_C')]),
                E.rep(E.seq([E.opt(T('A')), cd]), 1, 3), E.opt(E.seq([ab, ab])), E.rep(E.seq([ab, E.rep(cd, 0, -1)]), 2, 2),
                E.rep(E.seq([E.rep(T('A'), 1, -1), T('B')]), 0, 2), E.seq([ab, E.rep(E.seq([cd, ab]), 1, 2)])]
    exprs = list(directed)
    for _ in range(C.scale(700 if tier == 'quick' else 7000)):
        exprs.append(E.rand_expr(rng, [], 3))
    import itertools
    short = [w for k in range(0, 4) for w in itertools.product(['A', 'B', '_C', 'D'], repeat=k)]
    out = []
    for e in exprs:
        if nullable_unbounded(e):
            continue
        wrapped = min_len(e) == 0          # a terminal may not match the empty string: anchor it between two literals
        body = E.seq([T('B'), e, T('_C')]) if wrapped else e
        G = {'rules': [{'name': 'start', 'expand1': False, 'keepall': False, 'alts': [{'alias': '', 'body': body}]}]}
        ins = set(rng.sample(short, 40))
        for _ in range(25):
            sn = E.sample_sentence(G, rng, maxlen=9)
            if sn is not None:
                sn = list(sn)
                ins.add(tuple(sn))
                if len(sn) > 1:                       # near misses: drop / duplicate / change one symbol
                    q = rng.randrange(len(sn))
                    ins.add(tuple(sn[:q] + sn[q + 1:]))
                    ins.add(tuple(sn[:q] + [sn[q]] + sn[q:]))
                    ins.add(tuple(sn[:q] + [rng.choice(['A', 'B', '_C', 'D'])] + sn[q + 1:]))
        out.append({'G': G, 'gtext': 'start: T\nT: %s\n' % term_text(body), 'inputs': sorted(ins), 'family': 'F_termexpr'})
        RX_ALTS[0] = True
        try:
            rx = 'start: T\nT: %s\n' % term_text(body)
        finally:
            RX_ALTS[0] = False
        if rx != out[-1]['gtext']:
            out.append({'G': G, 'gtext': rx, 'inputs': sorted(ins), 'family': 'F_termexpr'})
    return out


def observe_termexpr(spec):
    """per input: does the pattern lark compiled for T match the whole text (exact language), does the parser accept (sound)"""
    import logging
    import re
    logging.disable(logging.CRITICAL)
    from lark import Lark
    from lark.exceptions import UnexpectedInput
    case = {'gtext': spec['gtext'], 'G': E.grammar_json(spec['G'], False, False), 'ka': False, 'ph': False, 'inputs': [], 'skip': '', 'cyclic': False,
            'family': spec['family'], 'spec': spec}
    try:
        with O.budget(30):
            p = Lark(spec['gtext'], parser='lalr')
        pat = re.compile(next(t for t in p.terminals if t.name == 'T').pattern.to_regexp())
    except Exception as ex:
        case['skip'] = '%s: %s' % (type(ex).__name__, str(ex)[:60])
        return case
    case['regexp'] = pat.pattern
    for w in spec['inputs']:
        text = E.to_text(w)
        obs = [{'cfg': 'terminal-pattern', 'out': 0 if pat.fullmatch(text) else 1, 'tree': ['N', '', 0, []], 'must': True}]
        try:
            with O.budget(20):
                p.parse(text)
            obs.append({'cfg': 'lalr/contextual', 'out': 0, 'tree': ['N', '', 0, []], 'must': False})
        except UnexpectedInput:
            obs.append({'cfg': 'lalr/contextual', 'out': 1, 'tree': ['N', '', 0, []], 'must': False})
        except (Exception, O.Hang) as ex:
            obs.append({'cfg': 'lalr/contextual', 'out': 2, 'tree': ['N', '', 0, []], 'must': False, 'exc': type(ex).__name__})
        case['inputs'].append({'w': list(w), 'obs': obs, 'exp': [], 'text': text})
    return case


def body(tier, seed, replay):
    ev = C.Evidence(PID, tier, seed)
    rep = C.Reporter(PID, ev)
    rng = random.Random(seed)
    tmp = C.scratch_dir('c09_')
    try:
        if replay:
            case = json.load(open(replay))
            if 'spec' in case and case.get('family') == 'F_termexpr':
                sp = case['spec']
                sp['inputs'] = [tuple(w) for w in sp['inputs']]
                c03.judge(PID, [observe_termexpr(sp)], ev, rep, tmp, 'replay', which='LANG')
            elif 'spec' in case:
                sp = case['spec']
                sp['inputs'] = [tuple(w) for w in sp['inputs']]
                c03.judge(PID, [c03.observe_case(sp)], ev, rep, tmp, 'replay')
            else:
                got = (observe_rules if case['kind'] == 'rules' else observe_term)((case['n'], case['m']))
                judge_rules([got], ev, rep, tmp)
            return rep.finish()
        B = 150 if tier == 'quick' else 400
        res = C.tlc('MC_Repeat', 'SPECIFICATION Spec\nCONSTANT B = %d\nINVARIANT FactorsRefold\nINVARIANT CountsExact\nINVARIANT LoopInvariant\nCHECK_DEADLOCK FALSE\n' % B, timeout=3000)
        C.tlc_must_run(res, 'MC_Repeat')
        ev.add_tlc('MC_Repeat B=%d' % B, res, 'design')
        if not res.ok:
            raise C.MachineryFailure('MC_Repeat: %s violated' % res.violated)
        res = C.tlc('MC_EBNF', 'SPECIFICATION Spec\nINVARIANT KnownAnswers\nINVARIANT CountsExact\nCHECK_DEADLOCK FALSE\n', timeout=1800)
        C.tlc_must_run(res, 'MC_EBNF')
        ev.add_tlc('MC_EBNF', res, 'design')
        if not res.ok:
            raise C.MachineryFailure('MC_EBNF: %s violated' % res.violated)
        pairs = grid(tier, rng)
        cases = C.pmap(observe_rules, pairs) + C.pmap(observe_term, [p for p in pairs if p[0] >= 1 and (p[0] + p[1]) % 2 == 0][:C.scale(500)])
        cases += [observe_template(s) for s in template_cases()]
        for c in cases:
            ev.count('bounds_' + c['kind'])
            if c['err']:
                rep.violation({'property': PID, 'clause': 'construction-failed', 'grammar': c['gtext'], 'detail': c['err'], 'kind': c['kind'], 'n': c['n'], 'm': c['m']})
        judge_rules([c for c in cases if not c['err']], ev, rep, tmp)
        pcases = [c for c in C.pmap(c03.observe_case, parse_specs(tier, rng)) if not c['skip']]
        for c in pcases:
            ev.count('parse_grammars')
            for i in c['inputs']:
                for o in i['obs']:
                    ev.count('parses')
                    ev.count('accepted' if o['out'] == 0 else 'rejected')
        ev.cov['traces_validated_against_impl'] = len(cases) + ev.cov['counts'].get('parses', 0)
        c = pcases[3]
        ev.sample({'grammar': c['gtext'], 'text': E.to_text(c['inputs'][1]['w']), 'observed': c['inputs'][1]['obs'][:2]})
        ev.sample({'bounds': [cases[40]['n'], cases[40]['m']], 'helper_rules': cases[40].get('helpers')})
        c03.judge(PID, pcases, ev, rep, tmp, 'parse')
        tcases = C.pmap(observe_termexpr, termexpr_specs(tier, rng))
        for c in tcases:
            ev.count('termexpr_skipped' if c['skip'] else 'termexpr_terminals')
            for i in c['inputs']:
                ev.count('termexpr_texts')
                ev.count('termexpr_texts_matched', i['obs'][0]['out'] == 0)
        tcases = [c for c in tcases if not c['skip']]
        ev.sample({'terminal': tcases[0]['gtext'], 'compiled': tcases[0]['regexp']})
        c03.judge(PID, tcases, ev, rep, tmp, 'termexpr', which='LANG')
        if ev.cov['counts'].get('termexpr_texts_matched', 0) < 2000:
            raise C.MachineryFailure('vacuity: %s' % ev.cov['counts'])
        if ev.cov['counts'].get('accepted', 0) < 500:
            raise C.MachineryFailure('vacuity: %s' % ev.cov['counts'])
        ev.assumptions += ['negative bounds are outside the statement; inside terminals only terminals that cannot match the empty string']
        return rep.finish()
    finally:
        shutil.rmtree(tmp, ignore_errors=True)


def judge_rules(cases, ev, rep, tmp):
    CH = 600
    jobs = []
    for off in range(0, len(cases), CH):
        chunk = cases[off:off + CH]
        jobs.append((chunk, C.write_batch({'cases': [{k: c[k] for k in ('kind', 'n', 'm', 'rules', 'ks')} for c in chunk]}, tmp, 'c09_%d.json' % off)))
    results = C.tlc_parallel('TraceRepeat', TRACE_CFG, [j[1] for j in jobs], continue_=True, timeout=3000)
    for (chunk, path), res in zip(jobs, results):
        C.tlc_must_run(res, 'TraceRepeat')
        ev.add_tlc('TraceRepeat', res, 'trace')
        os.remove(path)
        if res.violated and not res.verdicts:
            raise C.MachineryFailure('TraceRepeat violation without VERDICT line')
        for v in sorted(set(tuple(x) for x in res.verdicts)):
            c = chunk[int(v[0]) - 1]
            rep.violation({'property': PID, 'clause': v[2], 'grammar': c['gtext'], 'kind': c['kind'], 'n': c['n'], 'm': c['m'],
                           'observed': c['ks'] or c['rules'][:12]})


if __name__ == '__main__':
    C.run_check(PID, body)
