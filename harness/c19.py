"""C19 - Reconstructor output re-parses to the same tree.

design : Reconstruct.tla: the supported class as a predicate over the parser's compiled rules (filtered terminals
         writable, every alternative keeps an unfiltered symbol other than the rule itself, no useless rules,
         placeholders off, unambiguous) and the space-insertion law of reconstruct()
binding: TraceRecon.tla: for random EBNF grammars (whitespace ignored, string and regexp terminals incl. ones that start
         with a non-identifier and end with an identifier character) every parse tree of sampled inputs goes through
         the real Reconstructor; TLC evaluates Supported and judges blank positions and the round trip.
"""
import itertools
import json
import os
import random
import shutil

from . import common as C
from . import observe as O
from . import ebnf as E

PID = 'C19'
TRACE_CFG = 'SPECIFICATION Spec\nINVARIANT VerdictOk\nCHECK_DEADLOCK FALSE\n'
TERM_DEFS = 'A: "a"\nB: "b"\n_C: "c"\nNAME: /[e-z]+/\nNEG: /-[0-9]+/\nNUM: /[0-9]+/\nVAR: /\\$[e-z]+/\n%ignore " "\n'
SPELL = {'A': ['a'], 'B': ['b'], '_C': ['c'], 'D': ['d'], 'NAME': ['xy', 'if', 'e'], 'NEG': ['-7', '-12'], 'NUM': ['6', '80'], 'VAR': ['$x', '$fg']}
ATOMS = ['A', 'B', '_C', 'D', 'NAME', 'NEG', 'NUM', 'VAR', 'NAME', 'NUM']


def rand_expr(rng, names, depth):
    atoms = [E.tok(t) if t in ('A', 'B') else {'k': 'tok', 'name': t, 'keep': t not in ('_C', 'D')} for t in ATOMS] + [E.ref(n) for n in names]
    if depth <= 0 or rng.random() < 0.3:
        return rng.choice(atoms)
    k = rng.choice(['seq', 'seq', 'seq', 'alt', 'opt', 'maybe', 'star', 'plus'])
    if k == 'seq':
        return E.seq([rand_expr(rng, names, depth - 1) for _ in range(rng.choice([2, 2, 3]))])
    if k == 'alt':
        return E.alt([rand_expr(rng, names, depth - 1) for _ in range(2)])
    if k == 'opt':
        return E.opt(rand_expr(rng, names, depth - 1))
    if k == 'maybe':
        return E.maybe(rand_expr(rng, names, depth - 1))
    return E.rep(rand_expr(rng, names, depth - 1), 0 if k == 'star' else 1, -1)


def rand_grammar(rng):
    others = rng.sample(['x', '_y', 'z', 'k'], rng.choice([0, 1, 1, 2]))
    rules = []
    for i, name in enumerate(['start'] + others):
        usable = others[i:] if name == 'start' else others[i:]      # later rules only
        usable = [n for n in usable if n != name]
        alts = []
        for _ in range(rng.choice([1, 1, 2])):
            alts.append({'alias': '' if name.startswith('_') else rng.choice(['', '', '', 'al%d_%s' % (len(alts), name.strip('_')), 'al%d_%s' % (len(alts), name.strip('_')), 'alx']),
                         'body': rand_expr(rng, usable, 2)})
        rules.append({'name': name, 'expand1': name == 'z', 'keepall': name == 'k', 'alts': alts})
    used = set()

    def walk(e):
        if e['k'] == 'rule':
            used.add(e['name'])
        for x in e.get('items', []) + e.get('alts', []):
            walk(x)
        if 'x' in e:
            walk(e['x'])
    for r in rules:
        for a in r['alts']:
            walk(a['body'])
    for n in others:
        if n not in used:
            rules[0]['alts'][0]['body'] = E.seq([rules[0]['alts'][0]['body'], E.ref(n)])
    return {'rules': rules, 'term_defs': TERM_DEFS}


def observe_case(spec):
    import logging
    logging.disable(logging.CRITICAL)
    from lark import Lark
    from lark.reconstruct import Reconstructor
    from lark.exceptions import UnexpectedInput
    from lark.utils import is_id_continue
    G = spec.get('G')
    gtext = spec['gtext'] if 'gtext' in spec else E.grammar_text(G)
    case = {'gtext': gtext, 'skip': '', 'trees': [], 'spec': spec, 'ph': False, 'start': 'start', 'written_ok': True}
    try:
        with O.budget(30):
            p = Lark(gtext, parser='lalr', maybe_placeholders=False)
    except Exception as e:
        case['skip'] = type(e).__name__
        return case
    try:
        Lark(gtext, parser='lalr', maybe_placeholders=False, strict=True)
        case['unambiguous'] = True
    except Exception:
        case['unambiguous'] = False
    tdefs = {t.name: t for t in p.terminals}
    rules = []
    for r in p.rules:
        rhs = []
        for s in r.expansion:
            filt = bool(getattr(s, 'filter_out', False)) if s.is_term else False
            isstr = s.is_term and s.name in tdefs and type(tdefs[s.name].pattern).__name__ == 'PatternStr'
            rhs.append({'name': str(s.name), 'isterm': bool(s.is_term), 'filtered': filt, 'isstr': bool(isstr), 'inlined': (not s.is_term) and str(s.name).startswith('_')})
        rules.append({'lhs': str(r.origin.name), 'rhs': rhs, 'expand1': bool(r.options.expand1)})
    case['rules'] = rules
    try:
        rec = Reconstructor(p)
    except Exception as e:
        case['skip'] = 'Reconstructor: ' + type(e).__name__
        return case
    for text in spec['texts']:
        try:
            tree = p.parse(text)
        except UnexpectedInput:
            continue
        if not hasattr(tree, 'children'):
            continue
        items, raised, same, blanks = [], '', False, []
        try:
            with O.budget(20):
                def post(xs):
                    for x in xs:
                        items.append(str(x))
                        yield x
                out = rec.reconstruct(tree, postproc=post)
                # one Reconstructor serves many trees: what it writes for a tree may not depend on the trees it saw before
                fresh = Reconstructor(p).reconstruct(tree, postproc=lambda xs: xs)
                if fresh != out:
                    case['history_dependent'] = case.get('history_dependent', []) + [[text, out, fresh]]
            pos = 0
            for i, it in enumerate(items):
                pos += len(it)
                if i + 1 < len(items) and out[pos:pos + 1] == ' ' and not items[i + 1].startswith(' '):
                    blanks.append(i + 1)
                    pos += 1
            try:
                same = p.parse(out) == tree
            except UnexpectedInput:
                same = False
        except Exception as e:
            raised = type(e).__name__
        case['trees'].append({'same': bool(same), 'raised': raised, 'blanks': blanks, 'text': text, 'out': out if not raised else '',
                              'items': [{'first': bool(it) and is_id_continue(it[0]), 'last': bool(it) and is_id_continue(it[-1])} for it in items]})
    # the matching grammar of the real TreeMatcher AFTER it served all the trees (internal projection, judged against
    # Matcher.tla at drift level: it is a function of the parser's rules alone, whatever was matched before)
    try:
        def msym(x):
            return ('t:' if x.is_term else '') + str(x.name)
        case['matcher'] = {
            'g': [{'lhs': str(r.origin.name), 'rhs': [str(x.name) for x in r.expansion], 'origin': str(r.origin.name), 'alias': str(r.alias or ''),
                   'label': str(r.alias or r.origin.name), 'hasalias': bool(r.alias), 'expand1': bool(r.options.expand1), 'keepall': bool(r.options.keep_all_tokens),
                   'helper': str(r.origin.name).startswith('_'), 'empty': [],
                   'syms': [{'name': str(x.name), 'isterm': bool(x.is_term), 'filter_out': bool(getattr(x, 'filter_out', False)) if x.is_term else False,
                             'inl': (not x.is_term) and str(x.name).startswith('_')} for x in r.expansion]} for r in p.rules],
            'general': [{'lhs': str(r.origin.name), 'rhs': [msym(x) for x in r.expansion]} for r in rec.rules],
            'roots': [{'label': str(lbl), 'lhs': str(r.origin.name), 'rhs': [msym(x) for x in r.expansion]} for lbl, rs in rec.rules_for_root.items() for r in rs]}
    except Exception as e:
        raise C.MachineryFailure('cannot read the matching rules of the TreeMatcher: %s' % e)
    return case


def sample_text(G, rng):
    s = E.sample_sentence(G, rng, maxlen=7)
    if s is None:
        return None
    return ' '.join(rng.choice(SPELL[t]) for t in s)


def specs(tier, rng):
    out = []
    for _ in range(C.scale(2500 if tier == 'quick' else 25000)):
        G = rand_grammar(rng)
        texts = set()
        for _ in range(12):
            t = sample_text(G, rng)
            if t is not None:
                texts.add(t)
        out.append({'G': G, 'texts': sorted(texts)})
    # corpus: an alias name shared by alternatives of two different rules (DESIGN section 7, item 9)
    A = E.tok('A')
    C_ = {'k': 'tok', 'name': '_C', 'keep': False}
    D_ = {'k': 'tok', 'name': 'D', 'keep': False}
    G = {'rules': [{'name': 'start', 'expand1': False, 'keepall': False,
                    'alts': [{'alias': 'al0', 'body': E.ref('x')}, {'alias': 'al1', 'body': E.seq([D_, E.alt([A, E.seq([A, A])])])}]},
                   {'name': 'x', 'expand1': False, 'keepall': False, 'alts': [{'alias': '', 'body': E.seq([A, C_])}, {'alias': 'al1', 'body': A}]}],
         'term_defs': TERM_DEFS}
    out.append({'G': G, 'texts': ['a', 'a c', 'd a', 'd a a']})
    # corpus: expression / call grammars whose statements are reconstructed one after the other by the same Reconstructor, in
    # every order (the matcher keeps state between trees)
    EXPR = ('start: stmt+\nstmt: NAME "=" sum ";" | call ";"\ncall: NAME "(" (sum ("," sum)*)? ")"\n?sum: product | sum "+" product\n'
            '?product: atom | product "*" atom\n?atom: NUM | NAME | call | "(" sum ")"\nNAME: /[e-z]+/\nNUM: /[0-9]+/\n%ignore " "\n')
    stmts = ['x = e + f ;', 'g ( e , f , h ) ;', 'y = e * f + 2 ;', 'k ( ) ;', 'z = ( e + f ) * g ( h , 1 ) ;', 'm ( e + f , g * h , i , j ) ;', 'w = q ;']
    import itertools
    orders = list(itertools.permutations(range(len(stmts)), 3))
    rng.shuffle(orders)
    for o in orders[:C.scale(60 if tier == 'quick' else 210)]:
        out.append({'gtext': EXPR, 'texts': [stmts[i] for i in o] + [' '.join(stmts[i] for i in o)], 'ordered': True})
    return out


def known_matcher(fnd, case):
    if fnd.get('match', {}).get('kind') == 'expand1-over-inlined':
        return case.get('clause', '').endswith('@expand1-over-inlined')
    if fnd.get('match', {}).get('kind') == 'alias-shared-by-rules':
        return case.get('clause') == 'reconstructed-text-does-not-parse-to-the-same-tree' and case.get('alias_shared')
    return False


def alias_shared(G):
    seen = {}
    for r in G['rules']:
        for a in r['alts']:
            if a['alias']:
                seen.setdefault(a['alias'], set()).add(r['name'])
    names = {r['name'] for r in G['rules']}
    return any(len(v) > 1 for v in seen.values()) or any(k in names for k in seen)


def judge(cases, ev, rep, tmp, name):
    CH = 500
    jobs = []
    keys = ('rules', 'ph', 'start', 'unambiguous', 'written_ok')
    for off in range(0, len(cases), CH):
        chunk = cases[off:off + CH]
        batch = {'cases': [dict({k: c[k] for k in keys}, trees=[{k: t[k] for k in ('same', 'raised', 'blanks', 'items')} for t in c['trees']]) for c in chunk]}
        jobs.append((chunk, C.write_batch(batch, tmp, 'c19_%s_%d.json' % (name, off))))
    results = C.tlc_parallel('TraceRecon', TRACE_CFG, [j[1] for j in jobs], continue_=True, timeout=3000)
    for (chunk, path), res in zip(jobs, results):
        C.tlc_must_run(res, 'TraceRecon')
        ev.add_tlc('TraceRecon:%s' % name, res, 'trace')
        os.remove(path)
        if res.violated and not res.verdicts:
            raise C.MachineryFailure('TraceRecon violation without VERDICT line')
        for v in sorted(set(tuple(x) for x in res.verdicts)):
            c = chunk[int(v[0]) - 1]
            t = c['trees'][int(v[1]) - 1]
            sp = dict(c['spec'])
            if not sp.get('ordered'):                 # ordered corpora: the earlier trees are part of the failing history
                sp['texts'] = [t['text']]
            rep.violation({'property': PID, 'clause': v[2], 'grammar': c['gtext'], 'text': t['text'], 'reconstructed': t['out'], 'raised': t['raised'],
                           'alias_shared': alias_shared(c['spec']['G']) if 'G' in c['spec'] else False, 'spec': sp})


def judge_matcher(cases, ev, tmp):
    """TreeMatcher's rules against Matcher.tla (drift level)"""
    ms = [c for c in cases if c.get('matcher') and not any(r['keepall'] for r in c['matcher']['g'])]
    paths = []
    CH = 700
    for off in range(0, len(ms), CH):
        paths.append(C.write_batch({'cases': [c['matcher'] for c in ms[off:off + CH]]}, tmp, 'c19_matcher_%d.json' % off))
    results = C.tlc_parallel('TraceMatcher', TRACE_CFG, paths, continue_=True, timeout=3000)
    drift = []
    for pi, res in enumerate(results):
        C.tlc_must_run(res, 'TraceMatcher')
        ev.add_tlc('TraceMatcher', res, 'trace')
        os.remove(paths[pi])
        for v in sorted(set(tuple(x) for x in res.verdicts)):
            c = ms[pi * CH + int(v[0]) - 1]
            drift.append({'clause': v[2], 'grammar': c['gtext']})
    ev.count('matcher_rule_sets_compared', len(ms))
    ev.cov['drift'] = ev.cov.get('drift', 0) + len(drift)
    ev.cov['drift_samples'] = ev.cov.get('drift_samples', []) + drift[:3]
    if drift:
        print('DRIFT property=%s the matching rules of %d TreeMatcher(s) differ from Matcher.tla (not a violation by itself; first: %s)'
              % (PID, len(drift), json.dumps(drift[0])[:300]))
    return drift


def design(ev, tier):
    """MC_Matcher: every node the parser builds is matched, by root rules of its own rule - except the two known gaps, which
    TLC must find when the exemptions are taken out"""
    cfg = 'SPECIFICATION Spec\nCONSTANT MaxLen = %d\n%s\nCHECK_DEADLOCK FALSE\n'
    L = 4 if tier == 'quick' else 5
    res = C.tlc('MC_Matcher', cfg % (L, 'INVARIANT Matchable\nINVARIANT OriginExact\nINVARIANT ExemptionsAreTheKnownGaps'), timeout=3000)
    C.tlc_must_run(res, 'MC_Matcher')
    ev.add_tlc('MC_Matcher MaxLen=%d' % L, res, 'design')
    if not res.ok:
        raise C.MachineryFailure('MC_Matcher: %s violated' % res.violated)
    for inv, key in (('MatchableNoExemption', 'model_finds_expand1_over_inlined'), ('OriginExactNoExemption', 'model_finds_alias_shared')):
        r2 = C.tlc('MC_Matcher', cfg % (4, 'INVARIANT ' + inv), timeout=900, workers=4)
        C.tlc_must_run(r2, 'MC_Matcher ' + inv)
        ev.cov['binding_selftest'][key] = bool(r2.violated)
        if not r2.violated:
            raise C.MachineryFailure('MC_Matcher does not find the known gap (%s): the model is vacuous' % inv)


def body(tier, seed, replay):
    ev = C.Evidence(PID, tier, seed)
    rep = C.Reporter(PID, ev, known_matcher)
    rng = random.Random(seed)
    tmp = C.scratch_dir('c19_')
    try:
        if replay:
            case = json.load(open(replay))
            judge([observe_case(case['spec'])], ev, rep, tmp, 'replay')
            return rep.finish()
        design(ev, tier)
        cases = [c for c in C.pmap(observe_case, specs(tier, rng)) if not c['skip']]
        for c in cases:
            ev.count('grammars')
            ev.count('unambiguous_grammars', 1 if c['unambiguous'] else 0)
            ev.count('trees', len(c['trees']))
            ev.count('trees_written_differently_by_a_fresh_reconstructor', len(c.get('history_dependent', [])))
            ev.count('ordered_histories', 1 if c['spec'].get('ordered') else 0)
            ev.count('round_trips_ok', sum(1 for t in c['trees'] if t['same']))
            ev.count('blanks_inserted', sum(len(t['blanks']) for t in c['trees']))
        ev.cov['traces_validated_against_impl'] = ev.cov['counts'].get('trees', 0)
        c = next(c for c in cases if c['unambiguous'] and c['trees'])
        ev.sample({'grammar': c['gtext'], 'text': c['trees'][0]['text'], 'reconstructed': c['trees'][0]['out']})
        judge(cases, ev, rep, tmp, 'sweep')
        judge_matcher(cases, ev, tmp)
        # how many trees were inside the supported class is what TLC decided: count from the verdict details is not available; recompute cheaply
        if ev.cov['counts'].get('trees', 0) < 5000:
            raise C.MachineryFailure('vacuity: %s' % ev.cov['counts'])
        ev.assumptions += ['unambiguity established by LALR construction with strict=True', 'whitespace is the only ignored terminal; tokens never contain blanks']
        return rep.finish()
    finally:
        shutil.rmtree(tmp, ignore_errors=True)


if __name__ == '__main__':
    C.run_check(PID, body)
