"""C15 - input representation does not matter: str, bytes and TextSlice agree.

design : the window/representation parameters of Lexer.tla (LcAt: a counter positioned at the window start; match tables
         over [a,b)) and MC_LineCounter (every window start); L0: results are those of the extracted substring shifted
         by the window start, coordinates those of the buffer
binding: TraceLex.tla (which=C06 machinery, mode repr): for every grammar / buffer / window / representation the
         flattened result (tokens and nodes in pre-order, with offsets, lines, columns, meta) of the real parse is
         compared with the real parse of the extracted substring as str, shifted, and with Coord over the buffer.
"""
import json
import os
import random
import shutil

from . import common as C
from . import observe as O
from . import lexfam as L
from . import c06
from . import c07

PID = 'C15'
ALPHA = 'ab \n1+('


def flatten(t, out):
    from lark import Tree, Token
    if isinstance(t, Token):
        v = t.value.decode('latin1') if isinstance(t.value, bytes) else str(t.value)
        out.append(['T:%s:%s' % (t.type, v), t.start_pos, t.end_pos])
    elif isinstance(t, Tree):
        m = t.meta
        out.append(['R:%s' % t.data, -1 if m.empty else m.start_pos, -1 if m.empty else m.end_pos])
        for c in t.children:
            flatten(c, out)
    elif t is None:
        out.append(['N', -1, -1])
    return out


def err4(e):
    from lark.exceptions import UnexpectedInput
    if e is None:
        return ['', -1, 0, 0]
    if isinstance(e, UnexpectedInput):
        pos = e.pos_in_stream if isinstance(e.pos_in_stream, int) else -1
        return [type(e).__name__, pos, e.line if isinstance(e.line, int) and e.line > 0 else 0, e.column if isinstance(e.column, int) and e.column > 0 else 0]
    return ['EXC:' + type(e).__name__, -1, 0, 0]


def observe_case(spec):
    import logging
    logging.disable(logging.CRITICAL)
    from lark import Lark, Tree, Token
    from lark.utils import TextSlice
    tg = spec['tree_grammar']
    case = {'skip': '', 'runs': [], 'spec': spec, 'gtext': tg, 'family': spec.get('family', 'F_win'), 'T': [], 'rank': {}, 'SM': [], 'order': []}
    cfgs = [('lalr/basic', 'lalr', 'basic'), ('lalr/contextual', 'lalr', 'contextual'), ('earley/basic', 'earley', 'basic'),
            ('earley/dynamic', 'earley', 'dynamic'), ('earley/dynamic_complete', 'earley', 'dynamic_complete')]
    for cfgname, parser, lexer in cfgs:
        try:
            with O.budget(30):
                kw1, kw2 = ({'postlex': tree_indenter()}, {'postlex': tree_indenter()}) if spec.get('postlex') else ({}, {})
                ps = Lark(tg, parser=parser, lexer=lexer, propagate_positions=True, **kw1)
                pb = Lark(tg, parser=parser, lexer=lexer, propagate_positions=True, use_bytes=True, **kw2)
        except Exception:
            continue
        dyn = 'dynamic' in lexer
        for buf, a, b in spec['windows']:
            sub = buf[a:b]
            # reference: the extracted substring as str
            ref, referr = [], None
            try:
                with O.budget(20):
                    ref = flatten(ps.parse(sub), [])
            except Exception as e:
                referr = e
            variants = [('bytes-substring', pb, sub.encode('latin1'), 0, sub)]
            if dyn and a == 0 and b == len(buf):
                # the dynamic lexers take a slice only if it is the complete text
                variants.append(('complete-slice', ps, TextSlice(buf, 0, len(buf)), 0, buf))
                variants.append(('bytes-complete-slice', pb, TextSlice(buf.encode('latin1'), 0, len(buf)), 0, buf))
            if not dyn:
                variants.append(('slice', ps, TextSlice(buf, a, b), a, buf))
                variants.append(('bytes-slice', pb, TextSlice(buf.encode('latin1'), a, b), a, buf))
                if b < len(buf) and a > 0:
                    variants.append(('negative-slice', ps, TextSlice(buf, a - len(buf), b - len(buf)), a, buf))
            for vname, p, arg, shift, whole in variants:
                var, varerr, toks, nodes = [], None, [], []
                try:
                    with O.budget(20):
                        t = p.parse(arg)
                    var = flatten(t, [])
                    data = whole.encode('latin1') if 'bytes' in vname else whole
                    if isinstance(t, Tree):
                        toks, _nodes = c06.flatten(t, None, data)
                        # node metas as pseudo token rows: their line/column must be Coord of their offsets in the buffer
                        for sub_t in t.iter_subtrees():
                            m = sub_t.meta
                            if not m.empty:
                                toks.append([0, m.start_pos, m.end_pos, m.line, m.column, m.end_line, m.end_column, True])
                except Exception as e:
                    varerr = e
                # an unexpected $END when no token was produced carries the default coordinates (0, line 1, column 1)
                endnotoken = (getattr(getattr(varerr, 'token', None), 'type', '') == '$END' and getattr(varerr, 'pos_in_stream', None) == 0
                              and getattr(varerr, 'line', None) == 1 and getattr(varerr, 'column', None) == 1
                              and getattr(referr, 'pos_in_stream', None) == 0)
                case['runs'].append({'n': len(whole), 'M': [], 'NL': L.nl_offsets(whole), 'a': shift, 'mode': 'repr', 'cfg': cfgname, 'toks': toks,
                                     'among': [[]], 'err': -1, 'ecls': '', 'eline': 0, 'ecol': 0, 'basicacc': False, 'ctxacc': False, 'same': False,
                                     'overlap': False, 'dyn': dyn, 'nodes': nodes, 'ref': ref, 'var': var, 'referr': err4(referr), 'varerr': err4(varerr),
                                     'endnotoken': endnotoken, 'text': json.dumps(buf), 'label': {'buffer': buf, 'window': [a, b], 'variant': vname, 'cfg': cfgname}})
    if not case['runs']:
        case['skip'] = 'no configuration constructed'
    return case


# regexps whose pattern holds a character above 0x7f (written with an ASCII escape: the grammar stays ASCII) next to a
# quantifier: in bytes mode the pattern has to be encoded one byte per character (latin-1, as Scanner does) or the quantifier
# binds to the last byte of a multi-byte sequence (hunted defect 27: the dynamic lexers encoded with utf-8)
HIGH = [
    'start: W+\nW: /\\xe9?a/\n%ignore " "\n',
    'start: (W | B)+\nW: /a\\xe9*/\nB: "b"\n%ignore " "\n',
    'start: W+\nW: /(\\xe9|b)?a/\n%ignore " "\n',
    'start: (W | B)+\nW: /[\\x80-\\xff]*a+/\nB: "b" "\\xff"?\n%ignore /[ \\xa0]+/\n',
]


# the stock Indenter as post-lexer: the representation of the newline token must not matter (hunted defect 30: handle_NL read
# the indentation off str(token), which for a bytes token is its repr - IndexError on the first line break)
INDENTED = '''?start: _NL* tree
tree: NAME _NL [_INDENT tree+ _DEDENT]
NAME: /[ab]+/
%declare _INDENT _DEDENT
%ignore / +/
_NL: /(\\n[\\t ]*)+/
'''


def tree_indenter():
    from lark.indenter import Indenter

    class TreeIndenter(Indenter):
        NL_type = '_NL'
        OPEN_PAREN_types = []
        CLOSE_PAREN_types = []
        INDENT_type = '_INDENT'
        DEDENT_type = '_DEDENT'
        tab_len = 4
    return TreeIndenter()


def specs(tier, rng):
    out = []
    windows = []
    for _ in range(60):
        lines, lv = [], [0]
        for _ in range(rng.randint(1, 5)):
            r = rng.random()
            if r < 0.4 and lines:
                lv.append(lv[-1] + rng.randint(1, 2))
            elif r < 0.7 and len(lv) > 1:
                lv.pop()
            lines.append(' ' * lv[-1] + rng.choice(['a', 'b', 'ab']))
        buf = '\n'.join(lines) + rng.choice(['\n', '\n\n', '\n  \n'])
        pre = rng.choice(['', 'a\n', 'b b\n\n'])
        windows += [[buf, 0, len(buf)], [pre + buf, len(pre), len(pre) + len(buf)]]
    out.append({'terms': [], 'tree_grammar': INDENTED, 'windows': windows, 'texts': [], 'family': 'F_indent', 'postlex': True})
    for tg in HIGH:
        windows = []
        for _ in range(30):
            buf = ''.join(rng.choice('ab a') for _ in range(rng.randint(1, 6)))
            a = rng.randint(0, len(buf) - 1)
            windows += [[buf, 0, len(buf)], [buf, a, rng.randint(a, len(buf))]]
        out.append({'terms': [], 'tree_grammar': tg, 'windows': windows, 'texts': [], 'family': 'F_high'})
    keys = ['A', 'B', 'AB', 'ONE', 'PLUS', 'LOW', 'NUM', 'WS', 'SPT', 'NL', 'NOTA', 'AS', 'CTRL', 'SP', 'NLSTR', 'NONW']
    for i in range(C.scale(900 if tier == 'quick' else 9000)):
        terms = L.random_termset(rng, keys=keys, newline_bias=True)
        tg = c06.tree_grammar(terms, rng)
        windows = []
        for _ in range(8):
            buf = ''.join(rng.choice(ALPHA) for _ in range(rng.randint(2, 9)))
            a = rng.randint(0, len(buf) - 1)
            b = rng.randint(a, len(buf))
            windows.append([buf, a, b])
            windows.append([buf, 0, len(buf)])
        for buf in sorted(c06.tree_texts(terms, rng))[:5]:
            pre = ''.join(rng.choice('\n ab') for _ in range(rng.randint(0, 3)))
            post = ''.join(rng.choice('\n ab') for _ in range(rng.randint(0, 3)))
            windows.append([pre + buf + post, len(pre), len(pre) + len(buf)])
            windows.append(['\n' + buf, 1, 1 + len(buf)])
        out.append({'terms': [(t.name, t.key, t.prio, t.ign) for t in terms], 'tree_grammar': tg, 'windows': windows, 'texts': []})
    return out


def judge(cases, ev, rep, tmp, name):
    CH = 120
    jobs = []
    keys = ('n', 'M', 'NL', 'a', 'mode', 'toks', 'among', 'err', 'ecls', 'eline', 'ecol', 'basicacc', 'ctxacc', 'same', 'overlap', 'dyn', 'nodes', 'ref', 'var', 'referr', 'varerr', 'endnotoken')
    for off in range(0, len(cases), CH):
        chunk = cases[off:off + CH]
        batch = {'cases': [{'T': [], 'rank': {}, 'SM': [], 'order': [], 'runs': [{k: r[k] for k in keys} for r in c['runs']]} for c in chunk]}
        jobs.append((chunk, C.write_batch(batch, tmp, 'c15_%s_%d.json' % (name, off))))
    from concurrent.futures import ThreadPoolExecutor

    def one(path):
        return C.tlc('TraceLex', c07.TRACE_CFG, env={'VERIF_BATCH': path, 'VERIF_WHICH': 'C06'}, workers=4, continue_=True, timeout=3000)
    with ThreadPoolExecutor(4) as ex:
        results = list(ex.map(one, [j[1] for j in jobs]))
    for (chunk, path), res in zip(jobs, results):
        C.tlc_must_run(res, 'TraceLex')
        ev.add_tlc('TraceLex[repr]:%s' % name, res, 'trace')
        os.remove(path)
        if res.violated and not res.verdicts:
            raise C.MachineryFailure('TraceLex violation without VERDICT line')
        for v in sorted(set(tuple(x) for x in res.verdicts)):
            c = chunk[int(v[0]) - 1]
            r = c['runs'][int(v[1]) - 1]
            sp = dict(c['spec'])
            sp['windows'] = [[r['label']['buffer']] + r['label']['window']]
            rep.violation({'property': PID, 'clause': v[2], 'grammar': c['gtext'], 'case': r['label'], 'reference': r['ref'][:10], 'variant': r['var'][:10],
                           'referr': r['referr'], 'varerr': r['varerr'], 'spec': sp})


def body(tier, seed, replay):
    ev = C.Evidence(PID, tier, seed)
    rep = C.Reporter(PID, ev, lambda fnd, case: fnd['match']['kind'] == 'end-without-token' and case.get('clause', '').endswith('@end-without-token'))
    rng = random.Random(seed)
    tmp = C.scratch_dir('c15_')
    try:
        if replay:
            case = json.load(open(replay))
            judge([observe_case(case['spec'])], ev, rep, tmp, 'replay')
            return rep.finish()
        res = C.tlc('MC_LineCounter', c06.MC_CFG % dict(L=4 if tier == 'quick' else 5), timeout=3000)
        C.tlc_must_run(res, 'MC_LineCounter')
        ev.add_tlc('MC_LineCounter (every window start)', res, 'design')
        if not res.ok:
            raise C.MachineryFailure('MC_LineCounter: %s violated' % res.violated)
        cases = [c for c in C.pmap(observe_case, specs(tier, rng)) if not c['skip']]
        for c in cases:
            ev.count('grammars')
            for r in c['runs']:
                ev.count('comparisons')
                ev.count('variant:' + r['label']['variant'])
                ev.count('accepted' if not r['varerr'][0] else 'rejected')
                if r['a'] > 0 and r['NL'] and r['NL'][0] < r['a']:
                    ev.count('windows_after_a_newline')
        ev.cov['traces_validated_against_impl'] = ev.cov['counts'].get('comparisons', 0)
        c = next(c for c in cases if any(r['var'] and r['a'] > 0 for r in c['runs']))
        r = next(r for r in c['runs'] if r['var'] and r['a'] > 0)
        ev.sample({'grammar': c['gtext'], 'case': r['label'], 'reference': r['ref'][:5], 'variant': r['var'][:5]})
        judge(cases, ev, rep, tmp, 'sweep')
        if ev.cov['counts'].get('accepted', 0) < 3000 or ev.cov['counts'].get('windows_after_a_newline', 0) < 500:
            raise C.MachineryFailure('vacuity: %s' % ev.cov['counts'])
        ev.assumptions += ['ASCII input (latin-1 round trip); dynamic lexers take str, bytes and complete slices only']
        return rep.finish()
    finally:
        shutil.rmtree(tmp, ignore_errors=True)


if __name__ == '__main__':
    C.run_check(PID, body)
