"""C05 - default ambiguity resolution is a priority-optimal, deterministic choice.

design : EBNF.tla derivation sets + PrioOf (TraceTrees.tla): MaxPrio / MinPrio over all derivations is the L0 answer
binding: every result of ambiguity='resolve' under priority normal/invert/None, basic and dynamic lexers, obtained in
         fresh processes under several PYTHONHASHSEED values, twice per instance and on a second instance, is judged
         by TLC: it is a derivation, it is optimal (grammars without directly empty alternatives), None ignores
         priorities, and all runs returned the identical tree.
"""
import json
import os
import random
import shutil
import subprocess
import sys

from . import common as C
from . import families as F
from . import ebnf as E
from . import c03

PID = 'C05'
TEMPLATES = [
    (('s', ('s', 'X', 's')), ('s', ('Y',))),
    (('s', ('s', 's')), ('s', ('X',))),
    (('s', ('a', 'a')), ('a', ('X',)), ('a', ('X', 'X'))),
    (('s', ('a', 'b')), ('a', ('X',)), ('a', ('X', 'Y')), ('b', ('Y', 'X')), ('b', ('X',)), ('b', ())),
    (('s', ('X', 's')), ('s', ('X', 's', 'Y', 's')), ('s', ('Z',))),
    (('s', ('a',)), ('s', ('b',)), ('a', ('X', 'Y')), ('b', ('X', 'c')), ('c', ('Y',))),
    (('s', ('a', 's')), ('s', ('a',)), ('a', ('X',)), ('a', ('X', 'X')), ('a', ('b',)), ('b', ('X', 'X', 'X'))),
]


def prio_text(Gb, rprio, tprio):
    lines = F.grammar_text(Gb, term_defs=F.TERM3).splitlines()
    out = []
    for ln in lines:
        name = ln.split(':')[0]
        if name in ('X', 'Y', 'Z'):
            p = tprio.get(name, 0)
            out.append('%s%s: "%s"' % (name, '.%d' % p if p else '', F.CHAR[name]))
        else:
            nt = 's' if name == 'start' else name
            p = rprio.get(nt, 0)
            out.append('%s%s:%s' % (name, '.%d' % p if p else '', ln[len(name) + 1:]))
    return '\n'.join(out) + '\n'


OVTERMS = {'A': 'a', 'B': 'b', 'AB': 'ab', 'AA': 'aa', 'BA': 'ba'}
OVTEMPLATES = [
    (('s', ('s', 'i')), ('s', ('i',)), ('i', ('A',)), ('i', ('B',)), ('i', ('AB',)), ('i', ('AA',))),
    (('s', ('i', 's')), ('s', ('i',)), ('i', ('A',)), ('i', ('AB',)), ('i', ('B',)), ('i', ('BA',))),
    (('s', ('a', 'b')), ('a', ('A',)), ('a', ('AB',)), ('a', ('AA',)), ('a', ('A', 'A')), ('b', ('B',)), ('b', ('BA',)), ('b', ('B', 'A')), ('b', ('A',))),
    (('s', ('AB', 's')), ('s', ('A', 'B', 's')), ('s', ('A',)), ('s', ('AA',)), ('s', ('A', 'BA'))),
]


def tokenisations(text, terms):
    out = []

    def rec(pos, acc):
        if pos == len(text):
            out.append(list(acc))
            return
        for t in terms:
            s_ = OVTERMS[t]
            if text.startswith(s_, pos):
                acc.append([t, pos])
                rec(pos + len(s_), acc)
                acc.pop()
    rec(0, [])
    return out


def overlap_specs(tier, rng):
    import itertools
    out = []
    texts = [''.join(w) for n in range(1, 6) for w in itertools.product('ab', repeat=n)]
    for k in range(C.scale(120 if tier == 'quick' else 400)):
        Gb = OVTEMPLATES[k % len(OVTEMPLATES)]
        nts = sorted({l for l, _ in Gb})
        terms = sorted({x for _, rhs in Gb for x in rhs if x.isupper()})
        rprio = {nt: rng.choice([-1, 0, 0, 1, 2]) for nt in nts}
        tprio = {t: rng.choice([-2, -1, 0, 0, 1, 2, 3]) for t in terms}
        G = E.from_bnf(Gb)
        for r in G['rules']:
            r['prio'] = rprio['s' if r['name'] == 'start' else r['name']]
        lines = F.grammar_text(Gb, term_defs={'ZZ': '"zz"'}).splitlines()
        gl, gl0 = [], []
        for ln in lines:
            name = ln.split(':')[0]
            if name == 'ZZ':
                continue
            nt = 's' if name == 'start' else name
            gl.append('%s%s:%s' % (name, '.%d' % rprio[nt] if rprio[nt] else '', ln[len(name) + 1:]))
            gl0.append(ln)
        for t in terms:
            gl.append('%s%s: "%s"' % (t, '.%d' % tprio[t] if tprio[t] else '', OVTERMS[t]))
            gl0.append('%s: "%s"' % (t, OVTERMS[t]))
        pick = rng.sample(texts, 24)
        out.append({'Gb': Gb, 'G': G, 'rprio': rprio, 'tprio': tprio, 'gtext': '\n'.join(gl) + '\n', 'gtext_noprio': '\n'.join(gl0) + '\n',
                    'texts': pick, 'ws': [list(t) for t in pick], 'toks': [tokenisations(t, terms) for t in pick], 'lexers': ['dynamic', 'dynamic_complete'],
                    'emptyalt': False, 'multitok': True})
    return out


def txt(w):
    return ''.join(F.CHAR[t] if t in F.CHAR else E.CHARS[t] for t in w)


def placeholder_specs(tier, rng):
    """prioritised rules whose alternatives hold [..] placeholders and ? optionals (every such alternative is compiled with
    its own copy of the rule's options): invert / None must reach all of them"""
    import itertools
    T, R = E.tok, E.ref
    A, B = T('A'), T('B')

    def rule(name, bodies, prio):
        return {'name': name, 'expand1': False, 'keepall': False, 'prio': prio, 'alts': [{'alias': '', 'body': b} for b in bodies]}
    shapes = [
        lambda p: [rule('start', [R('a'), R('b')], 0), rule('a', [E.seq([A, E.maybe(B)])], p[0]), rule('b', [E.seq([A, E.opt(B)])], p[1])],
        lambda p: [rule('start', [R('a'), R('b')], 0), rule('a', [E.seq([E.maybe(A), B])], p[0]), rule('b', [E.seq([E.opt(A), B]), E.seq([A, A, B])], p[1])],
        lambda p: [rule('start', [R('b'), R('a')], 0), rule('a', [E.seq([A, E.maybe(B), A]), E.seq([A, E.maybe(R('c'))])], p[0]), rule('b', [E.seq([A, E.opt(B), E.opt(A)])], p[1]),
                   rule('c', [B, A], p[2])],
        lambda p: [rule('start', [E.seq([R('a'), R('b')])], 0), rule('a', [E.seq([A, E.maybe(B)]), A], p[0]), rule('b', [E.seq([E.maybe(B), A]), E.seq([B, A, E.maybe(A)])], p[1])],
    ]
    words = [w for k in range(1, 5) for w in itertools.product(['A', 'B'], repeat=k)]
    out = []
    for k in range(C.scale(60 if tier == 'quick' else 300)):
        p = [rng.choice([-2, -1, 1, 2, 3]) for _ in range(3)]
        G = {'rules': shapes[k % len(shapes)](p)}
        G0 = {'rules': [dict(r, prio=0) for r in G['rules']]}
        ws = [list(w) for w in words]
        out.append({'Gb': (), 'G': G, 'rprio': {}, 'tprio': {'A': 0, 'B': 0, '_C': 0, 'D': 0}, 'gtext': E.grammar_text(G), 'gtext_noprio': E.grammar_text(G0),
                    'texts': [E.to_text(w) for w in ws], 'ws': ws, 'lexers': ['basic', 'dynamic'], 'emptyalt': False, 'ph': True})
    return out


def make_specs(tier, rng):
    out = []
    Gs = [G for G in F.bnf_family(3)]
    pool = [tuple(t) for t in TEMPLATES] * (14 if tier == 'quick' else 40)
    pool += F.sample(Gs, C.scale(500 if tier == 'quick' else 2000), rng)
    pool += F.rand_family(C.scale(250 if tier == 'quick' else 1000), rng)
    for Gb in pool:
        nts = sorted({l for l, _ in Gb})
        rprio = {nt: rng.choice([-1, 0, 0, 1, 2, 3]) for nt in nts}
        tprio = {t: rng.choice([-1, 0, 0, 1, 2]) for t in ('X', 'Y', 'Z')}
        G = E.from_bnf(Gb)
        for r in G['rules']:
            r['prio'] = rprio['s' if r['name'] == 'start' else r['name']]
        alphabet = ('X', 'Y', 'Z') if any('Z' in rhs for _, rhs in Gb) else ('X', 'Y')
        ins = [w for w in F.enriched_inputs(Gb, 3, extra_len=2, rng=rng, alphabet=alphabet) if len(w) <= 6]
        out.append({'Gb': Gb, 'G': G, 'rprio': rprio, 'tprio': tprio, 'gtext': prio_text(Gb, rprio, tprio),
                    'gtext_noprio': F.grammar_text(Gb, term_defs=F.TERM3), 'texts': [F.to_text(w) for w in ins], 'ws': ins,
                    'lexers': ['basic', 'dynamic'], 'emptyalt': any(len(rhs) == 0 for _, rhs in Gb)})
    return out


def run_workers(specs, seeds, tmp):
    import uuid
    path = os.path.join(tmp, 'c05_specs_%s.json' % uuid.uuid4().hex)
    json.dump([{k: s[k] for k in ('gtext', 'gtext_noprio', 'texts', 'lexers')} for s in specs], open(path, 'w'))
    procs = []
    for i, sd in enumerate(seeds):
        env = dict(os.environ)
        env['PYTHONHASHSEED'] = str(sd)
        procs.append(subprocess.Popen([sys.executable, '-m', 'harness.c05_worker', path] + (['amb'] if i == 0 else []),
                                      cwd=C.VERIF, env=env, stdout=subprocess.PIPE, stderr=subprocess.PIPE))
    outs = []
    for p in procs:
        o, e = p.communicate(timeout=3000)
        if p.returncode != 0:
            raise C.MachineryFailure('c05 worker failed: %s' % e.decode()[-400:])
        outs.append(json.loads(o))
    return outs


def body(tier, seed, replay):
    ev = C.Evidence(PID, tier, seed)
    rep = C.Reporter(PID, ev)
    rng = random.Random(seed)
    tmp = C.scratch_dir('c05_')
    try:
        if not replay:
            # design level: ForestSumVisitor + the sort key of packed nodes on the forest of EarleyForest.tla (Resolve.tla)
            cfg = 'SPECIFICATION Spec\nCONSTANTS\n MaxRules = 3\n MaxLen = %d\n Prios = %s\n%s\nCHECK_DEADLOCK FALSE\n'
            L, PR = (3, '{0, 1}') if tier == 'quick' else (4, '{0, 1, 2}')
            res = C.tlc('MC_Resolve', cfg % (L, PR, 'INVARIANT ResolvedIsDerivation\nINVARIANT Optimal'), timeout=3000)
            C.tlc_must_run(res, 'MC_Resolve')
            ev.add_tlc('MC_Resolve R=3 L=%d Prios=%s (ambiguous instances)' % (L, PR), res, 'design')
            if not res.ok:
                raise C.MachineryFailure('MC_Resolve: %s violated' % res.violated)
            r2 = C.tlc('MC_Resolve', cfg % (3, '{0, 1}', 'INVARIANT OptimalEvenWithEmptyRules'), timeout=900, workers=4)
            C.tlc_must_run(r2, 'MC_Resolve (no exemption)')
            ev.cov['binding_selftest']['model_refutes_optimality_with_empty_rules'] = bool(r2.violated)
            if not r2.violated:
                raise C.MachineryFailure('MC_Resolve: optimality holds even with empty rules - the reading of C05 would be too weak or the model vacuous')
        if replay:
            case = json.load(open(replay))
            specs = [case['spec5']]
        else:
            specs = make_specs(tier, rng)
        # drop grammars with derivation cycles (the oracle enumerates derivations)
        specs = [s for s in specs if not E.deriv_cyclic([(l, list(r)) for l, r in s['Gb']])]
        if not replay:
            specs += overlap_specs(tier, rng)
            specs += placeholder_specs(tier, rng)
        seeds = [0, 1, 2, 3, 4] if tier == 'quick' else list(range(0, 16))       # (thorough: 3.5 x the grammars, 16 hash seeds - about 25 minutes)
        # split the spec list over parallel workers per seed: chunks
        chunks = [ch for ch in (specs[i::3] for i in range(3)) if ch]
        from concurrent.futures import ThreadPoolExecutor
        with ThreadPoolExecutor(len(chunks)) as ex:
            results = list(ex.map(lambda ch: run_workers(ch, seeds, tmp), chunks))
        cases = []
        for ch, outs in zip(chunks, results):
            for si, sp in enumerate(ch):
                base = outs[0][si]
                G = E.grammar_json(sp['G'], False, bool(sp.get('ph')))
                inputs = []
                for ti, w in enumerate(sp['ws']):
                    obs = []
                    for key, r in base['res'].items():
                        if 'rows' not in r:
                            continue
                        row = r['rows'][ti]
                        mode, lexer = key.split('/')
                        det = row['same']
                        for other in outs[1:]:
                            orow = other[si]['res'].get(key, {}).get('rows', [None] * (ti + 1))[ti]
                            if orow is None or orow['tree'] != row['tree'] or orow['out'] != row['out'] or not orow['same']:
                                det = False
                        ev.count('resolve_parses', len(seeds) * 3)
                        obs.append({'cfg': 'earley/' + lexer, 'out': 0 if row['out'] == 'accept' else (1 if row['out'] == 'reject' else 2),
                                    'tree': row['tree'] or ['N', '', 0, []], 'must': False, 'mode': mode, 'dyn': lexer != 'basic',
                                    'noprio': row['noprio'] or ['N', '', 0, []], 'det': bool(det)})
                    if base['amb'] and base['amb'][ti]:
                        ev.count('ambiguous_inputs')
                    inputs.append({'w': list(w), 'obs': obs, 'exp': [], 'toks': sp.get('toks', [[]] * (ti + 1))[ti] if sp.get('multitok') else []})
                cases.append({'G': G, 'cyclic': False, 'inputs': inputs, 'gtext': sp['gtext'], 'ka': False, 'ph': False, 'family': 'F_prio',
                              'tprio': dict({'X': 0, 'Y': 0, 'Z': 0}, **sp['tprio']), 'emptyalt': sp['emptyalt'], 'multitok': bool(sp.get('multitok')),
                              'spec': {}, 'spec5': {k: sp[k] for k in sp}})
        ev.cov['counts']['grammars'] = len(cases)
        ev.cov['counts']['overlapping_terminal_grammars'] = sum(1 for c in cases if c['multitok'])
        ev.cov['counts']['inputs_with_several_tokenisations'] = sum(1 for c in cases if c['multitok'] for i in c['inputs'] if len(i['toks']) > 1)
        ev.cov['counts']['hash_seeds'] = len(seeds)
        ev.cov['counts']['grammars_without_empty_alternative'] = sum(1 for c in cases if not c['emptyalt'])
        ev.cov['traces_validated_against_impl'] = ev.cov['counts'].get('resolve_parses', 0)
        c = cases[2]
        ev.sample({'grammar': c['gtext'], 'text': F.to_text(c['inputs'][-1]['w']), 'observed': c['inputs'][-1]['obs'][:2]})
        judge(cases, ev, rep, tmp)
        if not replay and ev.cov['counts'].get('ambiguous_inputs', 0) < 250:
            raise C.MachineryFailure('vacuity: %s' % ev.cov['counts'])
        ev.assumptions += ['hash-seed/process independence is sampled (%d seeds), not proved' % len(seeds),
                           'terminal priorities are decisive only in the overlapping-terminal family (A AB AA B BA); elsewhere they add the same constant to every derivation']
        return rep.finish()
    finally:
        shutil.rmtree(tmp, ignore_errors=True)


def judge(cases, ev, rep, tmp):
    CH = 150
    jobs = []
    for off in range(0, len(cases), CH):
        chunk = cases[off:off + CH]
        batch = {'cases': [{'G': c['G'], 'cyclic': False, 'tprio': c['tprio'], 'emptyalt': c['emptyalt'], 'w0': [], 'multitok': c['multitok'],
                            'inputs': [{'w': i['w'], 'obs': i['obs'], 'exp': [], 'toks': i['toks']} for i in c['inputs']]} for c in chunk]}
        jobs.append((chunk, C.write_batch(batch, tmp, 'c05_%d.json' % off)))
    from concurrent.futures import ThreadPoolExecutor

    def one(path):
        return C.tlc('TraceTrees', c03.TRACE_CFG, env={'VERIF_BATCH': path, 'VERIF_WHICH': PID}, workers=4, continue_=True, timeout=3000)
    with ThreadPoolExecutor(4) as ex:
        results = list(ex.map(one, [j[1] for j in jobs]))
    for (chunk, path), res in zip(jobs, results):
        C.tlc_must_run(res, 'TraceTrees')
        ev.add_tlc('TraceTrees[C05]', res, 'trace')
        os.remove(path)
        if res.violated and not res.verdicts:
            raise C.MachineryFailure('TraceTrees violation without VERDICT line')
        for v in sorted(set(tuple(x) for x in res.verdicts)):
            tid, k, clause = int(v[0]), int(v[1]), v[2]
            c = chunk[tid - 1]
            inp = c['inputs'][k - 1]
            sp5 = dict(c['spec5'])
            sp5['ws'] = [inp['w']]
            sp5['texts'] = [txt(inp['w']) if not c['multitok'] else ''.join(inp['w'])]
            if c['multitok']:
                sp5['toks'] = [inp['toks']]
            rep.violation({'property': PID, 'grammar': c['gtext'], 'text': txt(inp['w']) if not c['multitok'] else ''.join(inp['w']), 'clause': clause,
                           'observed': [o for o in inp['obs'] if clause.startswith(o['cfg']) and (o['mode'] in clause or 'optimal' not in clause)][:3],
                           'spec5': sp5})


if __name__ == '__main__':
    C.run_check(PID, body)
