"""Runs in a fresh process under a given PYTHONHASHSEED: parses every (grammar, mode, lexer, input) of the spec file
twice on one instance and once on a second fresh instance; prints the trees as JSON."""
import json
import sys
import os

sys.path.insert(0, os.environ.get('VERIF_REPO', '/repo'))
sys.path.insert(0, os.path.dirname(os.path.dirname(os.path.abspath(__file__))))


def main():
    import logging
    logging.disable(logging.CRITICAL)
    from lark import Lark
    from harness import observe as O
    from harness.c03 import tree4
    specs = json.load(open(sys.argv[1]))
    flag_amb = len(sys.argv) > 2 and sys.argv[2] == 'amb'
    out = []
    for sp in specs:
        res = {}
        for mode in ('normal', 'invert', 'none'):
            for lexer in sp['lexers']:
                key = mode + '/' + lexer
                try:
                    kw = {'priority': {'normal': 'normal', 'invert': 'invert', 'none': None}[mode]}
                    p1 = Lark(sp['gtext'], parser='earley', lexer=lexer, **kw)
                    p2 = Lark(sp['gtext'], parser='earley', lexer=lexer, **kw)
                    p0 = Lark(sp['gtext_noprio'], parser='earley', lexer=lexer)
                except Exception as e:
                    res[key] = {'construct': type(e).__name__}
                    continue
                rows = []
                for text in sp['texts']:
                    a = O.parse_outcome(p1, text)
                    b = O.parse_outcome(p1, text)
                    c = O.parse_outcome(p2, text)
                    n = O.parse_outcome(p0, text)
                    t4 = None
                    if a['out'] == 'accept':
                        t4 = tree4(p1.parse(text))
                    same = (a.get('tree') == b.get('tree') == c.get('tree')) and a['out'] == b['out'] == c['out']
                    rows.append({'out': a['out'], 'tree': t4, 'same': same, 'noprio': tree4(p0.parse(text)) if n['out'] == 'accept' else None})
                res[key] = {'rows': rows}
        amb = []
        if flag_amb:
            try:
                pe = Lark(sp['gtext'], parser='earley', lexer='basic', ambiguity='explicit')
                for text in sp['texts']:
                    o = O.parse_outcome(pe, text)
                    amb.append(o['out'] == 'accept' and '_ambig' in json.dumps(o.get('tree')))
            except Exception:
                amb = [False] * len(sp['texts'])
        out.append({'res': res, 'amb': amb})
    json.dump(out, sys.stdout)


if __name__ == '__main__':
    main()
