"""C12 - the grammar cache is only an optimisation, whatever the state of the cache file.

design : Cache.tla (reader/compile/non-atomic writer steps, crashes, truncation, corruption classes, import edits,
         histories of builds with different keys on one path): TLC proves ServedIsDenote except for one file state
         (header and used-files intact, body payload altered) and that an uninterrupted build leaves a valid entry
binding: real files in a scratch directory: truncation at every byte offset, single-byte substitutions, files written
         for another grammar / option set / import content / lark version, build histories.  Every construction
         runs in a forked, killable child; TraceCache.tla runs the reader of the specification on the abstracted file
         state and judges what the real constructor did.
"""
import json
import os
import pickle
import random
import shutil
import signal
import sys
import time

from . import common as C

PID = 'C12'
TRACE_CFG = 'SPECIFICATION TSpec\nINVARIANT VerdictOk\nCHECK_DEADLOCK FALSE\n'
MC_CFG = '''SPECIFICATION Spec
CONSTANTS
  Keys = {"g1o1", "g1o2", "g2o1"}
  Imps = {"i1", "i2"}
  MaxBuilds = %d
INVARIANT ServedIsDenoteUnlessAlienBody
INVARIANT NeverServesOtherKey
PROPERTY LeavesValidEntry
CHECK_DEADLOCK FALSE
'''
def resolve_opts(o, workdir):
    d = dict(OPTIONS[o])
    if 'import_paths' in d:
        d['import_paths'] = [os.path.join(workdir, x) for x in d['import_paths']]
    return d


def prepare_dirs(workdir):
    for sub, content in (('pa', 'NAME: /[a-z]+/\n'), ('pb', 'NAME: /[A-Z]+/\n')):
        os.makedirs(os.path.join(workdir, sub), exist_ok=True)
        with open(os.path.join(workdir, sub, 'imp2.lark'), 'w') as f:
            f.write(content)
    os.makedirs(os.path.join(workdir, 'sub'), exist_ok=True)
    with open(os.path.join(workdir, 'sub', 'imp.lark'), 'w') as f:
        f.write(IMPORTS['i2'])
    for k, (g, sub) in LOCATED.items():
        with open(os.path.join(workdir, sub, 'main.lark'), 'w') as f:
            f.write(GRAMMARS[g])


def construct(lark, workdir, g, o, **kw):
    if g in LOCATED:
        return lark.Lark.open(os.path.join(workdir, LOCATED[g][1], 'main.lark'), parser='lalr', **kw, **resolve_opts(o, workdir))
    return lark.Lark(GRAMMARS[g], parser='lalr', source_path=os.path.join(workdir, 'main.lark'), **kw, **resolve_opts(o, workdir))


GRAMMARS = {
    'g3': 'start: NAME+\n%import imp2 (NAME)\n%import common.WS\n%ignore WS\n',
    'g1': 'start: greet NAME+\ngreet: "hello" | "hi"\n%import .imp (NAME)\n%import common.WS\n%ignore WS\n',
    'g2': 'start: NAME ("," NAME)*\n%import .imp (NAME)\n%import common.WS\n%ignore WS\n',
    'g4': 'start: [greet] NAME\ngreet: "hello"\n%import .imp (NAME)\n%import common.WS\n%ignore WS\n',
    # two grammars / two import contents that differ ONLY in the blanks inside a literal or a character class
    'g5': 'start: greet NAME+\ngreet: "hi a" | "hello"\n%import .imp (NAME)\n%import common.WS\n%ignore WS\n',
    'g6': 'start: greet NAME+\ngreet: "hi  a" | "hello"\n%import .imp (NAME)\n%import common.WS\n%ignore WS\n',
}
# the same TEXT at two locations, opened with Lark.open (no explicit source_path): '.imp' resolves next to the file, so g7
# (in sub/, whose imp.lark always holds i2) and g8 (in the work directory, imp.lark = the step's content) are different grammars
# although their text is equal (hunted defect 31: the cache key left the location out)
LOCATED = {'g7': ('g1', 'sub'), 'g8': ('g1', '')}
GRAMMARS.update({k: GRAMMARS[v[0]] for k, v in LOCATED.items()})
OPTIONS = {'o1': {}, 'o2': {'keep_all_tokens': True}, 'o3': {'maybe_placeholders': False, 'propagate_positions': True},
           'o4': {'maybe_placeholders': False}, 'o5': {'maybe_placeholders': True}, 'pa': {'import_paths': ['pa']}, 'pb': {'import_paths': ['pb']}}
IMPORTS = {'i1': 'NAME: /[a-z]+/\n', 'i2': 'NAME: /[A-Z]+/\n', 'i3': 'NAME: /[a-z][a-z ]*[a-z]/\n', 'i4': 'NAME: /[a-z][a-z  ]*[a-z]/\n'}
INPUTS = ['hello world', 'hi a b', 'hello WORLD', 'a, b', 'A,B', 'hello', 'x', '', 'hi Hello', 'hi  a b', 'hi a  b c']
VERSIONS = {'v1': None, 'v2': '9.9.9'}


def forked(fn, timeout):
    """run fn() in a forked child; -> (result or None, hang flag). A corrupted pickle can block inside C code where
    Python signal handlers do not run, so the child is killed from outside."""
    r, w = os.pipe()
    pid = os.fork()
    if pid == 0:
        os.close(r)
        try:
            import resource
            resource.setrlimit(resource.RLIMIT_AS, (3 << 30, 3 << 30))
            out = fn()
        except BaseException as e:      # noqa
            out = {'child_exc': type(e).__name__ + ': ' + str(e)[:200]}
        try:
            os.write(w, json.dumps(out).encode())
        finally:
            os._exit(0)
    os.close(w)
    t0 = time.time()
    data = b''
    import select
    hang = False
    while True:
        left = timeout - (time.time() - t0)
        if left <= 0:
            hang = True
            break
        rl, _, _ = select.select([r], [], [], left)
        if not rl:
            hang = True
            break
        chunk = os.read(r, 1 << 16)
        if not chunk:
            break
        data += chunk
    if hang:
        os.kill(pid, signal.SIGKILL)
    os.close(r)
    os.waitpid(pid, 0)
    if hang or not data:
        return None, hang
    return json.loads(data.decode()), False


def build_and_probe(workdir, g, o, v):
    """In the child: construct with cache= and report behaviour. Counts calls of load_grammar (recompiled?)."""
    def fn():
        import logging
        logging.disable(logging.CRITICAL)
        import lark
        import lark.lark as LL
        if VERSIONS[v]:
            lark.__version__ = VERSIONS[v]
        calls = []
        orig = LL.load_grammar

        def counting(*a, **k):
            calls.append(1)
            return orig(*a, **k)
        LL.load_grammar = counting
        gpath = os.path.join(workdir, 'main.lark')
        raised = ''
        try:
            p = construct(lark, workdir, g, o, cache=os.path.join(workdir, 'cache.bin'))
        except Exception as e:
            return {'raised': type(e).__name__ + ': ' + str(e)[:160], 'outs': [], 'recompiled': bool(calls)}
        outs = []
        from .observe import parse_outcome
        for text in INPUTS:
            r = parse_outcome(p, text, positions=True, meta=True, seconds=10)
            outs.append([r['out'], r.get('cls', ''), r.get('pos', -1), json.dumps(r.get('tree'))])
        return {'raised': raised, 'outs': outs, 'recompiled': bool(calls)}
    return fn


def expected_outs(workdir, g, o):
    def fn():
        import logging
        logging.disable(logging.CRITICAL)
        import lark
        p = construct(lark, workdir, g, o)
        from .observe import parse_outcome
        outs = []
        for text in INPUTS:
            r = parse_outcome(p, text, positions=True, meta=True, seconds=10)
            outs.append([r['out'], r.get('cls', ''), r.get('pos', -1), json.dumps(r.get('tree'))])
        return {'outs': outs}
    res, hang = forked(fn, 60)
    if res is None or 'outs' not in res:
        raise C.MachineryFailure('uncached reference build failed: %r' % (res,))
    return res['outs']


def segments(path):
    with open(path, 'rb') as f:
        f.readline()
        h = f.tell()
        pickle.load(f)
        u = f.tell()
        f.seek(0, 2)
        return h, u, f.tell()


def run_history(job):
    """job: {'steps': [{'g','o','i','v', 'damage': None | ['trunc', off] | ['subst', off, val] | ['delete']}], 'id'}"""
    workdir = C.scratch_dir('c12w_')
    evs = []
    try:
        prepare_dirs(workdir)
        cache = os.path.join(workdir, 'cache.bin')
        filekey = None       # (g,o,v,i) the current complete file was written for
        for st in job['steps']:
            with open(os.path.join(workdir, 'imp.lark'), 'w') as f:
                f.write(IMPORTS[st['i']])
            k = '%s%s%s' % (st['g'], st['o'], st['v'])
            fabs = {'len': 0, 'hdr': 'bad', 'used': 'bad', 'bodyk': '', 'bodyimp': '', 'bodydamaged': False, 'useddamaged': False}
            if os.path.exists(cache) and filekey is not None:
                h, u, n = segments(cache)
                fabs = {'len': 3, 'hdr': filekey[0], 'used': filekey[1], 'bodyk': filekey[0], 'bodyimp': filekey[1], 'bodydamaged': False, 'useddamaged': False}
                dmg = st.get('damage')
                if dmg:
                    data = open(cache, 'rb').read()
                    if dmg[0] == 'delete':
                        os.remove(cache)
                        fabs['len'] = 0
                    elif dmg[0] == 'trunc':
                        off = dmg[1] % n
                        open(cache, 'wb').write(data[:off])
                        fabs['len'] = 0 if off < h else (1 if off < u else 2)
                        if off == 0:
                            fabs['len'] = 0
                    elif dmg[0] == 'subst':
                        off = dmg[1] % n
                        b = bytearray(data)
                        b[off] = (b[off] + 1 + dmg[2] % 255) % 256
                        open(cache, 'wb').write(bytes(b))
                        if off < h:
                            fabs['hdr'] = 'bad'
                        elif off < u:
                            fabs['used'] = 'bad'      # abstractly: the used-files pickle no longer vouches for the imports
                            fabs['useddamaged'] = True
                        else:
                            fabs['bodydamaged'] = True
                    st['_where'] = [h, u, n]
            exp = job['expected']['%s|%s|%s' % (st['g'], st['o'], st['i'])]
            res, hang = forked(build_and_probe(workdir, st['g'], st['o'], st['v']), 25)
            ev = {'k': k, 'imp': st['i'], 'file': fabs, 'raised': False, 'hang': bool(hang), 'served_ok': True, 'recompiled': False, 'after_valid': True,
                  'step': {kk: st[kk] for kk in st if not kk.startswith('_')}, 'where': st.get('_where'), 'detail': ''}
            if hang:
                filekey = None
                if os.path.exists(cache):
                    os.remove(cache)
                evs.append(ev)
                continue
            if res is None or 'child_exc' in (res or {}):
                ev['raised'] = True
                ev['detail'] = (res or {}).get('child_exc', 'no result')
            elif res['raised']:
                ev['raised'] = True
                ev['detail'] = res['raised']
            else:
                ev['served_ok'] = res['outs'] == exp
                ev['recompiled'] = res['recompiled']
                if not ev['served_ok']:
                    ev['detail'] = json.dumps([[a, b] for a, b in zip(res['outs'], exp) if a != b][:1])[:300]
            # a "used" substitution that still verifies (e.g. inside a path string) leaves the entry usable: the abstraction says
            # compile; if the real reader served correctly without recompiling, that is still Denote -> treat as intact
            if fabs.get('useddamaged') and not ev['recompiled'] and ev['served_ok'] and not ev['raised']:
                ev['file'] = dict(fabs, used=filekey[1] if filekey else 'bad', useddamaged=False)
            if fabs['hdr'] == 'bad' and fabs['len'] == 3 and not ev['recompiled'] and ev['served_ok'] and not ev['raised']:
                pass
            # validity of the file afterwards: a second construction with the same key must be served from it, correctly
            if ev['recompiled'] and not ev['raised']:
                res2, hang2 = forked(build_and_probe(workdir, st['g'], st['o'], st['v']), 25)
                ev['after_valid'] = bool(res2) and not hang2 and not res2.get('raised') and not res2.get('recompiled') and res2.get('outs') == exp
                filekey = (k, st['i'])
            elif ev['raised']:
                filekey = None
                if os.path.exists(cache):
                    os.remove(cache)
            evs.append(ev)
    finally:
        shutil.rmtree(workdir, ignore_errors=True)
    return {'evs': evs, 'job': {kk: job[kk] for kk in job if kk != 'expected'}}


def jobs(tier, rng, expected):
    out = []
    base = {'g': 'g1', 'o': 'o1', 'i': 'i1', 'v': 'v1'}

    def step(**kw):
        d = dict(base)
        d.update(kw)
        return d
    # file size is not known here: offsets are taken modulo the real size in the child; cover 0..N densely
    N = 2600
    offs = range(0, N) if tier == 'thorough' else sorted(set(list(range(0, 140)) + list(range(140, N, 5))))
    for off in offs:
        out.append({'steps': [step(), step(damage=['trunc', off])], 'expected': expected})
    sub = range(0, N) if tier == 'thorough' else sorted(set(list(range(0, 100)) + list(range(100, N, 7))))
    for off in sub:
        for val in ((0, 0x40, 0xfe) if tier == 'thorough' else (rng.randrange(255),)):
            out.append({'steps': [step(), step(damage=['subst', off, val])], 'expected': expected})
    # written for a different grammar / options / import content / version, then built for the base key; and back
    others = [step(g='g2'), step(o='o2'), step(o='o3'), step(i='i2'), step(v='v2'), step(g='g2', o='o2', i='i2')]
    for a in others:
        out.append({'steps': [a, step(), a, step()], 'expected': expected})
        out.append({'steps': [step(), a, step(damage=['delete'])], 'expected': expected})
    # option sets that differ only in a falsy value, import search paths holding same-named files, and plain re-use
    for a, b in ((step(g='g4', o='o4'), step(g='g4', o='o1')), (step(g='g4', o='o1'), step(g='g4', o='o4')), (step(g='g4', o='o5'), step(g='g4', o='o4')),
                 (step(g='g3', o='pa'), step(g='g3', o='pb')), (step(g='g3', o='pb'), step(g='g3', o='pa'))):
        out.append({'steps': [a, b, a, b], 'expected': expected})
    for a, b in ((step(g='g5'), step(g='g6')), (step(g='g6'), step(g='g5')), (step(i='i3'), step(i='i4')), (step(i='i4'), step(i='i3')),
                 (step(g='g5', i='i3'), step(g='g6', i='i4'))):
        out.append({'steps': [a, b, a, b], 'expected': expected})
    # equal text at two locations with different sibling imports, against one cache path
    for a, b in ((step(g='g8'), step(g='g7')), (step(g='g7'), step(g='g8')), (step(g='g8', o='o2'), step(g='g7', o='o2')), (step(g='g7', i='i2'), step(g='g8', i='i2'))):
        out.append({'steps': [a, b, a, b], 'expected': expected})
    for g_, o_ in (('g1', 'o1'), ('g2', 'o3'), ('g3', 'pa'), ('g4', 'o4'), ('g7', 'o1'), ('g8', 'o3')):
        out.append({'steps': [step(g=g_, o=o_), step(g=g_, o=o_), step(g=g_, o=o_)], 'expected': expected})
    for _ in range(C.scale(60 if tier == 'quick' else 600)):
        steps = []
        for _j in range(rng.choice([2, 3, 4])):
            s = step(g=rng.choice(['g1', 'g2', 'g4']), o=rng.choice(['o1', 'o2', 'o3', 'o4']), i=rng.choice(['i1', 'i2']), v=rng.choice(['v1', 'v1', 'v2']))
            if steps and rng.random() < 0.4:
                s['damage'] = rng.choice([['trunc', rng.randrange(N)], ['subst', rng.randrange(N), rng.randrange(255)], ['delete']])
            steps.append(s)
        out.append({'steps': steps, 'expected': expected})
    for i, j in enumerate(out):
        j['id'] = i
    return out


def known_matcher(fnd, case):
    k = fnd.get('match', {}).get('kind')
    c = case.get('clause', '')
    if k == 'altered-body-served':
        return c == 'altered-body-is-served@known'
    if k == 'pickle-blocks':
        return c == 'constructor-blocks-on-damaged-pickle@known'
    return False


def judge(cases, ev, rep, tmp):
    CH = 1500
    jobs_ = []
    keys = ('k', 'imp', 'file', 'raised', 'hang', 'served_ok', 'recompiled', 'after_valid')
    for off in range(0, len(cases), CH):
        chunk = cases[off:off + CH]
        jobs_.append((chunk, C.write_batch({'cases': [{'evs': [{k: e[k] for k in keys} for e in c['evs']]} for c in chunk]}, tmp, 'c12_%d.json' % off)))
    results = C.tlc_parallel('TraceCache', TRACE_CFG, [j[1] for j in jobs_], continue_=True, timeout=3000)
    for (chunk, path), res in zip(jobs_, results):
        C.tlc_must_run(res, 'TraceCache')
        ev.add_tlc('TraceCache', res, 'trace')
        os.remove(path)
        if res.violated and not res.verdicts:
            raise C.MachineryFailure('TraceCache violation without VERDICT line')
        for v in sorted(set(tuple(x) for x in res.verdicts)):
            c = chunk[int(v[0]) - 1]
            e = c['evs'][int(v[1]) - 1]
            rep.violation({'property': PID, 'clause': v[2], 'history': c['job']['steps'], 'failing_step': int(v[1]), 'observed': e,
                           'grammars': GRAMMARS, 'options': OPTIONS, 'imports': IMPORTS})


def body(tier, seed, replay):
    ev = C.Evidence(PID, tier, seed)
    rep = C.Reporter(PID, ev, known_matcher)
    rng = random.Random(seed)
    tmp = C.scratch_dir('c12_')
    try:
        res = C.tlc('Cache', MC_CFG % (3 if tier == 'quick' else 4), timeout=3000)
        C.tlc_must_run(res, 'Cache')
        ev.add_tlc('Cache.tla (reader, non-atomic writer, crashes, damage, import edits)', res, 'design')
        if not res.ok:
            raise C.MachineryFailure('Cache: %s violated' % res.violated)
        r2 = C.tlc('Cache', (MC_CFG % 2).replace('ServedIsDenoteUnlessAlienBody', 'ServedIsDenote'), timeout=600, workers=4)
        C.tlc_must_run(r2, 'Cache strict')
        ev.cov['binding_selftest']['model_finds_altered_body_served'] = bool(r2.violated)
        # reference behaviour of every (grammar, options, import content)
        refdir = C.scratch_dir('c12ref_')
        expected = {}
        try:
            prepare_dirs(refdir)
            for g in GRAMMARS:
                for o in OPTIONS:
                    if (g == 'g3') != (o in ('pa', 'pb')):
                        continue
                    for i in IMPORTS:
                        with open(os.path.join(refdir, 'imp.lark'), 'w') as f:
                            f.write(IMPORTS[i])
                        expected['%s|%s|%s' % (g, o, i)] = expected_outs(refdir, g, o)
        finally:
            shutil.rmtree(refdir, ignore_errors=True)
        if replay:
            case = json.load(open(replay))
            js = [{'steps': case['history'], 'expected': expected, 'id': 0}]
        else:
            js = jobs(tier, rng, expected)
        cases = C.pmap(run_history, js, procs=min(C.NCPU, 12))
        for c in cases:
            ev.count('histories')
            for e in c['evs']:
                ev.count('constructions')
                ev.count('served_from_cache' if not e['recompiled'] and not e['raised'] and not e['hang'] else 'recompiled_or_failed')
                if e['file'].get('bodydamaged'):
                    ev.count('constructions_on_altered_body')
                if e['hang']:
                    ev.count('hangs')
        ev.cov['traces_validated_against_impl'] = ev.cov['counts'].get('constructions', 0)
        ev.sample({'history': cases[3]['job']['steps'], 'observed': [{k: e[k] for k in ('file', 'raised', 'hang', 'served_ok', 'recompiled', 'after_valid')} for e in cases[3]['evs']]})
        judge(cases, ev, rep, tmp)
        ev.assumptions += ['behavioural equality judged on %d probe inputs (trees with positions and meta, error class and position)' % len(INPUTS),
                           'file validity afterwards = a second construction with the same key is served from it without recompiling and behaves correctly',
                           'atomicwrites is not installed: the non-atomic writer is the code path in use']
        return rep.finish()
    finally:
        shutil.rmtree(tmp, ignore_errors=True)


if __name__ == '__main__':
    C.run_check(PID, body)
