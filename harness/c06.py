"""C06 - token and tree positions are exact source coordinates.

design : MC_LineCounter.tla (LineCounter machine = Coord iff every newline-matching terminal is flagged)
binding: TraceLex.tla (which=C06): real token coordinates of Lark.lex / contextual lexer (str and bytes) against
         Coord computed from the newline offsets; tokens inside parse trees and Tree.meta under all four lexers.
"""
import json
import os
import random
import shutil

from . import common as C
from . import observe as O
from . import lexfam as L
from . import c07

PID = 'C06'
MC_CFG = '''SPECIFICATION Spec
CONSTANTS
  MaxLen = %(L)d
INVARIANT MachineIsCoordWhenFlagged
INVARIANT UnflaggedNewlineBreaksCoord
CHECK_DEADLOCK FALSE
'''
TEXT_ALPHABET = 'ab \n\n1+'


def tree_grammar(terms, rng):
    kept = [t.name for t in terms if not t.ign]
    a = rng.choice(kept)
    b = rng.choice(kept)
    c = rng.choice(kept)
    shapes = [
        'start: item*\nitem: %s _sep %s | "(" item ")"\n_sep: %s\n' % (a, b, c),
        'start: (pair | %s)*\npair: "<" %s ">" | "<" pair %s ">"\n' % (a, b, c),
        'start: _list\n_list: elem | _list elem\nelem: %s | "[" %s "]" | "[" _list "]"\n' % (a, b),
        '!start: grp*\ngrp: %s | "{" grp* "}"\n' % a,
    ]
    g = rng.choice(shapes)
    for t in terms:
        g += t.lark_def() + '\n'
    for t in terms:
        if t.ign:
            g += '%%ignore %s\n' % t.name
    return g


def flatten(A, B, data):
    """A: tree parsed with keep_all_tokens, B: the same parse with filtering. -> (token rows, node rows)"""
    from lark import Tree, Token
    toks, nodes = [], []

    def leaves(t):
        out = []
        for ch in t.children:
            if isinstance(ch, Token):
                out.append([ch.start_pos, ch.end_pos])
            elif isinstance(ch, Tree):
                out += leaves(ch)
        return out

    def span(ch):
        if isinstance(ch, Token):
            return [ch.start_pos, ch.end_pos]
        if isinstance(ch, Tree) and not ch.meta.empty:
            return [ch.meta.start_pos, ch.meta.end_pos]
        return None

    def meta_row(t):
        m = t.meta
        return [m.start_pos, m.end_pos, m.line, m.column, m.end_line, m.end_column]

    def walk(a, b):
        for ch in a.children:
            if isinstance(ch, Token):
                toks.append([0, ch.start_pos, ch.end_pos, ch.line, ch.column, ch.end_line, ch.end_column,
                             bool(data[ch.start_pos:ch.end_pos] == ch.value)])
        if not a.meta.empty:
            same = True
            if b is not None:
                same = (not b.meta.empty) and meta_row(a) == meta_row(b)
            nodes.append(meta_row(a) + [leaves(a), [s for s in (span(c) for c in a.children) if s], bool(same)])
        elif b is not None and not b.meta.empty:
            nodes.append([0, 0, 0, 0, 0, 0, [], [], False])
        ka = [c for c in a.children if isinstance(c, Tree)]
        kb = [c for c in b.children if isinstance(c, Tree)] if b is not None else []
        if len(ka) != len(kb):
            kb = [None] * len(ka)
        for x, y in zip(ka, kb):
            walk(x, y)
    walk(A, B)
    return toks, nodes


def observe_case(spec):
    import logging
    logging.disable(logging.CRITICAL)
    from lark import Lark
    case = c07.observe_case(dict(spec, stmts=spec.get('stmts')))
    if case['skip']:
        return case
    terms = c07.build(spec)
    tg = spec.get('tree_grammar')
    if tg:
        use_bytes = spec.get('bytes', False)
        for cfgname, parser, lexer in (('lalr/basic', 'lalr', 'basic'), ('lalr/contextual', 'lalr', 'contextual'),
                                       ('earley/basic', 'earley', 'basic'), ('earley/dynamic', 'earley', 'dynamic'),
                                       ('earley/dynamic_complete', 'earley', 'dynamic_complete')):
            try:
                with O.budget(30):
                    pa = Lark(tg, parser=parser, lexer=lexer, propagate_positions=True, keep_all_tokens=True, use_bytes=use_bytes)
                    pb = Lark(tg, parser=parser, lexer=lexer, propagate_positions=True, use_bytes=use_bytes)
            except Exception:
                continue
            for text in spec['texts']:
                data = text.encode('latin1') if use_bytes else text
                try:
                    with O.budget(20):
                        A = pa.parse(data)
                        B = pb.parse(data)
                except Exception:
                    continue
                results = [(cfgname, A, B)]
                if parser == 'lalr':
                    # the same parse taken through the interactive parser, with a fork (copy / as_immutable) after k tokens:
                    # the fork goes on lexing from a copied lexer state, and its result is a parse result like any other
                    k = (len(text) * 7 + len(case['runs'])) % 7
                    try:
                        with O.budget(20):
                            forks = []
                            for pp in (pa, pb):
                                ip = pp.parse_interactive(data)
                                n = 0
                                if k:
                                    for tok in ip.lexer_thread.lex(ip.parser_state):
                                        ip.feed_token(tok)
                                        n += 1
                                        if n == k:
                                            break
                                c = ip.copy() if k % 2 else ip.as_immutable().as_mutable()
                                if (k // 2) % 2:
                                    forks.append(c.resume_parse())
                                else:
                                    rest = c.exhaust_lexer()
                                    forks.append(c.feed_eof(rest[-1] if rest else None))
                        results.append((cfgname + '+fork', forks[0], forks[1]))
                    except Exception:
                        case['fork_failed'] = case.get('fork_failed', 0) + 1
                for cn, A, B in results:
                    toks, nodes = flatten(A, B, data)
                    case['runs'].append({'n': len(text), 'M': [], 'NL': L.nl_offsets(data), 'a': 0, 'text': json.dumps(text), 'mode': 'tree',
                                         'cfg': cn, 'toks': toks, 'among': [[]], 'err': -1, 'ecls': '', 'eline': 0, 'ecol': 0,
                                         'basicacc': False, 'ctxacc': False, 'same': False, 'overlap': False,
                                         'dyn': 'dynamic' in lexer, 'nodes': nodes})
        case['tgtext'] = tg
    return case


def specs(tier, rng):
    out = []
    n = C.scale(1800 if tier == 'quick' else 18000)
    keys = list(L.CATALOGUE)
    for i in range(n):
        terms = L.random_termset(rng, keys=keys, newline_bias=(i % 4 != 3))
        texts = sorted({L.random_text(rng, alphabet=TEXT_ALPHABET) for _ in range(10)} |
                       {'a\na', 'a\n\nb', '\na b\n', 'ab \n 1', '/*a\nb*/a'})
        sp = {'terms': [(t.name, t.key, t.prio, t.ign) for t in terms], 'texts': texts, 'bytes': (i % 3 == 2), 'family': 'F_term(newline)'}
        if i % 2 == 0:
            sp['stmts'] = c07.random_stmts(terms, rng)
        if i % 3 != 1:
            sp['tree_grammar'] = tree_grammar(terms, rng)
            sp['texts'] = sorted(set(texts) | tree_texts(terms, rng))
        out.append(sp)
    return out


def tree_texts(terms, rng):
    """texts likely to parse with the tree grammars: brackets around sample matches of the kept terminals"""
    samples = {'A': 'a', 'B': 'b', 'AB': 'ab', 'IF': 'if', 'IFI': 'IF', 'IFU': 'IF', 'IN': 'in', 'PLUS': '+', 'PP': '++', 'EQ': '=',
               'EQEQ': '==', 'ONE': '1', 'LOW': 'ab', 'UPP': 'AB', 'LOWI': 'aB', 'WORD': 'a1', 'IDENT': 'a1', 'AS': 'aa', 'AOB': 'ab',
               'ALT': 'a', 'NUM': '11', 'SPT': ' ', 'WS': ' \n', 'NOTA': 'b\nb', 'DOT': 'b', 'DOTS': '\n', 'CTRL': '\n ', 'NONW': '\n+',
               'NOND': '\n', 'NL': '\n', 'NLO': '\n', 'NLX': '\n\n', 'NLC': '\n', 'SP': ' ', 'COMMENT': '#a', 'ANYS': '\nb', 'NLSTR': '\n',
               'SPNL': ' \n', 'NONS': 'ab', 'MLC': '/*\n*/'}
    kept = [t for t in terms if not t.ign]
    ig = [samples[t.key] for t in terms if t.ign] or ['']
    out = set()
    for _ in range(8):
        parts = []
        for _ in range(rng.choice([1, 2, 3, 4])):
            s = samples[rng.choice(kept).key]
            br = rng.choice(['', '', '()', '<>', '[]', '{}'])
            parts.append((br[0] + s + rng.choice(ig) + s + br[1]) if br else s)
            parts.append(rng.choice(ig))
        out.add(''.join(parts)[:12])
    return out


def known_matcher(fnd, case):
    k = fnd.get('match', {}).get('kind')
    if k == 'newline-flag-heuristic':
        return case.get('clause', '').endswith('@newline-flag')
    if k == 'token-through-expand1':
        return case.get('clause', '').endswith('@token-through-expand1')
    if k == 'ambig-child-skipped':
        return case.get('clause', '').startswith('explicit:') and case.get('clause', '').endswith('@through-ambig')
    return False


def batch_of(cases):
    out = []
    for c in cases:
        runs = []
        for r in c['runs']:
            if r['mode'] in ('refine',):
                continue
            d = {k: r[k] for k in ('n', 'M', 'NL', 'a', 'mode', 'toks', 'among', 'err', 'ecls', 'eline', 'ecol',
                                   'basicacc', 'ctxacc', 'same', 'overlap')}
            d['dyn'] = r.get('dyn', False)
            d['nodes'] = r.get('nodes', [])
            runs.append(d)
        out.append({'T': c['T'], 'rank': c['rank'], 'SM': c['SM'], 'order': c['order'], 'runs': runs, '_src': c})
    return out


def judge(cases, ev, rep, tmp, name):
    CH = 300
    flat = batch_of(cases)
    jobs = []
    for off in range(0, len(flat), CH):
        chunk = flat[off:off + CH]
        path = C.write_batch({'cases': [{k: v for k, v in c.items() if k != '_src'} for c in chunk]}, tmp, 'c06_%s_%d.json' % (name, off))
        jobs.append((chunk, path))
    from concurrent.futures import ThreadPoolExecutor

    def one(path):
        return C.tlc('TraceLex', c07.TRACE_CFG, env={'VERIF_BATCH': path, 'VERIF_WHICH': 'C06'}, workers=4, continue_=True, timeout=3000)
    with ThreadPoolExecutor(4) as ex:
        results = list(ex.map(one, [j[1] for j in jobs]))
    for (chunk, path), res in zip(jobs, results):
        C.tlc_must_run(res, 'TraceLex')
        ev.add_tlc('TraceLex[C06]:%s' % name, res, 'trace')
        os.remove(path)
        if res.violated and not res.verdicts:
            raise C.MachineryFailure('TraceLex violation without VERDICT line')
        for v in sorted(set(tuple(x) for x in res.verdicts)):
            tid, k, clause = int(v[0]), int(v[1]), v[2]
            c = chunk[tid - 1]
            r = c['runs'][k - 1]
            src = c['_src']
            if clause.startswith('drift:'):
                ev.cov['drift'] += 1
                ev.cov.setdefault('drift_samples', []).append({'clause': clause, 'grammar': src['gtext']})
                continue
            srun = [x for x in src['runs'] if x['mode'] != 'refine'][k - 1]
            g = src.get('tgtext') if r['mode'] == 'tree' else (src.get('sgtext') if r['mode'] == 'ctx' else src['gtext'])
            rep.violation({'property': PID, 'family': src['family'], 'grammar': g, 'text': json.loads(srun['text']), 'mode': r['mode'],
                           'cfg': srun.get('cfg', r['mode']), 'bytes': src['spec'].get('bytes', False), 'clause': clause, 'spec': src['spec'],
                           'tokens': r['toks'][:12], 'nodes': r['nodes'][:6]})
    ev.cov['drift_samples'] = ev.cov.get('drift_samples', [])[:5]


# ---- ambiguity='explicit': nesting law on the trees Earley returns (TraceSpans.tla) -----------------------------------------
AMB_HAND = [
    ('start: x C\nx: a | b\na: B\nb: B\nB: "b"\nC: "c"\n%ignore /\\s+/\n', ['b\nc', 'b c', 'bc']),
    ('start: C x\nx: a | b\na: B\nb: B\nB: "b"\nC: "c"\n%ignore /\\s+/\n', ['c\nb', 'cb']),
    ('start: x+\nx: a | b | a b\na: B\nb: B\nB: "b"\n%ignore /\\s+/\n', ['b b', 'b\nb\nb']),
    ('start: a | "(" d ")"\nd: b\n?a: "(" b ")"\nb: B\nB: "b"\n%ignore /\\s+/\n', ['(b)', '( b\n)']),
    ('start: e\ne: e "+" e | N\nN: "1"\n%ignore /\\s+/\n', ['1+1+1', '1 +\n1 + 1']),
]


def amb_case(job):
    import logging
    logging.disable(logging.CRITICAL)
    from lark import Lark, Tree, Token
    g, text, lexer = job
    case = {'grammar': g, 'text': text, 'lexer': lexer, 'nodes': [], 'skip': '', 'ambig': 0}
    try:
        with O.budget(20):
            t = Lark(g, parser='earley', lexer=lexer, ambiguity='explicit', propagate_positions=True).parse(text)
    except Exception as e:
        case['skip'] = type(e).__name__
        return case
    if not isinstance(t, Tree):
        case['skip'] = 'no tree'
        return case

    def extent(c):
        # <<start, end, through>> of a child, or None when it has no extent (None placeholder, empty tree)
        if isinstance(c, Token):
            return [c.start_pos, c.end_pos, 0] if c.start_pos is not None else None
        if isinstance(c, Tree):
            if c.data == '_ambig':
                ex = [extent(a) for a in c.children]
                ex = [e for e in ex if e]
                return [min(e[0] for e in ex), max(e[1] for e in ex), 1] if ex else None
            return [c.meta.start_pos, c.meta.end_pos, 0] if not c.meta.empty else None
        return None
    seen = set()
    for n in t.iter_subtrees():
        if id(n) in seen:
            continue
        seen.add(id(n))
        if n.data == '_ambig':
            case['ambig'] += 1
            continue
        if n.meta.empty:
            continue
        kids = [e for e in (extent(c) for c in n.children) if e]
        case['nodes'].append([n.meta.start_pos, n.meta.end_pos, kids])
        if len(case['nodes']) >= 400:
            break
    return case


def amb_phase(tier, rng, ev, rep, tmp):
    from . import ebnf as E
    jobs = []
    for g, texts in AMB_HAND:
        for text in texts:
            for lx in ('basic', 'dynamic', 'dynamic_complete'):
                jobs.append((g, text, lx))
    for _ in range(C.scale(300 if tier == 'quick' else 3000)):
        G = E.rand_grammar(rng, depth=2)
        gt = E.grammar_text(G) + '%ignore /[ \\n]+/\n'
        for _k in range(4):
            w = E.sample_sentence(G, rng, maxlen=6)
            if w:
                text = ''.join(E.to_text([x]) + rng.choice(['', ' ', '\n']) for x in w)
                jobs.append((gt, text, rng.choice(['basic', 'dynamic'])))
    cases = [c for c in C.pmap(amb_case, jobs) if not c['skip'] and c['nodes']]
    ev.count('explicit_ambiguity_parses', len(cases))
    ev.count('explicit_ambiguity_parses_with_ambig_nodes', sum(1 for c in cases if c['ambig']))
    ev.count('explicit_ambiguity_nodes', sum(len(c['nodes']) for c in cases))
    CH = 1500
    paths = []
    for off in range(0, len(cases), CH):
        paths.append(C.write_batch({'cases': [{'nodes': c['nodes']} for c in cases[off:off + CH]]}, tmp, 'c06_amb_%d.json' % off))
    results = C.tlc_parallel('TraceSpans', 'SPECIFICATION Spec\nINVARIANT VerdictOk\nCHECK_DEADLOCK FALSE\n', paths, continue_=True, timeout=3000)
    for i, res in enumerate(results):
        C.tlc_must_run(res, 'TraceSpans')
        ev.add_tlc('TraceSpans:explicit', res, 'trace')
        if res.violated and not res.verdicts:
            raise C.MachineryFailure('TraceSpans violation without VERDICT line')
        for v in sorted(set(tuple(x) for x in res.verdicts)):
            c = cases[i * CH + int(v[0]) - 1]
            rep.violation({'property': PID, 'clause': 'explicit:' + v[2], 'grammar': c['grammar'], 'text': c['text'], 'lexer': c['lexer'],
                           'node': c['nodes'][int(v[1]) - 1], 'amb_spec': [c['grammar'], c['text'], c['lexer']]})
    if ev.cov['counts'].get('explicit_ambiguity_parses_with_ambig_nodes', 0) < 30:
        raise C.MachineryFailure('vacuity: %s' % ev.cov['counts'])


def body(tier, seed, replay):
    ev = C.Evidence(PID, tier, seed)
    rep = C.Reporter(PID, ev, known_matcher)
    rng = random.Random(seed)
    tmp = C.scratch_dir('c06_')
    try:
        if replay and 'builder_spec' in json.load(open(replay)):
            from . import tb
            sp = json.load(open(replay))['builder_spec']
            sp['inputs'] = [tuple(w) for w in sp['inputs']]
            tb.judge(PID, [c for c in [tb.observe_case(sp)] if not c['skip']], ev, rep, tmp, 'replay')
            return rep.finish()
        if replay and 'amb_spec' in json.load(open(replay)):
            global AMB_HAND
            g, text, lx = json.load(open(replay))['amb_spec']
            case = amb_case((g, text, lx))
            path = C.write_batch({'cases': [{'nodes': case['nodes']}]}, tmp, 'c06_amb_replay.json')
            res = C.tlc_parallel('TraceSpans', 'SPECIFICATION Spec\nINVARIANT VerdictOk\nCHECK_DEADLOCK FALSE\n', [path], continue_=True, timeout=600)[0]
            C.tlc_must_run(res, 'TraceSpans')
            for v in sorted(set(tuple(x) for x in res.verdicts)):
                rep.violation({'property': PID, 'clause': 'explicit:' + v[2], 'grammar': g, 'text': text, 'lexer': lx, 'amb_spec': [g, text, lx]})
            return rep.finish()
        if replay:
            case = json.load(open(replay))
            sp = dict(case['spec'])
            sp['texts'] = [case['text']]
            judge([observe_case(sp)], ev, rep, tmp, 'replay')
            return rep.finish()
        res = C.tlc('MC_LineCounter', MC_CFG % dict(L=4 if tier == 'quick' else 5), timeout=3000)
        C.tlc_must_run(res, 'MC_LineCounter')
        ev.add_tlc('MC_LineCounter', res, 'design')
        if not res.ok:
            raise C.MachineryFailure('MC_LineCounter: design-level invariant %s violated' % res.violated)
        cases = [c for c in C.pmap(observe_case, specs(tier, rng)) if not c['skip']]
        for c in cases:
            ev.count('terminal_sets')
            for r in c['runs']:
                if r['mode'] == 'refine':
                    continue
                ev.count('runs:' + (r.get('cfg') or r['mode']))
                ev.count('tokens', len(r['toks']))
                ev.count('tree_nodes', len(r.get('nodes', [])))
                if any(t[6] > 1 for t in r['toks']):
                    ev.count('runs_with_tokens_after_a_newline')
        ev.cov['traces_validated_against_impl'] = sum(1 for c in cases for r in c['runs'] if r['mode'] != 'refine')
        c = next(c for c in cases if any(r['mode'] == 'tree' and r['nodes'] for r in c['runs']))
        r = next(r for r in c['runs'] if r['mode'] == 'tree' and r['nodes'])
        ev.sample({'grammar': c['tgtext'], 'text': json.loads(r['text']), 'cfg': r['cfg'], 'tokens': r['toks'][:4], 'nodes': r['nodes'][:2]})
        judge(cases, ev, rep, tmp, 'sweep')
        # L1: the positions every reduction of the real LALR parser sets, against PropagatePositions of TreeBuilder.tla
        from . import tb
        tb.phase(PID, tier, rng, ev, rep, tmp, n_quick=1500, n_thorough=12000)
        amb_phase(tier, rng, ev, rep, tmp)
        if ev.cov['counts'].get('runs_with_tokens_after_a_newline', 0) < 2000 or ev.cov['counts'].get('tree_nodes', 0) < 2000:
            raise C.MachineryFailure('vacuity: %s' % ev.cov['counts'])
        ev.assumptions += ['newline offsets of the text and the extents of tokens are taken from the text itself; Python re decides single-terminal matches']
        return rep.finish()
    finally:
        shutil.rmtree(tmp, ignore_errors=True)


if __name__ == '__main__':
    C.run_check(PID, body)
