"""C14 - scan() yields leftmost-longest non-overlapping matches consistent with parse().

design : Scan.tla = Lexer.tla (in-context tokenisation) + LALR.tla (automaton) : L0 leftmost successful attempt with
         longest completion, L1 the code's loop (pos bookkeeping); TraceScan checks L1 = L0 on every run it judges
binding: TraceScan.tla judges the spans the real scan() yields (basic and contextual lexers, str, bytes and TextSlice
         windows), together with value == parse(snippet) and buffer coordinates compared on the real objects.
"""
import json
import os
import random
import shutil

from . import common as C
from . import observe as O
from . import lexfam as L

PID = 'C14'
TRACE_CFG = 'SPECIFICATION Spec\nINVARIANT VerdictOk\nCHECK_DEADLOCK FALSE\n'
L.CATALOGUE.setdefault('IGAB', ('re', 'ab+', ''))
L.CATALOGUE.setdefault('C', ('str', 'c', ''))
L.CATALOGUE.setdefault('D', ('str', 'd', ''))
L.CATALOGUE.setdefault('X_BA', ('re', 'ba', ''))
KEPT = ['A', 'B', 'AB', 'C', 'D', 'IF', 'LOW', 'NUM', 'AS', 'ONE', 'PLUS', 'EQ', 'IDENT']
IGN = ['SPT', 'WS', 'IGAB', 'SP', 'COMMENT']
ALPHA = 'abcd if1+= \n#'


def random_grammar(rng):
    kept = rng.sample(KEPT, rng.choice([2, 3, 3, 4]))
    ign = rng.sample(IGN, rng.choice([0, 1, 1, 2]))
    terms = [L.Term(rng.choice('KLMNPQ') + 'K_' + k, k, prio=rng.choice([0, 0, 0, 1])) for k in kept]
    terms += [L.Term('W' + rng.choice('ABC') + '_' + k, k, ign=True) for k in ign]
    names = [t.name for t in terms if not t.ign]
    alts = []
    for _ in range(rng.choice([1, 2, 2, 3])):
        alts.append(' '.join(rng.choice(names + ['x']) for _ in range(rng.choice([1, 2, 2, 3]))))
    if rng.random() < 0.2:
        alts.append('')           # nullable start
    xr = '%s | %s x' % (rng.choice(names), rng.choice(names))
    g = 'start: %s\nx: %s\n' % (' | '.join(alts), xr)
    for t in terms:
        g += t.lark_def() + '\n'
    for t in terms:
        if t.ign:
            g += '%%ignore %s\n' % t.name
    return g, terms


def observe_case(spec):
    import logging
    logging.disable(logging.CRITICAL)
    from lark import Lark, Tree, Token
    from lark.utils import TextSlice
    g = spec['gtext']
    terms = [L.Term(n, k, prio=p, ign=i) for n, k, p, i in spec['terms']]
    case = {'gtext': g, 'skip': '', 'runs': [], 'spec': spec}
    ps = {}
    try:
        for lx in ('basic', 'contextual'):
            with O.budget(30):
                ps[(lx, False)] = Lark(g, parser='lalr', lexer=lx, propagate_positions=True)
                ps[(lx, True)] = Lark(g, parser='lalr', lexer=lx, propagate_positions=True, use_bytes=True)
    except Exception as e:
        case['skip'] = type(e).__name__
        return case
    p0 = ps[('basic', False)]
    used = {s.name for r in p0.rules for s in r.expansion if s.is_term} | {t.name for t in terms if t.ign}
    lexer_terms = {t.name for t in p0.terminals}
    terms = [t for t in terms if t.name in lexer_terms]          # lark drops unused terminals from the lexer
    case['T'] = [t.json(False) for t in terms]
    case['rank'] = L.rank_of(terms)
    case['SM'] = L.spelling_matrix(terms)
    case['rules'] = [{'lhs': str(r.origin.name), 'rhs': [str(s.name) for s in r.expansion], 'prio': r.options.priority or 0} for r in p0.rules]
    case['start'] = 'start'

    def coords(buf, pos):
        nl = b'\n' if isinstance(buf, bytes) else '\n'
        return buf.count(nl, 0, pos) + 1, pos - (buf.rfind(nl, 0, pos) + 1) + 1

    for text, a, b, use_bytes in spec['runs']:
        buf = text.encode('latin1') if use_bytes else text
        arg = buf if (a == 0 and b == len(text)) else TextSlice(buf, a, b)
        for lx in ('basic', 'contextual'):
            p = ps[(lx, use_bytes)]
            real, exc = [], ''
            try:
                with O.budget(20):
                    for m in p.scan(arg):
                        s, e = m.range if hasattr(m, 'range') else m[0]
                        val = m.value if hasattr(m, 'value') else m[1]
                        snippet = buf[s:e]
                        try:
                            ref = p.parse(snippet)
                            vok = O.tree_json(ref) == O.tree_json(val)
                        except Exception:
                            vok = False
                        cok = True
                        toks = list(val.scan_values(lambda v: isinstance(v, Token))) if isinstance(val, Tree) else []
                        for t in toks:
                            ln, col = coords(buf, t.start_pos)
                            if buf[t.start_pos:t.end_pos] != t.value or t.line != ln or t.column != col or not (s <= t.start_pos <= t.end_pos <= e):
                                cok = False
                        if isinstance(val, Tree) and not val.meta.empty:
                            ln, col = coords(buf, val.meta.start_pos)
                            if val.meta.line != ln or val.meta.column != col or val.meta.start_pos != s or val.meta.end_pos != e:
                                cok = False
                        real.append([s, e, bool(vok), bool(cok)])
            except Exception as ex:
                exc = type(ex).__name__
            # the statement read over SUBSTRINGS: every [s, e) whose text parses on its own with no ignored text at either end
            # (the first fed token starts the snippet, the last one ends it) - for unwindowed str runs of the first texts
            sub, hassub = [], False
            if not use_bytes and a == 0 and b == len(text) and not exc and spec.get('substr') and len(text) <= 9:
                hassub = True
                for s0 in range(len(text)):
                    for e0 in range(s0 + 1, len(text) + 1):
                        try:
                            with O.budget(5):
                                ip = p.parse_interactive(text[s0:e0])
                                fed = list(ip.iter_parse())
                                ip.feed_eof(fed[-1] if fed else None)
                            if fed and fed[0].start_pos == 0 and fed[-1].end_pos == e0 - s0:
                                sub.append([s0, e0])
                        except Exception:
                            pass
            M = L.match_table(terms, buf, a, b, use_bytes=use_bytes)
            case['runs'].append({'n': b, 'a': a, 'M': M, 'contextual': lx == 'contextual', 'real': real, 'exc': exc, 'sub': sub, 'hassub': hassub,
                                 'label': {'text': text, 'window': [a, b], 'bytes': use_bytes, 'lexer': lx}})
    return case


def specs(tier, rng):
    out = []
    for i in range(C.scale(2000 if tier == 'quick' else 14000)):
        g, terms = random_grammar(rng)
        runs = []
        for _ in range(10):
            text = ''.join(rng.choice(ALPHA) for _ in range(rng.randint(1, 9)))
            a, b = 0, len(text)
            if rng.random() < 0.3 and len(text) > 2:
                a = rng.randint(0, len(text) - 1)
                b = rng.randint(a, len(text))
            runs.append([text, a, b, rng.random() < 0.25])
        for text in ('abbcx', 'abbcd', 'ab ab', 'if a=1 b', 'a\nb c\nd'):
            runs.append([text, 0, len(text), False])
        out.append({'gtext': g, 'terms': [(t.name, t.key, t.prio, t.ign) for t in terms], 'runs': runs, 'substr': i % 2 == 0})
    # maximal munch beyond the end of a snippet that parses, and a match start inside a prefix the attempt ignored (hunted, DESIGN 7b)
    out.append({'gtext': 'start: (A | AB C)+\nA: "a"\nAB: "ab"\nC: "c"\n', 'terms': [('A', 'A', 0, False), ('AB', 'AB', 0, False), ('C', 'C', 0, False)],
                'runs': [[t, 0, len(t), False] for t in ('aab', 'aabc', 'ab', 'aaab')], 'substr': True})
    out.append({'gtext': 'start: A | B\nA: "a"\nB: "b"\nIG: /ba/\n%ignore IG\n', 'terms': [('A', 'A', 0, False), ('B', 'B', 0, False), ('IG', 'X_BA', 0, True)],
                'runs': [[t, 0, len(t), False] for t in ('baa', 'ba', 'bba')], 'substr': True})
    # the shape that hides a match inside text an earlier attempt ignored
    fixed = 'start: A C | B C | C D\nA: "a"\nB: "b"\nC: "c"\nD: "d"\nIG: /ab+/\n%ignore IG\n'
    out.append({'gtext': fixed, 'terms': [('A', 'A', 0, False), ('B', 'B', 0, False), ('C', 'C', 0, False), ('D', 'D', 0, False), ('IG', 'IGAB', 0, True)],
                'runs': [[t, 0, len(t), False] for t in ('abbcx', 'abbcd', 'xabbc', 'abbc', 'bcabbcd', 'abcabbcx')]})
    return out


def judge(cases, ev, rep, tmp, name):
    CH = 150
    jobs = []
    keys = ('T', 'rank', 'SM', 'rules', 'start')
    for off in range(0, len(cases), CH):
        chunk = cases[off:off + CH]
        batch = {'cases': [dict({k: c[k] for k in keys}, runs=[{k: r[k] for k in ('n', 'a', 'M', 'contextual', 'real', 'exc', 'sub', 'hassub')} for r in c['runs']]) for c in chunk]}
        jobs.append((chunk, C.write_batch(batch, tmp, 'c14_%s_%d.json' % (name, off))))
    results = C.tlc_parallel('TraceScan', TRACE_CFG, [j[1] for j in jobs], continue_=True, timeout=3000)
    for (chunk, path), res in zip(jobs, results):
        C.tlc_must_run(res, 'TraceScan')
        ev.add_tlc('TraceScan:%s' % name, res, 'trace')
        os.remove(path)
        if res.violated and not res.verdicts:
            raise C.MachineryFailure('TraceScan violation without VERDICT line')
        for v in sorted(set(tuple(x) for x in res.verdicts)):
            c = chunk[int(v[0]) - 1]
            r = c['runs'][int(v[1]) - 1]
            if v[2].startswith('spec:'):
                raise C.MachineryFailure('Scan.tla: %s on %r %r' % (v[2], c['gtext'], r['label']))
            sp = dict(c['spec'])
            sp['runs'] = [[r['label']['text'], r['label']['window'][0], r['label']['window'][1], r['label']['bytes']]]
            rep.violation({'property': PID, 'clause': v[2], 'grammar': c['gtext'], 'run': r['label'], 'real_matches': r['real'], 'exc': r['exc'], 'spec': sp})


def body(tier, seed, replay):
    ev = C.Evidence(PID, tier, seed)
    rep = C.Reporter(PID, ev, lambda fnd, case: fnd['match']['kind'] == 'lexed-in-context' and case.get('clause', '').endswith('@lexed-in-context'))
    rng = random.Random(seed)
    tmp = C.scratch_dir('c14_')
    try:
        if replay:
            case = json.load(open(replay))
            judge([observe_case(case['spec'])], ev, rep, tmp, 'replay')
            return rep.finish()
        cases = [c for c in C.pmap(observe_case, specs(tier, rng)) if not c['skip']]
        for c in cases:
            ev.count('grammars')
            for r in c['runs']:
                ev.count('scans')
                ev.count('matches', len(r['real']))
                if r['label']['window'] != [0, len(r['label']['text'])]:
                    ev.count('window_scans')
                if len(r['real']) >= 2:
                    ev.count('scans_with_several_matches')
        ev.cov['traces_validated_against_impl'] = ev.cov['counts'].get('scans', 0)
        c = next(c for c in cases if any(len(r['real']) >= 2 for r in c['runs']))
        r = next(r for r in c['runs'] if len(r['real']) >= 2)
        ev.sample({'grammar': c['gtext'], 'run': r['label'], 'matches': r['real']})
        judge(cases, ev, rep, tmp, 'sweep')
        if ev.cov['counts'].get('matches', 0) < 3000 or ev.cov['counts'].get('scans_with_several_matches', 0) < 200:
            raise C.MachineryFailure('vacuity: %s' % ev.cov['counts'])
        ev.assumptions += ['"snippet that parses" is read with in-context tokenisation from the candidate start (DESIGN 6/C14)',
                           'value == parse(snippet) and buffer coordinates are compared on the real objects by the harness']
        return rep.finish()
    finally:
        shutil.rmtree(tmp, ignore_errors=True)


if __name__ == '__main__':
    C.run_check(PID, body)
