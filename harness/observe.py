"""Observation of the real lark (imported from /repo's working tree): outcomes as JSON-able values."""
import re
import signal
import sys
import os

from .common import REPO

if REPO not in sys.path:
    sys.path.insert(0, REPO)


class Hang(Exception):
    pass


def _alarm(signum, frame):
    raise Hang()


class budget:
    """with budget(seconds): ...   raises Hang if the block uses more than `seconds` of CPU time (pure-Python code only).

    CPU time (ITIMER_PROF), not wall-clock time: a loop that never ends burns CPU and is caught, while a machine that is
    busy with other work (the checks run 16 workers, and other checks may run beside them) does not turn a slow parse
    into a "hang".  A generous wall-clock timer stays armed as a safety net for blocking waits."""

    def __init__(self, seconds):
        self.seconds = seconds

    def __enter__(self):
        if self.seconds is None:        # no budget (threads other than the main one cannot use signals)
            return
        self.old = signal.signal(signal.SIGPROF, _alarm)
        self.old_real = signal.signal(signal.SIGALRM, _alarm)
        signal.setitimer(signal.ITIMER_PROF, self.seconds)
        signal.setitimer(signal.ITIMER_REAL, max(120.0, 40.0 * self.seconds))

    def __exit__(self, *a):
        if self.seconds is None:
            return False
        signal.setitimer(signal.ITIMER_PROF, 0)
        signal.setitimer(signal.ITIMER_REAL, 0)
        signal.signal(signal.SIGPROF, self.old)
        signal.signal(signal.SIGALRM, self.old_real)
        return False


def tok_json(t):
    return ['T', str(t.type), str(t) if not isinstance(t.value, bytes) else t.value.decode('latin1'),
            t.start_pos, t.end_pos, t.line, t.column, t.end_line, t.end_column]


def _is_token(t):
    return isinstance(t, (str, bytes)) and hasattr(t, 'type') and hasattr(t, 'start_pos')


def _is_tree(t):
    return hasattr(t, 'data') and hasattr(t, 'children') and not isinstance(t, (str, bytes))


def tree_json(t, positions=False, meta=False, container=False):
    """Tree -> nested lists. Tokens: ['T', type, value(, positions)], None: ['N'], Tree: ['R', data, [children](, meta)]
    (duck-typed: the stand-alone module has its own Tree and Token classes)"""
    if t is None:
        return ['N']
    if _is_token(t):
        v = t.value.decode('latin1') if isinstance(t.value, bytes) else str(t.value)
        if positions:
            return ['T', str(t.type), v, t.start_pos, t.end_pos, t.line, t.column, t.end_line, t.end_column]
        return ['T', str(t.type), v]
    if _is_tree(t):
        r = ['R', str(t.data), [tree_json(c, positions, meta, container) for c in t.children]]
        if meta:
            m = t.meta
            if getattr(m, 'empty', True):
                r.append([])
            else:
                r.append([m.start_pos, m.end_pos, m.line, m.column, m.end_line, m.end_column])
                if container:
                    r.append([getattr(m, a, None) for a in ('container_start_pos', 'container_end_pos', 'container_line', 'container_column',
                                                            'container_end_line', 'container_end_column')])
        return r
    if isinstance(t, (str, bytes)):
        return ['S', t if isinstance(t, str) else t.decode('latin1')]
    return ['O', repr(t)]


def _mro_names(e):
    return {c.__name__ for c in type(e).__mro__}


def error_json(e):
    names = _mro_names(e)
    ui = 'UnexpectedInput' in names
    d = {'out': 'reject', 'cls': type(e).__name__, 'ui': ui}
    if ui:
        d['pos'] = e.pos_in_stream if e.pos_in_stream is not None else -1
        d['line'] = e.line if isinstance(getattr(e, 'line', None), int) else -1
        d['column'] = e.column if isinstance(getattr(e, 'column', None), int) else -1
    if 'UnexpectedToken' in names:
        d['expected'] = sorted(str(x) for x in (e.expected or ()))
        try:
            d['accepts'] = sorted(str(x) for x in e.accepts) if e.accepts is not None and e.accepts != '<unknown>' else None
        except Exception:
            d['accepts'] = None
        tk = e.token
        d['token_type'] = str(getattr(tk, 'type', ''))
        d['token_pos'] = getattr(tk, 'start_pos', None)
    elif 'UnexpectedCharacters' in names:
        d['allowed'] = sorted(str(x) for x in (e.allowed or ()))
    elif 'UnexpectedEOF' in names:
        d['expected'] = sorted(str(getattr(x, 'name', x)) for x in (e.expected or ()))
    return d


def parse_outcome(parser, text, positions=False, meta=False, tree=True, seconds=20, **kw):
    err = None
    try:
        with budget(seconds):
            t = parser.parse(text, **kw)
    except (Hang, MemoryError):
        return {'out': 'hang', 'ui': False, 'cls': 'Hang'}
    except Exception as e:
        err = e
    if err is not None:
        # UnexpectedToken.accepts is computed lazily by trial feeding: it can loop where the automaton loops
        try:
            with budget(seconds):
                return error_json(err)
        except (Hang, MemoryError):
            d = {'out': 'reject', 'cls': type(err).__name__, 'ui': True, 'pos': getattr(err, 'pos_in_stream', -1) or -1,
                 'accepts': None, 'accepts_hang': True, 'expected': []}
            return d
    d = {'out': 'accept', 'ui': False, 'cls': ''}
    if tree:
        d['tree'] = tree_json(t, positions, meta)
    return d


def construct(grammar, seconds=30, **opts):
    """-> (Lark instance or None, outcome dict)"""
    from lark import Lark
    try:
        with budget(seconds):
            p = Lark(grammar, **opts)
    except Hang:
        return None, {'out': 'hang', 'cls': 'Hang', 'msg': ''}
    except Exception as e:
        return None, {'out': 'error', 'cls': type(e).__name__, 'msg': str(e)[:300]}
    return p, {'out': 'ok', 'cls': '', 'msg': ''}


def compiled_rules_json(parser):
    """lark's compiled BNF rules, in order (rule id = index+1 in TLA+)"""
    out = []
    for r in parser.rules:
        o = r.options
        out.append({'lhs': str(r.origin.name), 'rhs': [str(s.name) for s in r.expansion],
                    'isterm': [bool(s.is_term) for s in r.expansion],
                    'filter': [bool(getattr(s, 'filter_out', False)) for s in r.expansion],
                    'alias': str(r.alias) if r.alias else '', 'order': r.order,
                    'prio': o.priority if o.priority is not None else 0,
                    'hasprio': o.priority is not None,
                    'keepall': bool(o.keep_all_tokens), 'expand1': bool(o.expand1),
                    'empty': [bool(x) for x in (o.empty_indices or ())],
                    'tmpl': str(o.template_source) if o.template_source else ''})
    return out


# ---- regex oracle: spans of terminals over a text (Python's re is the trusted regex semantics) ----
def full_spans(pat, text):
    """all (i,j), i<j, with pat fully matching text[i:j]"""
    out = []
    n = len(text)
    for i in range(n):
        for j in range(i + 1, n + 1):
            if pat.fullmatch(text, i, j):
                out.append((i, j))
    return out


def longest_spans(pat, text):
    """greedy match end per start position (what lark's term_matcher returns)"""
    out = []
    for i in range(len(text)):
        m = pat.match(text, i)
        if m and m.end() > i:
            out.append((i, m.end()))
    return out


def greedy_is_longest(pat, text):
    """True iff for every start position Python's backtracking match is the longest full match"""
    full = {}
    for i, j in full_spans(pat, text):
        full[i] = max(full.get(i, 0), j)
    lg = dict(longest_spans(pat, text))
    return all(lg.get(i) == j for i, j in full.items()) and all(i in full for i in lg)
