"""pytest plugin: records what the tree builder does while lark's OWN test suite runs (no edit of lark, no edit of the tests).

Loaded with  -p harness.suite_plugin  (PYTHONPATH=/verif).  ParseTreeBuilder.create_callback is wrapped: when the builder
produces plain trees (no transformer, Tree as tree class, propagate_positions a bool) every rule callback it hands to the
parser records its calls - rule, children as given (metas included), result - into $VERIF_SUITE_OUT/<pid>.ndjson, one JSON
object per builder: {rules, pp, amb, ph, reds}.  harness/suite.py validates them with TraceBuilder.tla."""
import json
import os

OUT = os.environ.get('VERIF_SUITE_OUT')
MAX_PER_BUILDER = int(os.environ.get('VERIF_SUITE_MAX_PER_BUILDER', '250'))
MAX_TOTAL = int(os.environ.get('VERIF_SUITE_MAX_TOTAL', '60000'))
_state = {'total': 0, 'builders': []}


def _install():
    import lark.parse_tree_builder as ptb
    from lark.tree import Tree
    from . import tb
    orig = ptb.ParseTreeBuilder.create_callback

    def create_callback(self, transformer=None):
        cbs = orig(self, transformer)
        try:
            plain = transformer is None and self.tree_class is Tree and isinstance(self.propagate_positions, bool)
            if not plain or OUT is None:
                return cbs
            rules = [r for r, _ in self.rule_builders]
            idx = {r: i + 1 for i, r in enumerate(rules)}
            rec = {'rules': None, 'pp': bool(self.propagate_positions), 'amb': bool(self.ambiguous), 'ph': bool(self.maybe_placeholders), 'reds': [],
                   '_rules': rules}
            _state['builders'].append(rec)
            num, alive, counter = {}, [], [0]

            def wrap(rule, f):
                def g(children):
                    if len(rec['reds']) >= MAX_PER_BUILDER or _state['total'] >= MAX_TOTAL:
                        return f(children)
                    kids = [tb.val5(c) for c in children]
                    kid = [num.get(id(c), 0) if (hasattr(c, 'data') or hasattr(c, 'type')) else 0 for c in children]
                    res = f(children)
                    if hasattr(res, 'data') or hasattr(res, 'type'):
                        same = [n for c, n in zip(children, kid) if c is res and n]
                        inner = [g for c in children if hasattr(c, 'data') and str(c.data).startswith('_') for g in c.children if g is res]
                        pt = bool(same or inner or any(c is res for c in children))
                        if same:
                            rid = same[0]
                        elif inner and id(res) in num:
                            rid = num[id(res)]
                        else:
                            counter[0] += 1
                            rid = counter[0]
                        num[id(res)] = rid
                        alive.append(res)
                        if len(alive) > 5000:
                            del alive[:2500]
                    else:
                        rid, pt = 0, False
                    rec['reds'].append({'r': idx[rule], 'kids': kids, 'res': tb.val5(res), 'rid': rid, 'kid': kid, 'pt': pt})
                    _state['total'] += 1
                    return res
                return g
            return {rule: (wrap(rule, f) if rule in idx else f) for rule, f in cbs.items()}
        except Exception:
            return cbs
    ptb.ParseTreeBuilder.create_callback = create_callback


_lex = {'texts': {}, 'total': 0}
MAX_TOKENS = int(os.environ.get('VERIF_SUITE_MAX_TOKENS', '40000'))


def _install_lexer():
    """every token the basic / contextual lexers hand out while the suite runs, with the text it was cut from"""
    import lark.lexer as lx
    orig = lx.BasicLexer.next_token

    def next_token(self, lex_state, parser_state=None):
        t = orig(self, lex_state, parser_state)
        try:
            if _lex['total'] < MAX_TOKENS:
                text = lex_state.text.text
                if len(text) <= 3000:
                    key = id(text)
                    rec = _lex['texts'].get(key)
                    if rec is None or rec['text'] is not text:
                        rec = _lex['texts'][key] = {'text': text, 'toks': []}
                    if len(rec['toks']) < 300 and isinstance(t.start_pos, int) and isinstance(t.end_pos, int):
                        val = t.value if isinstance(t.value, (str, bytes)) else None
                        rec['toks'].append([0, t.start_pos, t.end_pos, t.line, t.column, t.end_line, t.end_column,
                                            val is not None and text[t.start_pos:t.end_pos] == val])
                        _lex['total'] += 1
        except Exception:
            pass
        return t
    lx.BasicLexer.next_token = next_token


_dg = {'calls': []}


def _install_digraph():
    """every call of lalr_analysis.digraph (arguments snapshotted before the call: it mutates G in place)"""
    from lark.parsers import lalr_analysis as LA
    orig = LA.digraph

    def wrapped(X, R, G):
        try:
            Xl = list(X)
            if 0 < len(Xl) <= 80 and len(_dg['calls']) < 1500:
                idx = {x: i + 1 for i, x in enumerate(Xl)}
                vals = {}

                def vid(v):
                    return vals.setdefault(v, len(vals) + 1)
                Rj = [[idx[y] for y in R[x] if y in idx] for x in Xl]
                Gj = [sorted(vid(v) for v in G[x]) for x in Xl]
                F = orig(Xl, R, G)
                Fj = [sorted(vid(v) for v in F[x]) for x in Xl]
                _dg['calls'].append({'n': len(Xl), 'R': Rj, 'G': Gj, 'F': Fj})
                return F
        except Exception:
            pass
        return orig(X, R, G)
    LA.digraph = wrapped


def pytest_configure(config):
    if OUT:
        _install()
        _install_lexer()
        _install_digraph()


def pytest_unconfigure(config):
    if not OUT:
        return
    from . import tb

    class P:
        pass
    with open(os.path.join(OUT, '%d.digraph.ndjson' % os.getpid()), 'w') as f:
        for c in _dg['calls']:
            f.write(json.dumps(c) + '\n')
    with open(os.path.join(OUT, '%d.tokens.ndjson' % os.getpid()), 'w') as f:
        for rec in _lex['texts'].values():
            text = rec['text']
            # tokens a callback rewrote (value is not the text any more) say nothing about the lexer's coordinates
            toks = [t for t in rec['toks'] if t[7] and all(isinstance(x, int) for x in t[1:7])]
            if not toks:
                continue
            nl = b'\n' if isinstance(text, bytes) else '\n'
            offs, p = [], text.find(nl)
            while p >= 0:
                offs.append(p)
                p = text.find(nl, p + 1)
            f.write(json.dumps({'n': len(text), 'NL': offs, 'toks': toks}) + '\n')
    path = os.path.join(OUT, '%d.ndjson' % os.getpid())
    with open(path, 'w') as f:
        for rec in _state['builders']:
            if not rec['reds']:
                continue
            p = P()
            p.rules = rec.pop('_rules')
            rec['rules'] = tb.rules_json(p, rec['ph'])
            f.write(json.dumps(rec) + '\n')
