"""C04 - ambiguity='explicit' enumerates exactly all derivations (see c03.py for the shared machinery)."""
import json

from . import common as C
from . import families as F
from . import ebnf as E
from . import c03

PID = 'C04'


def extra(tier, rng, ev, rep, tmp):
    """plain BNF family incl. cyclic grammars: termination within the budget and soundness of every tree;
    acyclic BNF grammars: exact sets (ambiguity is much denser here than in F_ebnf)"""
    specs = []
    Gs = list(F.bnf_family(3))
    for Gb in F.sample(Gs, C.scale(1500 if tier == 'quick' else 9000), rng):
        G = E.from_bnf(Gb)
        ins = [w for w in F.enriched_inputs(Gb, 3, extra_len=1, rng=rng)]
        specs.append({'G': G, 'ka': False, 'ph': True, 'inputs': ins, 'explicit': True, 'collapse': True, 'only_explicit': True,
                      'allow_cyclic': True, 'family': 'F_bnf(3,3)'})
    for Gb in F.rand_family(C.scale(400 if tier == 'quick' else 4000), rng):
        G = E.from_bnf(Gb)
        ins = [w for w in F.enriched_inputs(Gb, 2, extra_len=3, rng=rng, alphabet=('X', 'Y', 'Z'))]
        specs.append({'G': G, 'ka': False, 'ph': True, 'inputs': ins, 'explicit': True, 'collapse': True, 'only_explicit': True,
                      'allow_cyclic': True, 'family': 'F_rand'})
    specs += directed_inline_ambiguity(tier, rng)
    from . import mtok
    specs += mtok.specs(C.scale(500 if tier == 'quick' else 5000), rng, explicit=True, collapse=True, only_explicit=True)
    cases = [c for c in C.pmap(c03.observe_case, specs) if not c['skip']]
    for c in cases:
        ev.count('bnf_grammars')
        ev.count('results_skipped_more_than_300_expansions', c.get('too_ambiguous', 0))
        ev.count('bnf_cyclic' if c['cyclic'] else 'bnf_acyclic')
        for i in c['inputs']:
            if c.get('multitok'):
                ev.count('multitok_inputs')
                ev.count('multitok_inputs_with_several_tokenisations', len(i['toks']) > 1)
            for o in i['exp']:
                ev.count('explicit_parses')
                if o['out'] == 0 and '_ambig' in json.dumps(o['tree']):
                    ev.count('explicit_ambiguous')
                    if c['cyclic']:
                        ev.count('explicit_ambiguous_cyclic')
    ev.cov['traces_validated_against_impl'] = ev.cov['counts'].get('explicit_parses', 0)
    c03.judge(PID, cases, ev, rep, tmp, 'bnf')
    from . import tb
    tb.phase_amb(PID, tier, rng, ev, rep, tmp, extra_specs=directed_inline_ambiguity(tier, rng))
    if ev.cov['counts'].get('explicit_ambiguous', 0) < 300:
        raise C.MachineryFailure('vacuity: %s' % ev.cov['counts'])


def directed_inline_ambiguity(tier, rng):
    """inlined rules (_x) of three or more symbols that combine an ambiguous split of their prefix (ambiguous intermediate
    forest node) with an ambiguous inlined child: the two expanders of the tree builder have to cooperate"""
    T, R = E.tok, E.ref
    A, B, D = T('A'), T('B'), T('D')

    def rule(name, alts, keepall=False, expand1=False):
        return {'name': name, 'expand1': expand1, 'keepall': keepall, 'alts': [{'alias': '', 'body': b} for b in alts]}
    prefixes = [  # (rules, symbols of the prefix): two neighbours that can split a shared B / A either way
        ([rule('a', [E.seq([A, E.opt(B)])], True), rule('b', [E.seq([E.opt(B), A])], True)], [R('a'), R('b')]),
        ([rule('a', [E.rep(A, 1, 2)], True), rule('b', [E.seq([E.rep(A, 0, 1), B])], True)], [R('a'), R('b')]),
        ([rule('a', [E.seq([A, E.rep(B, 0, -1)])], True), rule('b', [E.seq([E.rep(B, 0, -1), A])], True)], [R('a'), R('b')]),
    ]
    children = [  # (rules, the inlined ambiguous child)
        ([rule('_y', [R('p'), R('q')]), rule('p', [D], True), rule('q', [D], True)], R('_y')),
        ([rule('_y', [E.rep(R('i'), 1, -1)]), rule('i', [D, E.seq([D, D])], True)], R('_y')),
        ([rule('_y', [R('p'), E.seq([R('p'), R('p')])]), rule('p', [D, E.seq([D, D])], True)], R('_y')),
    ]
    out = []
    for (pr, psyms), (cr, csym) in [(p, c) for p in prefixes for c in children]:
        for xbody in ([*psyms, csym], [*psyms, csym, A], [B, *psyms, csym]):
            for top in ([R('_x')], [R('_x'), B], [A, R('_x')]):
                if rng.random() < (0.5 if tier == 'quick' else 1.0):
                    G = {'rules': [rule('start', [E.seq(list(top))]), rule('_x', [E.seq(list(xbody))])] + pr + cr}
                    ins = set()
                    for _ in range(30):
                        sn = E.sample_sentence(G, rng, maxlen=8)
                        if sn is not None:
                            ins.add(tuple(sn))
                    out.append({'G': G, 'ka': False, 'ph': True, 'inputs': sorted(ins), 'explicit': True, 'collapse': True, 'only_explicit': True,
                                'family': 'F_inline_amb'})
    return out


def body(tier, seed, replay):
    return c03.run(PID, tier, seed, replay)


if __name__ == '__main__':
    C.run_check(PID, body)
